#!/bin/sh
# usage: tools/run_all.sh [seed] [tier]  — run every claimed check once, print one line per check, restore evidence
SEED="${1:-20260927}"; TIER="${2:-quick}"
cd "$(dirname "$0")/.."
mkdir -p /tmp/verif_runall_$SEED
for id in $(python3 -c "import json;print(' '.join(c['property_id'] if 'property_id' in c else c['id'] for c in json.load(open('MANIFEST.json'))['checks']))" 2>/dev/null); do
  cp evidence/$id.json /tmp/verif_runall_$SEED/$id.json 2>/dev/null
  VERIF_SEED=$SEED ./check $id --tier $TIER > /tmp/verif_runall_$SEED/$id.log 2>&1
  rc=$?
  echo "$id seed=$SEED tier=$TIER exit=$rc $(grep -c '^VIOLATION' /tmp/verif_runall_$SEED/$id.log) violations; $(tail -1 /tmp/verif_runall_$SEED/$id.log | cut -c1-120)"
  cp /tmp/verif_runall_$SEED/$id.json evidence/$id.json 2>/dev/null
done
