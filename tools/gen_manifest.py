#!/venv/bin/python
"""Regenerate MANIFEST.json from tools/manifest_data.py (claimed checks) and properties.jsonl."""
import json, os, sys
sys.path.insert(0, os.path.dirname(os.path.abspath(__file__)))
from manifest_data import CHECKS, NOT_APPLICABLE, NOTES
props = [json.loads(l)['id'] for l in open('/verif/properties.jsonl')]
checks = []
for pid in props:
    if pid in CHECKS:
        c = CHECKS[pid]
        checks.append({
            'property_id': pid,
            'quick_cmd': './check %s --tier quick' % pid,
            'thorough_cmd': './check %s --tier thorough' % pid,
            'evidence_file': '/verif/evidence/%s.json' % pid,
            'replay_cmd_template': './check %s --replay {path}' % pid,
            'engine': 'coq-proof+correspondence',
            'level_claimed': {'category': 'proof', 'text': c['text'], 'design_ref': c.get('design_ref', 'DESIGN.md §7 ' + pid)},
            'level_note': c['note'],
            'technique': c['technique'],
        })
na = [{'property_id': pid, 'reason': NOT_APPLICABLE.get(pid, 'check not built yet in this round (see DESIGN.md §9); not claimed')}
      for pid in props if pid not in CHECKS]
m = {
    'version': 1,
    'setup_cmd': 'cd /verif/coq && coq_makefile -f _CoqProject -o Makefile && timeout 3000 make -j16',
    'hooks': {'guard': 'CHI_VERIF', 'enable': 'no source hook exists in chi: all doubles (toy mechanistic models, recording error models, the myokit.Simulation substitute) are injected by the harness process; ./check sets CHI_VERIF=1 for uniformity',
              'baseline_off_cmd': '/venv/bin/python /verif/tools/baseline.py',
              'source_commits': [], 'add_only': True},
    'engines': [{'name': 'coq-proof+correspondence', 'path': '/verif/check',
                 'serves_properties': sorted(CHECKS),
                 'kind_free_text': 'Coq 8.16.1 theorems about hand-written Gallina/Coquelicot models (coq/theories), tied to /repo on every run by a correspondence harness (harness/*.py): exact vm_compute case files for discrete models, CoqInterval-certified enclosures for real-valued ones; independent oracles search for a failing input after a break'}],
    'checks': checks,
    'notes': NOTES,
    'not_applicable': na,
}
json.dump(m, open('/verif/MANIFEST.json', 'w'), indent=1)
print('claimed:', sorted(CHECKS), 'unclaimed:', [x['property_id'] for x in na])
