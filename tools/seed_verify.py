#!/venv/bin/python
"""usage: tools/seed_verify.py <ID> [<k> ...]
Confirm, in the scratch worktree /tmp/wt_<ID>, the seeded changes a sub-agent left in /tmp/seed_<ID>/:
 demo passes on the clean checkout, patch applies, pinned baseline still passes with it, demo fails with it.
Confirmed changes are copied to /verif/seeded/<ID>-<k>/ (patch.diff, demo.py, meta.json)."""
import json, os, shutil, subprocess, sys

def sh(cmd, cwd=None, env=None, timeout=1800):
    p = subprocess.run(cmd, shell=True, cwd=cwd, env=env, stdout=subprocess.PIPE, stderr=subprocess.STDOUT,
                       text=True, timeout=timeout)
    return p.returncode, p.stdout

pid = sys.argv[1]
wt, src = '/tmp/wt_%s' % pid, '/tmp/seed_%s' % pid
ks = sys.argv[2:] or [f[5:-5] for f in sorted(os.listdir(src)) if f.startswith('patch') and f.endswith('.diff')]
env = dict(os.environ, PYTHONPATH=wt, PYTHONWARNINGS='ignore')
for k in ks:
    patch, demo, meta = ['%s/%s%s.%s' % (src, a, k, b) for a, b in (('patch', 'diff'), ('demo', 'py'), ('meta', 'json'))]
    ran = []
    sh('git checkout -- . && git clean -fdq', cwd=wt)
    rc0, out0 = sh('/venv/bin/python %s' % demo, cwd=wt, env=env)
    ran.append('clean checkout: demo exit %d' % rc0)
    rca, outa = sh('git apply %s' % patch, cwd=wt)
    ran.append('git apply: exit %d' % rca)
    rcb, outb = sh('/venv/bin/python /tmp/seedtools/baseline_check.py %s' % wt)
    ran.append('baseline with patch: %s (exit %d)' % (outb.strip().splitlines()[0] if outb.strip() else '', rcb))
    rc1, out1 = sh('/venv/bin/python %s' % demo, cwd=wt, env=env)
    ran.append('patched checkout: demo exit %d: %s' % (rc1, out1.strip().splitlines()[-1][:300] if out1.strip() else ''))
    sh('git checkout -- . && git clean -fdq', cwd=wt)
    ok = rc0 == 0 and rca == 0 and rcb == 0 and rc1 != 0
    print(pid, k, 'CONFIRMED' if ok else 'REJECTED', ran, flush=True)
    if ok:
        dst = '/verif/seeded/%s-%s' % (pid, k)
        os.makedirs(dst, exist_ok=True)
        shutil.copy(patch, dst + '/patch.diff')
        shutil.copy(demo, dst + '/demo.py')
        m = json.load(open(meta)) if os.path.exists(meta) else {}
        m['property'] = pid
        m['confirmed_by_verifier'] = ran
        json.dump(m, open(dst + '/meta.json', 'w'), indent=1)
