FIXED_EXTRA = [
 ('C11', 'SBMLModel.copy resets the sensitivity flag', 'copy() of a model with sensitivities enabled keeps the flag while the new simulator computes none: simulate() of the copy fails and likelihoods never re-enable sensitivities'),
 ('C11', 're-attaches the dosing regimen and refreshes', 'PKPDModel.set_administration after set_dosing_regimen leaves the new simulator without protocol (dosing_regimen() still reports one); direct after indirect administration keeps the dose compartment\'s name tables'),
 ('C14', 'builds a hierarchical log-posterior for a single individual', 'ProblemModellingController.get_log_posterior with a population model and a one-individual dataset raises TypeError (bare LogLikelihood handed to HierarchicalLogLikelihood)'),
 ('C18', 'removes pooled and heterogeneous dimensions by get_special_dims', 'HierarchicalLogPosterior.sample_initial_parameters finds special dimensions by isinstance: Covariate(Pooled/Heterogeneous) sub-models are not removed and the initial points cannot be assembled (broadcast ValueError)'),
 ('C18', 'accepts posteriors without individual dimension', 'compute_pointwise_loglikelihood raises AttributeError on the (chain, draw) dataset SamplingController returns for an individual LogPosterior'),
 ('C07', 'sorts the selected parameters with a stable sort', 'CovariateModel.set_population_parameters orders the selected (parameter, dimension) pairs with an unstable sort: for 9 selected pairs (default selection of Heterogeneous(n_dim=3, n_ids=3)) the order is not the flattened order of the population parameters'),
 ('C15', 'returns one row per individual in eta', 'PopulationPredictiveModel.sample with a pooled sub-model fails (broadcast ValueError) whenever n_samples differs from the n_ids the population model was last configured with'),
 ('C15', 'tabulates covariates that are shared by all samples', 'PopulationPredictiveModel.sample(return_df=True) with one covariate row for n_samples > 1 raises "All arrays must be of the same length"'),
 ('C03', 'hierarchical sensitivities of a composed population model nested', 'a ComposedPopulationModel nested in another one with a pooled or heterogeneous dimension: HierarchicalLogLikelihood.evaluateS1 raises "cannot reshape array" while __call__ is finite'),
 ('C05', 'passes its number of individuals on to all sub-models', 'ComposedPopulationModel built from a HeterogeneousModel(n_ids=k) and a nested composed model: the nested model stays at one individual (set_n_ids(k) returns early) and compute_sensitivities(reduce=True) raises a broadcast ValueError'),
 ('C19', 'PooledModel.sample returns a new array', 'PooledModel.sample returns a broadcast view of its parameter array; through a ReducedPopulationModel that is the wrapper\'s value buffer, so samples returned earlier change when the model is evaluated at other parameters'),
 ('C19', 'compute_individual_parameters does not hand out its value buffer', 'ReducedPopulationModel(Heterogeneous/Pooled).compute_individual_parameters returns a view of the wrapper\'s value buffer: the returned individual parameters change when the model is evaluated at other parameters afterwards'),
 ('C08', 'set_parameter_names keeps the names of fixed parameters', 'ReducedPopulationModel.set_parameter_names on the free parameters renames the fixed ones to "<name> <dim> <dim>": a fixed parameter can no longer be released (or re-fixed) under its name, fix_parameters({name: None}) is silently ignored'),
 ('C06', 'get_mean_and_std is accurate for means far below zero', 'TruncatedGaussianModel.get_mean_and_std for mu/sigma <= -7 (e.g. mu=-8, sigma=1) reports a negative, infinite or NaN mean and a wrong std although the density is proper there (cancellation in 1 - Phi(-mu/sigma))'),
 ('C17', 'forwards set_n_ids to the population model it wraps', 'a CovariatePopulationModel used on its own (not inside a ComposedPopulationModel) in a HierarchicalLogLikelihood raises "cannot reshape array" for more than one individual'),
]
OPEN = [
 {'property': 'C06', 'key': 'C06|CMG sampler adds two independent variates',
  'what': 'ConstantAndMultiplicativeGaussianErrorModel.sample adds two independent normal variates (variance '
          'sigma_base^2 + (m sigma_rel)^2) while its log-likelihood scores N(m, (sigma_base + sigma_rel m)^2); not '
          'repaired because a baseline test pins the seeded sample values (Properties/C06.v: C06_cmg_code_refuted)'},
 {'property': 'C11', 'key': 'C11|copy|sensitivities are switched off',
  'what': 'copy() of a mechanistic model with sensitivities enabled returns a model with sensitivities disabled '
          '(documented in the docstrings of SBMLModel.copy / PKPDModel.copy / ReducedMechanisticModel.copy), so the '
          'copy does not behave identically to its original as C11 states; not repaired because the documented '
          'behaviour is deliberate and likelihoods re-enable sensitivities themselves'},
]
