#!/venv/bin/python
"""Run chi's pinned baseline suite with the hook guard OFF and compare the set
of passing tests with /root/.vp/BASELINE.json (exit 0 iff every stable test
still passes)."""
import json, os, subprocess, sys, tempfile
import xml.etree.ElementTree as ET

base = json.load(open('/root/.vp/BASELINE.json'))
env = dict(os.environ)
env.pop('CHI_VERIF', None)
out = tempfile.mktemp(suffix='.xml', dir='/var/tmp')
subprocess.run(
    ['/venv/bin/python', '-m', 'pytest', '-q', '-p', 'no:cacheprovider',
     '--timeout=900', '--continue-on-collection-errors', '-x' if False else '-q',
     '--junitxml=' + out], cwd='/repo', env=env,
    stdout=subprocess.DEVNULL, stderr=subprocess.DEVNULL)
passed = set()
for tc in ET.parse(out).getroot().iter('testcase'):
    if not any(ch.tag in ('failure', 'error', 'skipped') for ch in tc):
        passed.add(tc.get('classname') + '::' + tc.get('name'))
os.remove(out)
missing = sorted(set(base['stable_pass']) - passed)
print('passed=%d stable=%d missing=%d' % (len(passed), len(base['stable_pass']), len(missing)))
for m in missing:
    print('MISSING', m)
sys.exit(1 if missing else 0)
