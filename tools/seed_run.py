#!/venv/bin/python
"""usage: tools/seed_run.py <seeded dir name> [check id] [--tier quick|thorough] [--repo DIR]
Apply /verif/seeded/<name>/patch.diff to /repo, run ./check <ID>, undo the patch straight afterwards, and record
in meta.json whether the check reported the violation.  With --repo DIR (a clean scratch checkout of chi outside
/repo and /verif) the patch is applied there instead, the check imports chi from DIR and skips the proof build
(development aid while /repo is busy)."""
import json, os, subprocess, sys
name = sys.argv[1]
pid = sys.argv[2] if len(sys.argv) > 2 and not sys.argv[2].startswith('--') else name.split('-')[0]
tier = sys.argv[sys.argv.index('--tier') + 1] if '--tier' in sys.argv else 'quick'
d = '/verif/seeded/' + name
REPO = sys.argv[sys.argv.index('--repo') + 1] if '--repo' in sys.argv else '/repo'
assert subprocess.run('git -C %s status --porcelain -- chi' % REPO, shell=True, capture_output=True, text=True).stdout.strip() == '', 'repo dirty'
ev = '/verif/evidence/%s.json' % pid
saved = open(ev).read() if os.path.exists(ev) else None
subprocess.run('git -C %s apply %s/patch.diff' % (REPO, d), shell=True, check=True)
try:
    cmd = './check %s --tier %s' % (pid, tier)
    env = dict(os.environ)
    if REPO != '/repo':
        cmd = '/venv/bin/python -W ignore harness/main.py %s --tier %s --no-proofs' % (pid, tier)
        env.update(PYTHONPATH='%s:/verif' % REPO, PYTHONHASHSEED='0', CHI_VERIF='1', PYTHONWARNINGS='ignore')
    p = subprocess.run(cmd, shell=True, cwd='/verif', stdout=subprocess.PIPE, env=env,
                       stderr=subprocess.STDOUT, text=True, timeout=7200)
finally:
    subprocess.run('git -C %s checkout -- chi' % REPO, shell=True, check=True)
    if saved is not None:
        open(ev, 'w').write(saved)   # evidence of a seeded run is never kept
viol = [l for l in p.stdout.splitlines() if l.startswith('VIOLATION')]
print(p.stdout[-1500:])
m = json.load(open(d + '/meta.json'))
m.setdefault('check_results', {})['%s/%s' % (pid, tier)] = {
    'exit': p.returncode, 'violation_lines': viol, 'caught': p.returncode == 1 and bool(viol)}
json.dump(m, open(d + '/meta.json', 'w'), indent=1)
print('RESULT', name, pid, tier, 'CAUGHT' if p.returncode == 1 and viol else 'MISSED')
