#!/venv/bin/python
"""usage: tools/seed_run.py <seeded dir name> [check id] [--tier quick|thorough]
Apply /verif/seeded/<name>/patch.diff to /repo, run ./check <ID>, undo the patch straight afterwards, and record
in meta.json whether the check reported the violation."""
import json, os, subprocess, sys
name = sys.argv[1]
pid = sys.argv[2] if len(sys.argv) > 2 and not sys.argv[2].startswith('--') else name.split('-')[0]
tier = sys.argv[sys.argv.index('--tier') + 1] if '--tier' in sys.argv else 'quick'
d = '/verif/seeded/' + name
assert subprocess.run('git -C /repo status --porcelain -- chi', shell=True, capture_output=True, text=True).stdout.strip() == '', 'repo dirty'
ev = '/verif/evidence/%s.json' % pid
saved = open(ev).read() if os.path.exists(ev) else None
subprocess.run('git -C /repo apply %s/patch.diff' % d, shell=True, check=True)
try:
    p = subprocess.run('./check %s --tier %s' % (pid, tier), shell=True, cwd='/verif', stdout=subprocess.PIPE,
                       stderr=subprocess.STDOUT, text=True, timeout=7200)
finally:
    subprocess.run('git -C /repo checkout -- chi', shell=True, check=True)
    if saved is not None:
        open(ev, 'w').write(saved)   # evidence of a seeded run is never kept
viol = [l for l in p.stdout.splitlines() if l.startswith('VIOLATION')]
print(p.stdout[-1500:])
m = json.load(open(d + '/meta.json'))
m.setdefault('check_results', {})['%s/%s' % (pid, tier)] = {
    'exit': p.returncode, 'violation_lines': viol, 'caught': p.returncode == 1 and bool(viol)}
json.dump(m, open(d + '/meta.json', 'w'), indent=1)
print('RESULT', name, pid, tier, 'CAUGHT' if p.returncode == 1 and viol else 'MISSED')
