STD_AXIOMS = ('Reals axioms ClassicalDedekindReals.sig_forall_dec / sig_not_dec, '
              'FunctionalExtensionality.functional_extensionality_dep and Classical_Prop.classic (all declared by the '
              'Coq standard library; pulled in by Reals/Coquelicot)')
NOTES = ('Single entry point ./check <ID> [--tier quick|thorough] [--replay file]; see DESIGN.md. fix: commits in /repo are '
         'listed in known_findings.json.')
NOT_APPLICABLE = {}
CHECKS = {
    'C04': {
        'text': 'Machine-checked proof (32 theorems, Properties/C04.v) over real-valued models of the four error models: '
                'total = sum of pointwise values for any length; exp(pointwise) is the documented density; every interval '
                'mass is the standard-normal mass of the transformed interval and the total mass tends to one (the Gaussian '
                'integral is proved, not assumed); guards give -inf; the returned sensitivities are the derivatives '
                '(is_derive) for any number of observations and any sensitivity width. The models are tied to /repo on '
                'every run: each double chi returns on a stratified + random suite is certified by a CoqInterval lemma to '
                'be within 1e-9 relative of the model value.',
        'note': 'Trusted: Coq kernel, stdlib/Coquelicot/CoqInterval, ' + STD_AXIOMS + '; the hand-written model '
                'Model/ErrorModels.v is a model (tie = differential, bounded by the generator published in the evidence '
                'file); IEEE rounding only through the 1e-9 tolerance; harness and NumPy trusted for the comparison.',
        'technique': 'Coq proof (Coquelicot is_derive / RInt / is_lim) + CoqInterval-certified correspondence',
    },
}
