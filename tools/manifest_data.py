STD_AXIOMS = ('Reals axioms ClassicalDedekindReals.sig_forall_dec / sig_not_dec, '
              'FunctionalExtensionality.functional_extensionality_dep and Classical_Prop.classic (all declared by the '
              'Coq standard library; pulled in by Reals/Coquelicot)')
NOTES = ('Single entry point ./check <ID> [--tier quick|thorough] [--replay file]; see DESIGN.md. fix: commits in /repo are '
         'listed in known_findings.json.')
NOT_APPLICABLE = {}
CHECKS = {
    'C04': {
        'text': 'Machine-checked proof (32 theorems, Properties/C04.v) over real-valued models of the four error models: '
                'total = sum of pointwise values for any length; exp(pointwise) is the documented density; every interval '
                'mass is the standard-normal mass of the transformed interval and the total mass tends to one (the Gaussian '
                'integral is proved, not assumed); guards give -inf; the returned sensitivities are the derivatives '
                '(is_derive) for any number of observations and any sensitivity width. The models are tied to /repo on '
                'every run: each double chi returns on a stratified + random suite is certified by a CoqInterval lemma to '
                'be within 1e-9 relative of the model value.',
        'note': 'Trusted: Coq kernel, stdlib/Coquelicot/CoqInterval, ' + STD_AXIOMS + '; the hand-written model '
                'Model/ErrorModels.v is a model (tie = differential, bounded by the generator published in the evidence '
                'file); IEEE rounding only through the 1e-9 tolerance; harness and NumPy trusted for the comparison.',
        'technique': 'Coq proof (Coquelicot is_derive / RInt / is_lim) + CoqInterval-certified correspondence',
    },
    'C01': {
        'text': 'Machine-checked proof (Properties/C01.v): for every number of outputs and every family of time grids '
                '(overlapping, nested, interleaved, with repeated times, length 1) the predictions handed to each error '
                'model are the predictions of that output at its own measurement times (union grid + searchsorted index = '
                'specification), every measurement is scored exactly once, the error-parameter slices partition the '
                'block, the pointwise values sum to the total for the four real error models, and a constructed object '
                'evaluates. Tied to /repo on every run: exact vm_compute comparison of the calls recorded by error-model '
                'doubles inside real chi.LogLikelihood objects (300+ grid arrangements incl. invalid constructions), and '
                'CoqInterval-certified scores/pointwise values with the real error models.',
        'note': 'Trusted: Coq kernel + stdlib (the bookkeeping theorems are axiom-free; the score theorems use the Reals '
                'axioms via Coquelicot), ' + STD_AXIOMS + '; hand-written models Model/TimeGrid.v, Model/LogLik.v; the toy '
                'mechanistic model and recording error models of the harness; tie is differential.',
        'technique': 'Coq proof (induction over grids/lists) + exact vm_compute and CoqInterval correspondence',
    },
    'C08': {
        'text': 'Machine-checked, axiom-free proof (Properties/C08.v) over a two-level model of the fix_parameters '
                'mechanism shared by the Reduced* classes: exact substitution (fixed values at fixed positions, free '
                'values in order, restricted gradient), names/counts, fix-then-release restores the state, the state '
                'after ANY call history is the net name->value map (history independence), and chi\'s mask/value '
                'buffers with the collapse-to-None rule refine that specification after every history. Tied to /repo on '
                'every run: 400+ random histories on real ReducedErrorModel / ReducedMechanisticModel / '
                'ReducedPopulationModel / LogLikelihood / PredictiveModel objects; reported names, counts and the full '
                'vector recorded by the wrapped model are compared by vm_compute with the code-level model, and every '
                'evaluation must be bit-identical to the unfixed object at the substituted vector. Renaming the free '
                'parameters of a reduced population model is modelled too (fixed parameters keep their published names; '
                'the pre-fix code is refuted) and compared by vm_compute with the names chi publishes.',
        'note': 'Trusted: Coq kernel + stdlib, no axioms (Print Assumptions: closed under the global context); model '
                'Model/Fixing.v hand-written; harness doubles (recording wrappers) and Python dict semantics; the problem '
                'controller\'s fix_parameters is covered only through the LogLikelihood / population wrappers it delegates to.',
        'technique': 'Coq proof (refinement of a state machine, induction over histories) + exact vm_compute correspondence',
    },
    'C20': {
        'text': 'Machine-checked, axiom-free proof (Properties/C20.v): for every multiset of samples (ties included) and '
                'every bulk probability a/b, whenever both rank-based limits exist they are sample values enclosing at '
                'least that fraction of the samples; bands are nested for increasing probabilities; the polygon has one '
                'upper and one lower vertex per time point and its y-vertices are exactly the limits of each unique time '
                '(each time of the table once, its samples exactly the values of its rows); the band of a time is '
                'independent of the row order of the samples table (Permutation); there is exactly one marker trace per individual holding '
                'exactly its (time, value) pairs of the chosen observable, and dose traces hold exactly its dose rows. '
                'Tied to /repo on every run: plotly traces of the four real plot classes on generated frames / sample '
                'sets are compared exactly (vm_compute) with the model; frames must be unchanged.',
        'note': 'Trusted: Coq kernel + stdlib, no axioms; model Model/Plots.v hand-written (pandas average ranks, '
                'first-appearance ordering); exact tie uses dyadic bulk probabilities so that chi\'s float comparisons '
                'coincide with the rational ones; pandas/plotly trusted as executed; ResidualPlot is covered only by '
                'the two fix: commits, not by a model.',
        'technique': 'Coq proof (counting argument over lists, nia) + exact vm_compute correspondence',
    },
    'C10': {
        'text': 'Machine-checked proof (Properties/C10.v): the dose rate is dose/duration inside a scheduled interval and '
                'zero outside; for ANY list of scheduled pulses and ANY time T the integral of the dose rate over [0,T] '
                '(Coquelicot is_RInt) is the sum of rate x elapsed part, which outside the infusion windows is dose x '
                'number of completed doses, is monotone in T, lies between 0 and the prescribed total, is 0 before the '
                'first pulse and the prescribed total (n x dose for a regimen) after the last; the regimen table computed by get_dosing_regimen equals the specification '
                '"all dose events with time <= final" for single, finite and indefinite events (axiom-free, Z '
                'arithmetic); dataset rows are reproduced one to one. Tied to /repo on every run through a substitute '
                'for myokit.Simulation: exact vm_compute comparison of the myokit protocol and regimen table of real '
                'PKPDModel / PredictiveModel objects (220+ regimens, final times on and around dose times), '
                'CoqInterval-certified cumulative input of the simulated system (direct and depot route), and direct '
                'checks of the protocol attached at run time after operation sequences and of the regimens the problem '
                'controller derives from datasets and applies per individual.',
        'note': 'Trusted: Coq kernel, stdlib, Coquelicot, CoqInterval, ' + STD_AXIOMS + ' (real-valued theorems only); '
                'hand-written Model/Dosing.v; harness/simsub.py replaces the absent sundials solver (scipy LSODA, '
                'self-tested against analytic solutions on every run) - the numerical ODE solution and myokit\'s own '
                'pacing engine are oracles, not verified; the model surgery of set_administration is tied only through '
                'the cumulative-input comparison.',
        'technique': 'Coq proof (Coquelicot RInt, Chasles; Z-arithmetic for the table) + exact vm_compute and CoqInterval correspondence via a solver substitute',
    },
    'C12': {
        'text': 'Machine-checked proof (Properties/C12.v) over a cell-level real-valued model of the five population '
                'filters: each score is the sum over non-missing measurements of the documented log-density (Gaussian, '
                'log-normal, Gaussian / log-normal KDE with the rule-of-thumb bandwidth, equal-weight Gaussian mixture '
                'over consecutive blocks) with the documented empirical estimates; the logsumexp max-shift cancels; '
                'permuting measured individuals leaves every score unchanged; the Gaussian filter\'s sensitivity is the '
                'derivative (is_derive) w.r.t. any simulated measurement for any cell size. Tied to /repo on every run: '
                'scores and gradient entries of the real filter classes (incl. ComposedPopulationFilter and sort_times '
                'with non-involutive orders, missing values) certified by CoqInterval; padding / permutation / time '
                're-ordering invariance checked directly. The gradients of all five filters are proved to be the derivatives '
                '(log-normal ones by the chain rule through the cell of the logarithms; KDE ones through a bandwidth that '
                'depends on every simulated value; the mixture one at block level). Model/FilterOrder.v: for every nesting '
                'of composed filters, each with a time order of its own, the argsort / fancy-index / slice bookkeeping '
                'scores simulated time j against the data column presented at j and returns the sensitivities in input '
                'order (proved; tied by vm_compute through chi\'s own ComposedPopulationFilter over recording leaf filters).',
        'note': 'Trusted: Coq kernel, stdlib, Coquelicot, CoqInterval, ' + STD_AXIOMS + '; hand-written Model/Filters.v; the '
                'harness maps chi\'s (individual, observable, time) arrays with NaNs and the time order onto cells; '
                'two fix: commits (log-normal KDE Jacobian, docstring) precede this check.',
        'technique': 'Coq proof (Coquelicot is_derive, ln/exp algebra) + CoqInterval-certified correspondence',
    },
    'C05': {
        'text': 'Machine-checked proof (Properties/C05.v) over a term-level real-valued model of the population models: '
                'exp of each term is the documented density (Gaussian, log-normal, Gaussian truncated at zero with Phi '
                'defined by an integral, standard normal for non-centred models, point mass for pooled/heterogeneous); '
                'the sensitivities w.r.t. the individual parameter, mean and standard deviation are the derivatives '
                '(is_derive, incl. the truncated Gaussian); supplied upstream sensitivities are propagated by the chain '
                'rule through psi = mu + sigma eta and psi = exp(mu + sigma eta); sums over any number of individuals '
                'lift term derivatives to the flattened gradient. Tied to /repo on every run: log-likelihood, '
                'individual parameters and the separate / flattened / hierarchical sensitivities of 7 model kinds '
                '(n_dim 1-3) and of compositions, in the flat / matrix / tensor layouts, are certified by CoqInterval '
                '(integrals enclosed by integral_intro); the three layouts must agree bit for bit.',
        'note': 'Trusted: Coq kernel, stdlib, Coquelicot, CoqInterval, ' + STD_AXIOMS + '; hand-written '
                'Model/PopModels.v; harness/popspec.py assembles the terms into chi\'s output positions (this placement '
                'is the specification, stated in the property, not a theorem); two fix: commits (heterogeneous tensor '
                'layout, TruncatedGaussianModel.compute_individual_parameters) precede this check.',
        'technique': 'Coq proof (Coquelicot is_derive, chain rule, RInt-defined Phi) + CoqInterval-certified correspondence',
    },
    'C07': {
        'text': 'Machine-checked proof (Properties/C07.v): the shifted parameter is theta_0 + sum_c beta_c chi_c; zero '
                'coefficients or zero covariates give the underlying parameter; d/dtheta_0 = 1, d/dbeta_c = chi_c and '
                'hence (chain rule) the sensitivity of any differentiable score w.r.t. beta_c is (d score/d vartheta) x '
                'chi_c; selections in any order and with duplicates are normalised to the same duplicate-free list of '
                'exactly the selected pairs (axiom-free); the coefficient of the k-th pair and c-th covariate has a '
                'unique flat position. Tied to /repo on every run: normalised selections and coefficient counts of real '
                'CovariatePopulationModel objects (exact, vm_compute); log-likelihood, individual parameters and the '
                'separate / hierarchical sensitivities over six underlying kinds certified by CoqInterval against the '
                'term-level model with cov_shift; names, per-individual delegation and the zero cases checked directly.',
        'note': 'Trusted: Coq kernel, stdlib, Coquelicot, CoqInterval, ' + STD_AXIOMS + ' (real-valued theorems only); '
                'Model/Covariate.v and Model/PopModels.v hand-written; NumPy argsort stability for selections of at '
                'most 16 pairs (the generator stays far below); sampling of covariate models is covered by C06.',
        'technique': 'Coq proof (is_derive chain rule; sorted-unique list canonical form) + exact vm_compute and CoqInterval correspondence',
    },
    'C17': {
        'text': 'Machine-checked, axiom-free proof (Properties/C17.v) over a descriptor model of compositions (kind, '
                'dimensionality, covariate wrapper with selection): for EVERY composition and number of individuals the '
                'number of names equals the number of IDs equals n_parameters; the IDs mark exactly the individual-level '
                'entries; the number of special dimensions is N_dim - N_hdim; with an injective naming scheme whose '
                'families are disjoint all names are pairwise distinct. Tied to /repo on every run: counts, '
                'special-dimension ranges and ID patterns of real ComposedPopulationModel / HierarchicalLogLikelihood / '
                'HierarchicalLogPosterior objects compared by vm_compute (thorough: all ordered pairs of 40 sub-model '
                'variants x 3 population sizes); evaluation at a vector of the reported length returns a gradient of '
                'that length; chi\'s actual name strings are checked for distinctness and order; random '
                'reconfiguration histories on population models, reduced mechanistic models and likelihoods. '
                'Model/Nested.v: compositions of compositions report what the flat composition of their leaves reports, '
                'their hierarchical sensitivities are assembled without error into the flat layout for every nesting, and '
                'every object below a composition works with the number of individuals the composition reports, also '
                'after set_n_ids (proved; the code before two fix commits is refuted by witnesses; tied by vm_compute on '
                'random nestings: n_ids() of every object, reports, tagged reduce=True sensitivities).',
        'note': 'Trusted: Coq kernel + stdlib, no axioms; Model/Layout.v hand-written; the injectivity premises of '
                'C17_names_unique are hypotheses of the theorem (chi\'s concrete strings are checked by the harness, not '
                'proved); controllers and predictive models are covered through the objects they delegate to (C14/C15).',
        'technique': 'Coq proof (structural induction over compositions) + exact vm_compute correspondence',
    },
    'C02': {
        'text': 'Machine-checked proof (Properties/C02.v): for EVERY composition the start/shift loop that reads the bottom '
                'block places the k-th bottom entry of an individual at the k-th non-special dimension and leaves exactly '
                'the pooled / heterogeneous dimensions to the population parameters (gather theorem, axiom-free); vector '
                'length = names = IDs and the IDs mark the individual-level block; the score is the population part '
                'plus the sum of the individual likelihoods and the early -inf return is the same value. The terms of '
                'that sum are those of C01/C04 (individual likelihoods), C05 (population densities, transforms) and C07 '
                '(covariate shifts). Tied to /repo on every run: tagged vectors through the real reshaping code '
                '(vm_compute); the score of real HierarchicalLogLikelihood objects over compositions of all kinds '
                '(non-centred, covariate-wrapped, pooled, heterogeneous, truncated, with a fixed population parameter) '
                'certified by CoqInterval against the assembled specification; names and IDs checked by perturbing '
                'each position.',
        'note': 'Trusted: Coq kernel, stdlib, Coquelicot, CoqInterval, ' + STD_AXIOMS + ' (real-valued parts); hand-written '
                'models; harness/popspec.py assembles the specification sum (this assembly is the property statement, not '
                'a theorem); shifted parameters of truncated-Gaussian terms are constant-folded in exact rational '
                'arithmetic because CoqInterval cannot reify integration bounds containing literal zeros.',
        'technique': 'Coq proof (gather theorem by induction over special ranges) + exact vm_compute and CoqInterval correspondence',
    },
    'C03': {
        'text': 'Machine-checked proof (Properties/C03.v): for any number of outputs with any mix of the four error '
                'models, the mechanistic block of the gradient (accumulated over all outputs through each output\'s own '
                'predictions and output sensitivities) and every error-parameter slot are the partial derivatives of '
                'the total score (is_derive); the score returned with the sensitivities is the plain score with the '
                'same -inf cases; bottom-level and population coordinates of the hierarchical gradient follow the chain '
                'rule through centred / non-centred Gaussian and log-normal transforms and covariate shifts; posteriors '
                'add the prior\'s sensitivity (sum rule). Tied to /repo on every run in two certified stages: '
                'LogLikelihood / LogPosterior.evaluateS1 vs ll_S1_spec (every entry), and HierarchicalLogLikelihood / '
                'HierarchicalLogPosterior.evaluateS1 over compositions of all population kinds vs the assembled '
                'specification gradient with chi\'s own individual gradients as upstream values. Score agreement and '
                '"S1 succeeds wherever the plain value is finite" are checked directly.',
        'note': 'Trusted: Coq kernel, stdlib, Coquelicot, CoqInterval, ' + STD_AXIOMS + '; hand-written models; '
                'harness/popspec.py places the term derivatives at their flat positions (the placement is the '
                'specification); pints priors are oracles (their own evaluateS1 is trusted); the truncated Gaussian '
                'population gradient is covered by C05 theorems.',
        'technique': 'Coq proof (Coquelicot is_derive, sums over outputs, chain rule) + two-stage CoqInterval-certified correspondence',
    },
    'C13': {
        'text': 'Machine-checked proof (Properties/C13.v): the four blocks (population parameters, optional noise scales, '
                'simulated individuals\' parameters, noise realisations) partition the vector and the IDs have its '
                'length; the (individual, observable, time) <-> position map of the noise block is a bijection; chi\'s '
                'noise score is the standard-normal log-density of the realisations up to the parameter-independent '
                'constant n_s n_obs (n_t - 1) ln(2 pi)/2; sensitivities w.r.t. noise realisations, noise scales and '
                '(through the mechanistic output) individual parameters are the derivatives for additive and log-scale '
                'noise (is_derive, chain rule). Population and filter terms are those of C05/C12. Tied to /repo on every '
                'run: score (minus the pints prior) of real PopulationFilterLogPosterior objects certified by '
                'CoqInterval against the assembled specification written as a Coq expression of the vector; every '
                'gradient entry certified against the assembly with the filter\'s own sensitivities as upstream values; '
                'names, IDs, lengths and reuse of the caller\'s filter checked directly.',
        'note': 'Trusted: Coq kernel, stdlib, Coquelicot, CoqInterval, ' + STD_AXIOMS + '; hand-written models; '
                'harness assembly (popspec + c13) is the specification; pints priors are oracles; one fix: commit '
                '(the posterior now delegates the hierarchical bookkeeping to the population model) precedes this check.',
        'technique': 'Coq proof (is_derive chain rule, div/mod bijection) + CoqInterval-certified correspondence',
    },
    'C09': {
        'text': 'Machine-checked proof (Properties/C09.v): for every declaration order of states and literal constants, '
                'np.argsort(np.argsort(names)) sends a state\'s declaration position to its alphabetical rank '
                '(argsort of a permutation is its inverse; sorted permutations are unique); after the calls simulate() '
                'makes, every published name — state or constant — is bound inside the solver to the vector entry at '
                'its published position; exactly the selected outputs are logged, in order, at the requested times; '
                'with the solver as an oracle simulate() is the initial-value problem with entry i assigned to '
                'published name i; the sensitivity request lists, in published order, the targets (init(x) / constant) of '
                'all, of the selected, or — for reduced models — of the free parameters. Library equations: the '
                'right-hand sides myokit reads from the four shipped XML files are translated to Coq on every run and '
                'proved equal to the documented equations (gen/C09_lib.v, `field`). Tied to /repo on every run: real '
                'SBMLModel / PKPDModel / ReducedMechanisticModel objects on library and random SBML files, driven '
                'through the recording solver substitute; published names, every solver call of a simulate() and the '
                'sensitivity request compared exactly (vm_compute); returned arrays compared with an independent solve '
                'binding each name to its entry, sensitivity columns with derivatives in published order.',
        'note': 'Trusted: Coq kernel, stdlib; the structural theorems are axiom-free, the library theorems use ' + STD_AXIOMS +
                '; hand-written model; myokit\'s SBML importer and expression trees; harness/simsub.py stands in for '
                'the absent native solver (self-tested against analytic solutions at start-up), so the numerical '
                'solution itself is an oracle.',
        'technique': 'Coq proof (permutation inverse, assignment by induction over call lists; field for the library '
                     'equations regenerated from the XML) + exact vm_compute correspondence of recorded solver calls',
    },
    'C11': {
        'text': 'Machine-checked proof (Properties/C11.v, axiom-free): the configuration calls of PKPDModel '
                '(set_administration, set_dosing_regimen, set_outputs, set_parameter_names, set_output_names, '
                'enable_sensitivities, copy — including every rejected call) are modelled as a state machine over the '
                'object\'s fields (model, name tables, name maps, outputs, solver object with its protocol and '
                'sensitivity request, flags). Proved for every finite history: the object stays consistent (model, '
                'tables and solver belong to the reported administration; the solver carries the reported regimen; '
                'maps cover exactly the published parameters / selected outputs; the flag matches the solver); a '
                'consistent object is THE realisation of its configuration (conc (cfg_of s) = s), so histories ending in '
                'the same configuration are indistinguishable now and after any further calls; simulate() is C09\'s '
                'simulate for the model of the reported administration; a copy has the same configuration with '
                'sensitivities off; the calls applying a net configuration (administration, regimen, outputs) to a fresh '
                'model reach exactly that configuration, so a history ending in it equals the fresh model with it. Tied to /repo on every run: all call sequences up to length 2 (thorough: 3) over '
                'an 11-call alphabet and random histories up to length 12 on library and random SBML models, every '
                'observation after every call compared exactly (vm_compute) with the model; directly: a fresh model '
                'with only the net configuration answers identically (names, counts, regimen, simulated arrays, '
                'sensitivities), copies answer like their originals and objects left behind at a copy are unaffected by '
                'later calls, also for ReducedMechanisticModel wrappers.',
        'note': 'Trusted: Coq kernel, stdlib (no axioms); hand-written model; myokit\'s model surgery for an '
                'administration is an oracle (variant table read from fresh chi models); harness/simsub.py stands in for '
                'the native solver. Two fix: commits precede this check; one open known finding (copy() switches '
                'sensitivities off, as documented). Outputs of the dose compartment across administration changes and '
                'duplicate output selections are not modelled.',
        'technique': 'Coq proof (invariant by induction over call histories + refinement to a configuration record) + '
                     'exact vm_compute correspondence of every observation after every call',
    },
    'C14': {
        'text': 'Machine-checked proof (Properties/C14.v, axiom-free) about the routing of dataset rows '
                '(Model/Problem.v): an individual\'s measurements for an output are exactly its own rows of the mapped '
                'observable with time and value present, in row order; dose rows become events that start at the row\'s '
                'time and deliver the row\'s amount over the given duration (0.01 when missing); IDs are listed once, in '
                'order of first appearance, as a function of the ID column only; unrelated rows (other individual, other '
                'observable, missing time / value / dose) change nothing; the whole routing is invariant under any '
                'rearrangement that keeps the first-appearance order of IDs and each individual\'s own row order. Tied to '
                '/repo on every run: real ProblemModellingController objects on random datasets; the arguments that reach '
                'chi.LogLikelihood / chi.HierarchicalLogLikelihood (IDs, (time, value) pairs per output, regimen of the '
                'model, covariate rows) captured by recording subclasses and compared exactly (vm_compute) with `routed`; '
                'directly: posterior values, gradients, names and IDs equal a posterior assembled by hand from an '
                'independent pass over the rows, reported regimens equal the dose rows, and the posterior is unchanged '
                'by unrelated / missing-value rows, extra columns, the ID data type and grouping rows by individual.',
        'note': 'Trusted: Coq kernel, stdlib (no axioms); hand-written model; pandas / myokit.Protocol semantics; the '
                'mechanistic models are recording toy models (with a closed-form dosing term), so the sandbox\'s missing '
                'solver plays no role; what the likelihood objects do with the routed data is C01 / C02. Per-output times '
                'are generated in non-decreasing row order because chi.LogLikelihood rejects anything else. One fix: '
                'commit (single-individual hierarchical posterior).',
        'technique': 'Coq proof (filter / first-appearance lemmas over row lists) + exact vm_compute correspondence of '
                     'the captured constructor arguments',
    },
    'C18': {
        'text': 'Machine-checked proof (Properties/C18.v, axiom-free) over the flat layout [individual blocks ++ population '
                'level] that C17 establishes for every composition: the vector positions named like bottom parameter j '
                'are exactly k*nb + j, one per individual; the posterior dataset stores bottom parameter j as one '
                'variable whose k-th individual entry is raw entry k*nb + j, and top parameter t as a scalar holding raw '
                'entry n*nb + t; IDs attached to positions are the block\'s individual / none; reading the dataset back '
                'for individual k returns that individual\'s own entries followed by the population level (round trip); '
                'initial points have length n_ids x non-special dimensions + prior dimension, individual-level entries '
                'are the population draw of that individual and model dimension, the rest is the prior draw; optimisation '
                'tables pair estimate k with name k, ID k, score and run. Tied to /repo on every run: SamplingController '
                '/ OptimisationController runs with the pints controllers replaced by stubs returning tagged integers, '
                'sample_initial_parameters with tagged prior and population sampler, dataset read-back through '
                'compute_pointwise_loglikelihood and PosteriorPredictiveModel — all compared exactly (vm_compute); '
                'directly: label-by-label equality with the raw chains, bijection of positions, seed reproducibility, '
                'finite prior + population contribution with real priors and samplers.',
        'note': 'Trusted: Coq kernel, stdlib (no axioms); hand-written model; xarray / pandas containers; pints '
                'controllers are replaced by stubs (what the samplers and optimisers compute is outside the property). '
                'Hierarchical pointwise log-likelihoods are unimplemented in chi (NotImplementedError), so read-back is '
                'exercised per individual. Non-centred bottom-level entries are checked for finiteness, not for their '
                'distribution. Two fix: commits precede this check.',
        'technique': 'Coq proof (position arithmetic of the flat layout, dict-style container, round trip) + exact '
                     'vm_compute correspondence on tagged chains / estimates / draws',
    },
    'C06': {
        'text': 'Machine-checked proof (Properties/C06.v): every sampling transform T of a standard-normal variate is an '
                'increasing bijection onto the support whose inverse S satisfies: exp(log-likelihood) integrates over '
                '[a, b] to the standard-normal mass of [S a, S b] — Gaussian, multiplicative, log-normal and the documented '
                '(one-variate) constant+multiplicative error models; Gaussian, log-normal and non-centred population '
                'models (with the non-centred transform to individual parameters giving the centred draw); truncated '
                'Gaussian: the scored density integrates to TG_cdf b - TG_cdf a, TG_cdf 0 = 0, i.e. the law of the inverse-'
                'CDF sampler; get_mean_and_std: all raw moments of the log-normal density (mean and std formula) and the '
                'mean of the truncated Gaussian as limits of integrals; REFUTED for chi\'s two-variate CMG sampler '
                '(variance sb^2 + (m sr)^2 vs (sb + sr m)^2). Tied to /repo on every run: the NumPy / SciPy samplers are '
                'reduced to primitive variates by identities re-checked each run; chi\'s sample(seed) of every error and '
                'population model (plain, reduced, covariate-wrapped, composed) equals the transform applied to the '
                'primitive stream of that seed in plan order; CoqInterval certifies sampled values against the Coq '
                'transforms, TG_cdf(sample) = uniform variate, and get_mean_and_std against LN_mean / LN_std / TG_mean / '
                'TG_std; directly: fixed-seed Kolmogorov-Smirnov and moment tests with 20000 draws per dimension.',
        'note': 'Partial: that NumPy\'s primitive variates are i.i.d. standard normal / uniform is assumed (the theorems are '
                'about the transforms); joint independence across positions is structural (disjoint primitive variates) and '
                'checked by replay, not proved; heterogeneous / pooled samplers are '
                'checked directly. Trusted: Coq kernel, stdlib, Coquelicot, CoqInterval, ' + STD_AXIOMS + '; SciPy '
                'distribution functions in the statistical search. One open known finding (CMG sampler).',
        'technique': 'Coq proof (change of variables for integrals, limits of truncated moments) + primitive-stream '
                     'replay + CoqInterval-certified correspondence',
    },
    'C15': {
        'text': 'Machine-checked proof (Properties/C15.v, axiom-free) of the labelling and routing: tables of PredictiveModel '
                '/ PopulationPredictiveModel hold one row per (output, time, sample) at index (o n_t + t) n_s + s with ID '
                's+1, the t-th sorted time, the o-th output name and the value of exactly that triple; prior / posterior '
                'predictive tables are sample-major with the analogous index formula; patients of a population predictive '
                'model are the population model\'s own transform of the draws; every row of a posterior predictive pool is '
                'one joint (chain, draw) and every (chain, draw) occurs once; IDs of an averaged model are shifted past the '
                'models before. Tied to /repo on every run with recording doubles: tables of all five predictive models '
                'compared exactly (vm_compute) with the model on tagged values; directly: every value is the tagged output '
                'of the sample / time / observable its row names (unsorted time vectors), patients equal the independent '
                'transform of draws replayed from the seed\'s primitive stream (non-centred, covariate-shifted, pooled; '
                'n_samples different from the stored n_ids), covariate rows, one complete prior draw per ID, joint '
                'posterior draws of the selected individual with mixed individual- and population-level variables, '
                'averaged-model frequencies within 5 sigma of the weights and IDs 1..n. param_map is one lookup per model '
                'parameter name, independent of the dictionary order (chained replacement refuted); the model owning each '
                'sample ID of an averaged model is a partition with count_occ IDs per model for every draw vector '
                '(numpy.unique counts refuted); both tied by vm_compute (stored names; draws replayed from the seed).',
        'note': 'Partial: the laws of the draws are C06 and the streams C16; that a table value is "distributed as the '
                'error model around the mechanistic output" is reduced to the error model\'s sample being called with that '
                'output and those parameters (recorded), not proved as a distributional statement. Heterogeneous '
                'sub-models in PopulationPredictiveModel and dose-event rows are not covered. Two fix: commits.',
        'technique': 'Coq proof (index arithmetic of nested tables, joint rows) + exact vm_compute correspondence on '
                     'tagged values + recorded parameter flow',
    },
    'C16': {
        'text': 'Machine-checked proof (Properties/C16.v, axiom-free) about which stream positions a call reads when one '
                'generator is made from the seed and handed to the sub-samplers in turn: all positions read within a '
                'call are pairwise distinct (different outputs, times, individuals, samples never share a variate); an '
                'integer seed alone determines them; a generator passed as seed ends past everything read and a second '
                'call reads disjoint positions; restarting the stream per sub-sampler (the defect repaired earlier) makes '
                'blocks overlap. Tied to /repo on every run for every sampling entry point (error, population, predictive, '
                'population / prior / posterior / averaged predictive models, sample_initial_parameters of three posterior '
                'classes): bit-identical results for equal seeds on the same object, on a fresh object, after other '
                'arguments were used on it, with disturbed global generators, with NumPy-integer seeds; different seeds '
                'differ; Generator seeds are advanced and end where the replayed plan ends; PredictiveModel results equal '
                'the plan on consecutive blocks of the primitive stream (block structure compared with the model by '
                'vm_compute); noise across outputs / times / samples is not shared and uncorrelated.',
        'note': 'Partial: that distinct positions of a NumPy stream and streams of distinct seeds are independent is '
                'NumPy\'s contract (assumed); independence is checked statistically (|r| < 6/sqrt(N)), not proved. Trusted: '
                'Coq kernel, stdlib (no axioms); PredictiveModel and PopulationPredictiveModel are replayed against their '
                'plans, the prior / posterior / averaged predictive models and the pints priors are checked for '
                'determinism, advancement and independence only.',
        'technique': 'Coq proof (disjointness of consecutively consumed stream blocks) + primitive-stream replay + '
                     'determinism / advancement checks on every entry point',
    },
    'C19': {
        'text': 'Machine-checked proof (Properties/C19.v, axiom-free) about the three pieces of state that evaluation '
                'paths write to: (1) the value buffer of Reduced* wrappers — after any sequence of evaluations the next '
                'evaluation hands the wrapped object the same vector and names / counts are unchanged; (2) the '
                'sensitivity switch of a log-likelihood — every entry point runs with the setting it needs whatever ran '
                'before; (3) the solver object — after the calls of simulate(), preceded by ANY earlier calls, every '
                'published parameter is bound to this call\'s entry and this call\'s outputs are logged at this call\'s '
                'times. Tied to /repo on every run: random interleavings of all evaluation entry points (value, pointwise, '
                'sensitivities, seeded sampling, at the same and at other inputs) on error and population models, '
                'log-likelihoods and posteriors (plain, fixed, hierarchical, filter), SBML models behind the solver '
                'substitute, predictive models and the problem controller, each result bit-identical to the same call on '
                'a freshly built object; earlier results and all inputs (arrays, data frames) unchanged; user models '
                'reconfigured half-way without effect on objects built from them; forked pints.ParallelEvaluator equals '
                'sequential evaluation; recorded solver calls of repeated simulations compared exactly (vm_compute) with '
                'the model applied after the whole earlier call history.',
        'note': 'Partial: the theorems cover the state the model names; that chi writes to nothing else, mutates no input '
                'and behaves identically in a forked worker is established by the correspondence checks on the explored '
                'interleavings only. Sensitivities returned together with a -inf score are unspecified (uninitialised '
                'arrays) and are not compared. Trusted: Coq kernel, stdlib (no axioms); harness/simsub.py.',
        'technique': 'Coq proof (buffer overwrite lemma, history-independence of the solver binding) + interleaving '
                     'differential checks against freshly built objects',
    },
}
