#!/bin/bash
# usage: tools/multiseed.sh <repo-dir> <seeds...>   — development aid: run every check (without rebuilding proofs)
# for several VERIF_SEEDs against a clean checkout of chi; prints the runs that raised an alarm.
REPO="$1"; shift
cd "$(dirname "$0")/.."
OUT=/tmp/verif_multiseed; mkdir -p $OUT
for id in $(python3 -c "import json;print(' '.join(c['property_id'] for c in json.load(open('MANIFEST.json'))['checks']))"); do
  ( for sd in "$@"; do
      VERIF_SEED=$sd PYTHONPATH=$REPO:$PWD PYTHONHASHSEED=0 CHI_VERIF=1 /venv/bin/python -W ignore harness/main.py $id --no-proofs > $OUT/$id.$sd.log 2>&1
      echo "$id seed=$sd exit=$? $(tail -1 $OUT/$id.$sd.log | cut -c1-110)"
    done ) &
  # at most 5 properties at a time
  while [ $(jobs -r | wc -l) -ge 5 ]; do sleep 2; done
done
wait
