#!/usr/bin/env python3-vt
import json, jsonschema, glob, sys
m = json.load(open('/verif/MANIFEST.json')); jsonschema.validate(m, json.load(open('/root/.vp/MANIFEST.schema.json'))); print('manifest ok')
sch = json.load(open('/root/.vp/EVIDENCE.schema.json'))
for f in sorted(glob.glob('/verif/evidence/*.json')):
    e = json.load(open(f)); jsonschema.validate(e, sch); print(f, 'ok', e['coverage'].get('obligations'), e['coverage'].get('discharged'), e.get('violations'))
