#!/venv/bin/python
"""Regenerate known_findings.json.  Fixed defects are looked up by the subject of their fix: commit in /repo;
open findings (recorded, not repaired) are listed in OPEN with the site key the checks use."""
import json, subprocess
log = subprocess.run('git -C /repo log --format=%h%x09%s', shell=True, capture_output=True, text=True).stdout.splitlines()
def commit(fragment):
    hits = [l.split('\t')[0] for l in log if l.split('\t')[1].startswith('fix:') and fragment in l]
    assert len(hits) == 1, (fragment, hits)
    return hits[0]
FIXED = [
 ('C01', 'pair repeated measurement times', 'a LogLikelihood with a repeated measurement time constructs but cannot be evaluated (boolean mask drops the tie)'),
 ('C12', 'LogNormalFilter log-density includes', 'LogNormalFilter halves the Jacobian term log y of the documented log-normal density'),
 ('C12', 'LogNormalKDEFilter log-density includes', 'LogNormalKDEFilter omits the Jacobian term log y of the documented log-normal kernel density'),
 ('C12', 'LogNormalKDEFilter documents the bandwidth', 'LogNormalKDEFilter docstring states a data-based bandwidth; the code (and its gradient) use the simulated log-measurements'),
 ('C03', 'accepts the flattened keyword', 'ReducedPopulationModel(CovariatePopulationModel).compute_sensitivities raises TypeError (flattened keyword)'),
 ('C03', 'hierarchical sensitivities of the right length', 'CovariatePopulationModel(Pooled/Heterogeneous) returns reduce=True sensitivities with bottom-level entries it does not have: evaluateS1 of a hierarchical likelihood raises a broadcast error while __call__ is finite'),
 ('C07', 'accepts several index pairs', 'CovariatePopulationModel.set_population_parameters with two index pairs raises ValueError; names taken from un-normalised order'),
 ('C05', 'matrix-layout parameters are reshaped', 'matrix-layout parameters are not reshaped in GaussianModel/LogNormalModel (assignment to n_parameters)'),
 ('C05', 'two parameter rows for any n_dim', 'TruncatedGaussianModel(n_dim>=2) sensitivities have 2*n_dim parameter rows, half uninitialised'),
 ('C05', "reads each individual's own parameter row", 'HeterogeneousModel scores the tensor parameter layout against row 0 for every individual (-inf) while the flat layout scores 0'),
 ('C02', 'implements compute_individual_parameters', 'TruncatedGaussianModel has no compute_individual_parameters: hierarchical likelihoods / composed models containing it raise NotImplementedError'),
 ('C06', 'get_mean_and_std returns shape', 'TruncatedGaussianModel(n_dim>=2).get_mean_and_std returns uninitialised rows'),
 ('C06', 'truncates at zero, not at the mean', 'TruncatedGaussianModel.sample truncates at the mean instead of zero'),
 ('C10', 'lists every dose up to the final time', 'regimen table of an indefinite regimen drops doses (ignores start, last dose, short final times)'),
 ('C16', 'independent noise for different outputs', 'PredictiveModel.sample with an integer seed gives identical noise to every output'),
 ('C16', 'draws the model indices from the seeded generator', 'PAMPredictiveModel.sample draws model indices from the global NumPy generator'),
 ('C13', 'lets the population model place pooled', 'PopulationFilterLogPosterior: pooled/heterogeneous dimensions inside Reduced/Covariate wrappers are never filled (-inf everywhere); compositions of several heterogeneous models are filled from the wrong blocks; all-pooled models with free sigma raise a broadcast error in evaluateS1'),
 ('C17', 'releases fixed parameters when the parameter count changes', 'ReducedPopulationModel.set_n_ids leaves a stale fixed-parameter mask when a heterogeneous sub-model changes the parameter count (IndexError in get_parameter_names)'),
 ('C17', 'names the covariate parameters after', "CovariatePopulationModel.set_parameter_names(None) resets coefficient names to generic 'Param. k' names that collide across sub-models and no longer identify the transformed parameter"),
 ('C20', 'accept non-integer IDs', 'PDTimeSeriesPlot / PDPredictivePlot / ResidualPlot raise TypeError for string IDs (trace name formatted with %d)'),
 ('C20', 'computes residuals on a copy', "ResidualPlot subtracts in place on the measurement frame's buffer (read-only ValueError / silent mutation)"),
 ('C20', 'ignores missing observable labels', 'PDPredictivePlot.add_data(observable=None) picks a NaN observable label when the first row is a dose row and draws nothing'),
]
try:
    from findings_extra import FIXED_EXTRA, OPEN
except ImportError:
    FIXED_EXTRA, OPEN = [], []
out = {'comment': "Genuine defects of DavAug/chi found by this verification. status 'fixed' entries suppress nothing; "
                  "status 'open' entries are reported as KNOWN-FINDING by the check of their property (matched by 'key').",
       'findings': []}
for prop, frag, what in FIXED + FIXED_EXTRA:
    c = commit(frag)
    out['findings'].append({'property': prop, 'status': 'fixed', 'commit': c,
                            'line': 'fixed: property=%s %s %s' % (prop, c, what)})
for o in OPEN:
    out['findings'].append(dict(o, status='open'))
json.dump(out, open('/verif/known_findings.json', 'w'), indent=1)
print(len(out['findings']), 'findings')
