"""C11 — mechanistic model behaviour depends only on its final configuration.

Tie (exact, vm_compute): configuration histories (set_administration, set_dosing_regimen, set_outputs,
set_parameter_names, set_output_names, enable_sensitivities, copy — valid and invalid arguments) on real
chi.PKPDModel objects (library models and random SBML files) driven through the recording solver substitute.
After every call the harness records what a user can see — parameters(), n_parameters(), outputs(), the regimen
reported, has_sensitivities(), whether the call raised — and what the solver object was given — the model it was
built from, the protocol attached, the sensitivities requested, the calls of a simulate() — and compares all of it
with Model/Config.v stepping through the same calls.
Direct property check (also the search oracle): a fresh model to which only the net configuration is applied must
answer all of these identically (including the simulated arrays and sensitivities); a copy must answer like its
original at copy time; and the object left behind at a copy must be unaffected by everything done afterwards to the
other one.  The same direct checks run on ReducedMechanisticModel wrappers (fix / release, renaming, outputs,
regimen, sensitivities, copy)."""
import copy as _copy
import os
import random
import shutil
import tempfile

import numpy as np

from harness import core, simsub, sbmlgen, c09
from harness.core import coq_list, coq_string, coqZ, coq_bool, coq_option

THEOREMS = ['C11_consistent_after_any_history', 'C11_state_is_config', 'C11_history_independent',
            'C11_reported_is_applied', 'C11_simulation_of_config', 'C11_observed_names', 'C11_copy',
            'C11_fresh_with_net_configuration', 'C11_history_equals_fresh']
HEADER = '''From Coq Require Import ZArith List Bool String.
From Chi Require Import Model.Mechanistic Model.Config Tie.C08Tie Tie.C09Tie Tie.C11Tie.
Import ListNotations.
Open Scope string_scope.
'''
SCALE = 16
REGIMENS = [
    {'dose': 2.0, 'start': 0.0, 'duration': 0.5, 'period': None, 'num': None},
    {'dose': 1.0, 'start': 0.25, 'duration': 0.125, 'period': 1.0, 'num': 2},
    {'dose': 0.5, 'start': 0.5, 'duration': 0.25, 'period': 0.75, 'num': None},
]
NEW_NAMES = ['N%d' % i for i in range(8)]
KNOWN_COPY_SENS = 'C11|copy|sensitivities are switched off'


def setup():
    c09.setup()


# ------------------------------------------------------------------------------------------------
# subjects
# ------------------------------------------------------------------------------------------------

def fresh(spec, tmp):
    import chi
    import chi.library
    if spec['source'] == 'library':
        return getattr(chi.library.ModelLibrary(), spec['name'])()
    xml, _ = sbmlgen.gen_sbml(random.Random(spec['xml_seed']))
    path = os.path.join(tmp, 'm_%d.xml' % spec['xml_seed'])
    if not os.path.exists(path):
        with open(path, 'w') as f:
            f.write(xml)
    return chi.PKPDModel(path)


def events(p):
    return None if p is None else tuple((e.level(), e.start(), e.duration(), e.period(), e.multiplier())
                                        for e in p.events())


def regimen_events(tmp):
    """events of the three regimens, as chi builds them"""
    import chi.library
    out = []
    for r in REGIMENS:
        m = chi.library.ModelLibrary().one_compartment_pk_model()
        m.set_administration('central')
        m.set_dosing_regimen(**r)
        out.append(events(m.dosing_regimen()))
    return out


def world(spec, tmp):
    """The solver's view of the model for every administration: {adm: (states, consts, loggable)}, the dosable
    compartments and some undosable ones."""
    m = fresh(spec, tmp)
    comps = [c.name() for c in m._model.components()]
    dosable = [c for c in comps if m._model.get(c).has_variable('drug_amount') and
               m._model.get(c + '.drug_amount').is_state()]
    def view(x):
        ds, dc, lg, _ = c09.solver_view(x)
        return ds, sorted(dc), lg       # constants are handed over by name: their order carries no information
    table = {None: view(m)}
    for c in dosable:
        for direct in (True, False):
            f = fresh(spec, tmp)
            f.set_administration(c, direct=direct)
            table[(c, direct)] = view(f)
    return {'table': table, 'dosable': dosable, 'undosable': [c for c in comps if c not in dosable] + ['nowhere'],
            'outs0': list(m._output_names)}


class Spec(object):
    """The configuration semantics in Python (used to generate meaningful calls and to compute the net
    configuration for the direct check)."""
    def __init__(self, w):
        self.w = w
        self.admin = None
        self.regimen = None
        self.names()
        self.outs = list(w['outs0'])
        self.onames = {n: n for n in self.outs}
        self.sens = None                  # list of published positions, or None

    def names(self):
        ds, dc, _ = self.w['table'][self.admin]
        self.myokit = sorted(ds) + sorted(dc)
        self.pnames = {n: n for n in self.myokit}

    def publics(self):
        return [self.pnames[n] for n in self.myokit]

    def valid_rename(self, d, current):
        new = list(d.values())
        return len(set(new)) == len(new) and not any(v in current for v in new)

    def apply(self, op):
        """returns True if the call is expected to raise"""
        k = op[0]
        if k == 'admin':
            if op[1] not in self.w['dosable']:
                return True
            self.admin = (op[1], op[2])
            self.names()
            self.onames = {n: n for n in self.outs}
            self.sens = None
            return False
        if k == 'regimen':
            if self.admin is None:
                return True
            self.regimen = op[1]
            return False
        if k == 'outputs':
            outs = list(op[1])
            for my, pub in self.onames.items():
                if pub in outs:
                    outs[outs.index(pub)] = my
            if any(o not in self.w['table'][self.admin][2] for o in outs):
                return True
            self.onames = {n: self.onames.get(n, n) for n in outs}
            self.outs = outs
            self.sens = None
            return False
        if k == 'pnames':
            if not self.valid_rename(op[1], self.publics()):
                return True
            self.pnames = {n: op[1].get(p, p) for n, p in self.pnames.items()}
            return False
        if k == 'onames':
            if not self.valid_rename(op[1], list(self.onames.values())):
                return True
            self.onames = {n: op[1].get(p, p) for n, p in self.onames.items()}
            return False
        if k == 'sens':
            if not op[1]:
                self.sens = None
                return False
            pos = [i for i, p in enumerate(self.publics()) if op[2] is None or p in op[2]]
            if not pos:
                return True
            self.sens = pos
            return False
        if k == 'copy':
            self.sens = None
            return False
        raise ValueError(op)


def gen_op(rng, sp):
    w = sp.w
    k = rng.choice(['admin', 'admin', 'regimen', 'regimen', 'outputs', 'outputs', 'pnames', 'onames', 'sens', 'sens',
                    'copy'])
    if k == 'admin':
        comp = rng.choice(w['dosable'] * 4 + w['undosable'])
        return ('admin', comp, rng.random() < 0.5)
    if k == 'regimen':
        return ('regimen', rng.randrange(len(REGIMENS)))
    if k == 'outputs':
        common = [v for v in w['table'][None][2] if all(v in t[2] for t in w['table'].values())]
        outs = rng.sample(common, rng.randint(1, min(3, len(common))))
        named = [sp.onames[o] if (o in sp.onames and rng.random() < 0.5) else o for o in outs]
        if rng.random() < 0.1:
            named = named + ['no.such_variable']
        return ('outputs', named)
    if k in ('pnames', 'onames'):
        cur = sp.publics() if k == 'pnames' else list(sp.onames.values())
        keys = rng.sample(cur, rng.randint(1, min(2, len(cur))))
        if rng.random() < 0.15:
            keys[0] = 'stale name'
        vals = rng.sample(NEW_NAMES, len(keys))
        r = rng.random()
        if r < 0.12:
            vals[0] = rng.choice(cur)                     # collides with a displayed name
        elif r < 0.2 and len(vals) > 1:
            vals[1] = vals[0]                             # duplicate new names
        return (k, dict(zip(keys, vals)))
    if k == 'sens':
        r = rng.random()
        if r < 0.3:
            return ('sens', False, None)
        if r < 0.6:
            return ('sens', True, None)
        if r < 0.7:
            return ('sens', True, ['not a parameter'])
        cur = sp.publics()
        return ('sens', True, rng.sample(cur, rng.randint(1, len(cur))))
    return ('copy',)


def call(m, op):
    """Apply one call to a chi model.  Returns (object to continue with, raised?, copy or None)."""
    k = op[0]
    try:
        if k == 'admin':
            m.set_administration(op[1], direct=op[2])
        elif k == 'regimen':
            m.set_dosing_regimen(**REGIMENS[op[1]])
        elif k == 'outputs':
            m.set_outputs(list(op[1]))
        elif k == 'pnames':
            m.set_parameter_names(dict(op[1]))
        elif k == 'onames':
            m.set_output_names(dict(op[1]))
        elif k == 'sens':
            if op[2] is None:
                m.enable_sensitivities(op[1])
            else:
                m.enable_sensitivities(op[1], list(op[2]))
        elif k == 'copy':
            return m.copy(), False
    except (ValueError, KeyError, TypeError):
        return m, True
    return m, False


def look(m, reg_events, numeric=False, theta=None, times=None):
    """Everything observable on a PKPDModel (through its API and the solver recorder)."""
    sim = m._simulator
    n = m.n_parameters()
    ds, dc, _, sens = c09.solver_view(m)
    dc = sorted(dc)
    o = {'params': list(m.parameters()), 'n': n, 'outputs': list(m.outputs()),
         'regimen': events(m.dosing_regimen()), 'has_sens': bool(m.has_sensitivities()),
         'sim_states': ds, 'sim_consts': dc, 'sim_protocol': events(sim._protocol),
         'sim_sens': None if sens is None else [list(sens[0]), list(sens[1])]}
    for key in ('regimen', 'sim_protocol'):
        if o[key] is not None:
            o[key + '_id'] = reg_events.index(o[key]) if o[key] in reg_events else -1
        else:
            o[key + '_id'] = None
    if theta is not None:
        th = theta[:n] + [1.0] * max(0, n - len(theta))
        simsub.Simulation.dry = not numeric
        try:
            k0 = len(sim.calls)
            try:
                res = m.simulate(np.array(th), times)
                o['sim'] = (th, times, list(sim.calls[k0:]))
                if numeric:
                    o['result'] = [np.asarray(r) for r in res] if isinstance(res, tuple) else [np.asarray(res)]
            except Exception as e:          # an inconsistent object may not simulate at all
                o['sim'] = (th, times, None)
                o['sim_error'] = '%s: %s' % (type(e).__name__, e)
        finally:
            simsub.Simulation.dry = False
    return o


def same(a, b, what):
    for k in ('params', 'n', 'outputs', 'regimen', 'has_sens'):
        if a[k] != b[k]:
            return '%s: %s is %s, expected %s' % (what, k, a[k], b[k])
    if ('sim_error' in a) != ('sim_error' in b):
        return '%s: simulate raised %s / %s' % (what, a.get('sim_error'), b.get('sim_error'))
    if 'result' in a and 'result' in b:
        if len(a['result']) != len(b['result']):
            return '%s: simulate returns %d arrays, expected %d' % (what, len(a['result']), len(b['result']))
        for x, y in zip(a['result'], b['result']):
            if x.shape != y.shape:
                return '%s: simulated array has shape %s, expected %s' % (what, x.shape, y.shape)
            if not np.allclose(x, y, rtol=1e-9, atol=1e-11):
                return '%s: simulated values differ (max abs diff %.3g)' % (what, float(np.max(np.abs(x - y))))
    return None


# ------------------------------------------------------------------------------------------------
# one history
# ------------------------------------------------------------------------------------------------

THETA = [k / SCALE for k in (9, 20, 13, 30, 17, 26, 11, 23, 15, 28, 19, 10, 21, 14, 25, 12, 27, 16, 29, 18)]
TIMES = [4 / SCALE, 12 / SCALE, 24 / SCALE, 40 / SCALE]


def gen_history(rng, w, length):
    sp = Spec(w)
    ops = []
    # half of the histories start from a configured model: administration, often a regimen, often sensitivities —
    # the combinations that the rarely taken branches of the configuration calls depend on
    if rng.random() < 0.5 and w['dosable']:
        pre = [('admin', rng.choice(w['dosable']), rng.random() < 0.5)]
        if rng.random() < 0.7:
            pre.append(('regimen', rng.randrange(len(REGIMENS))))
        if rng.random() < 0.6:
            pre.append(('sens', True, None))
        for op in pre:
            sp.apply(op)
            ops.append(op)
    for _ in range(length):
        op = gen_op(rng, sp)
        sp.apply(op)
        ops.append(op)
    return ops


def run_history(spec, ops, tmp, reg_events, w, keep_copy_mask):
    """Execute a history on a real model.  At a copy, keep_copy_mask decides which of the two objects continues; the
    other one is frozen and re-observed at the end.  Returns (records, failures)."""
    m = fresh(spec, tmp)
    sp = Spec(w)
    records = [(None, False, look(m, reg_events, theta=THETA, times=TIMES))]
    frozen = []
    fails = []
    ncopy = 0
    for op in ops:
        expect_raise = sp.apply(op) if op[0] != 'copy' else False
        if op[0] == 'copy':
            before = look(m, reg_events, numeric=True, theta=THETA, times=TIMES)
            had_sens = before['has_sens']
            c, raised = call(m, op)
            after_c = look(c, reg_events, numeric=True, theta=THETA, times=TIMES)
            if had_sens and not after_c['has_sens']:
                fails.append((KNOWN_COPY_SENS, 'copy() of a model with sensitivities enabled returns a model with '
                              'sensitivities disabled (documented in the docstrings), so it does not behave like '
                              'its original'))
                # compare the rest with the original as it would be with sensitivities switched off
                cmp_before = dict(before, has_sens=False, result=before['result'][:1])
            else:
                cmp_before = before
            d = same(after_c, cmp_before, 'copy')
            if d:
                fails.append(('C11|copy', d))
            again = look(m, reg_events, numeric=True, theta=THETA, times=TIMES)
            d = same(again, before, 'original after copy()')
            if d:
                fails.append(('C11|copy', d))
            keep_copy = keep_copy_mask[ncopy % len(keep_copy_mask)]
            ncopy += 1
            if keep_copy:
                sp.apply(op)
                frozen.append((m, before))
                m = c
                records.append((op, False, look(m, reg_events, theta=THETA, times=TIMES)))
            else:
                frozen.append((c, after_c))
                # the original continues: for the model this is no step at all
                records.append((None, False, look(m, reg_events, theta=THETA, times=TIMES)))
            continue
        m, raised = call(m, op)
        records.append((op, raised, look(m, reg_events, theta=THETA, times=TIMES)))
    for obj, snap in frozen:
        now = look(obj, reg_events, numeric=True, theta=THETA, times=TIMES)
        d = same(now, snap, 'object left behind at a copy, after later changes to the other one')
        if d:
            fails.append(('C11|copy', d))
    return m, sp, records, fails


def net_check(spec, sp, m, tmp, reg_events):
    """A fresh model with only the net configuration must answer like the object with the history."""
    f = fresh(spec, tmp)
    if sp.admin is not None:
        f.set_administration(sp.admin[0], direct=sp.admin[1])
    if sp.regimen is not None:
        f.set_dosing_regimen(**REGIMENS[sp.regimen])
    f.set_outputs(list(sp.outs))
    ren = {n: p for n, p in sp.pnames.items() if n != p}
    if ren:
        f.set_parameter_names(ren)
    ren = {n: p for n, p in sp.onames.items() if n != p}
    if ren:
        f.set_output_names(ren)
    if sp.sens is not None:
        pubs = sp.publics()
        f.enable_sensitivities(True, [pubs[i] for i in sp.sens])
    a = look(m, reg_events, numeric=True, theta=THETA, times=TIMES)
    b = look(f, reg_events, numeric=True, theta=THETA, times=TIMES)
    d = same(a, b, 'object after the history vs fresh model with the net configuration')
    if d:
        return d
    if a['regimen'] != a['sim_protocol']:
        return 'dosing_regimen() reports %s, the solver applies %s' % (a['regimen'], a['sim_protocol'])
    return None


# ------------------------------------------------------------------------------------------------
# reduced wrappers (direct checks only)
# ------------------------------------------------------------------------------------------------

def reduced_history(spec, seed, tmp, reg_events, w):
    import chi
    rng = random.Random(seed)
    inner = fresh(spec, tmp)
    if w['dosable'] and rng.random() < 0.7:
        inner.set_administration(rng.choice(w['dosable']), direct=rng.random() < 0.5)
        admin = True
    else:
        admin = False
    m = chi.ReducedMechanisticModel(inner)
    names0 = list(m.parameters())
    net_fixed = {}                  # position -> value
    pubs = list(names0)
    regimen = None
    frozen = []
    desc = []

    def view(x):
        o = {'params': list(x.parameters()), 'n': x.n_parameters(), 'outputs': list(x.outputs()),
             'regimen': events(x.dosing_regimen()), 'has_sens': bool(x.has_sensitivities()),
             'n_fixed': x.n_fixed_parameters()}
        th = THETA[:o['n']]
        try:
            res = x.simulate(np.array(th), TIMES)
            o['result'] = [np.asarray(r) for r in res] if isinstance(res, tuple) else [np.asarray(res)]
        except Exception as e:
            o['sim_error'] = '%s: %s' % (type(e).__name__, e)
        return o
    script = []
    r = rng.random()
    if r < 0.25 and len(pubs) >= 2:
        # sensitivities on, one parameter fixed, then ONE call that releases it and fixes another
        script = ['sens_on', ('fixd', {pubs[0]: 1.25}), ('swap', 0, 1)]
    elif r < 0.5:
        # sensitivities on, one parameter fixed, then released again (nothing fixed any more)
        script = ['sens_on', ('fixd', {pubs[-1]: 0.75}), ('fixd', {pubs[-1]: None})]
    for step in script:
        desc.append(str(step))
        if step == 'sens_on':
            m.enable_sensitivities(True)
        elif step[0] == 'fixd':
            for name, v in step[1].items():
                i = pubs.index(name)
                if v is None:
                    net_fixed.pop(i, None)
                else:
                    net_fixed[i] = v
            m.fix_parameters(dict(step[1]))
        else:
            a, b = step[1], step[2]
            net_fixed.pop(a, None)
            net_fixed[b] = 1.5
            m.fix_parameters({pubs[a]: None, pubs[b]: 1.5})
    for _ in range(rng.randint(0 if script else 2, 6)):
        k = rng.choice(['fix', 'fix', 'fix', 'rename', 'regimen', 'sens', 'copy', 'copy'])
        desc.append(k)
        if k == 'fix':
            d = {}
            for i in rng.sample(range(len(pubs)), rng.randint(1, min(3, len(pubs)))):
                if rng.random() < 0.3:
                    d[pubs[i]] = None
                    net_fixed.pop(i, None)
                else:
                    d[pubs[i]] = rng.randint(8, 48) / SCALE
                    net_fixed[i] = d[pubs[i]]
            if len(net_fixed) == len(pubs):     # keep at least one free parameter
                i = sorted(net_fixed)[0]
                d[pubs[i]] = None
                net_fixed.pop(i)
            if rng.random() < 0.4:
                # names of other models' parameters (the problem controller passes error-model names along) are
                # no part of this model's configuration, wherever they stand in the dictionary
                items = list(d.items())
                items.insert(rng.randrange(len(items) + 1), ('Sigma of another model', rng.choice([None, 2.0, 0.5])))
                d = dict(items)
                desc.append('fix with a foreign name %r' % list(d))
            m.fix_parameters(d)
        elif k == 'rename':
            i = rng.randrange(len(pubs))
            new = 'R%d_%d' % (len(desc), i)
            m.set_parameter_names({pubs[i]: new})
            pubs[i] = new
        elif k == 'regimen' and admin:
            regimen = rng.randrange(len(REGIMENS))
            m.set_dosing_regimen(**REGIMENS[regimen])
        elif k == 'sens':
            m.enable_sensitivities(rng.random() < 0.7)
        elif k == 'copy':
            before = view(m)
            c = m.copy()
            vc = view(c)
            if before['has_sens'] and not vc['has_sens']:
                cmp_before = dict(before, has_sens=False)
                if 'result' in before:
                    cmp_before['result'] = before['result'][:1]
                known = True
            else:
                cmp_before, known = before, False
            d = same(vc, cmp_before, 'copy of a reduced model') or (
                None if vc['n_fixed'] == before['n_fixed'] else 'copy has %d fixed parameters, original %d' % (
                    vc['n_fixed'], before['n_fixed']))
            if d:
                return desc, ('C11|reduced copy', d)
            if rng.random() < 0.5:
                frozen.append((m, before))
                m = c
                if known:
                    pass
            else:
                frozen.append((c, vc))
    for obj, snap in frozen:
        now = view(obj)
        d = same(now, snap, 'reduced model left behind at a copy, after later changes to the other one') or (
            None if now['n_fixed'] == snap['n_fixed'] else 'n_fixed_parameters changed from %d to %d' % (
                snap['n_fixed'], now['n_fixed']))
        if d:
            return desc, ('C11|reduced copy', d)
    # net configuration on a fresh wrapper
    f_inner = fresh(spec, tmp)
    if admin:
        f_inner.set_administration(*[inner.administration()['compartment']], direct=inner.administration()['direct'])
    f = chi.ReducedMechanisticModel(f_inner)
    ren = {a: b for a, b in zip(names0, pubs) if a != b}
    if ren:
        f.set_parameter_names(ren)
    if net_fixed:
        f.fix_parameters({pubs[i]: v for i, v in net_fixed.items()})
    if regimen is not None:
        f.set_dosing_regimen(**REGIMENS[regimen])
    if m.has_sensitivities():
        f.enable_sensitivities(True)
    d = same(view(m), view(f), 'reduced model after the history vs fresh wrapper with the net configuration')
    if d:
        return desc, ('C11|reduced', d)
    return desc, None


# ------------------------------------------------------------------------------------------------
# Coq encoding
# ------------------------------------------------------------------------------------------------

def coq_adm(a):
    return 'None' if a is None else '(Some (%s, %s))' % (coq_string(a[0]), coq_bool(a[1]))


def coq_smap(d):
    return coq_list(list(d.items()), lambda kv: '(%s, %s)' % (coq_string(kv[0]), coq_string(kv[1])))


def coq_op(op):
    k = op[0]
    if k == 'admin':
        return 'SetAdmin nat %s %s' % (coq_string(op[1]), coq_bool(op[2]))
    if k == 'regimen':
        return 'SetRegimen nat %d' % op[1]
    if k == 'outputs':
        return 'SetOutputs nat %s' % coq_list(op[1], coq_string)
    if k == 'pnames':
        return 'RenameParams nat %s' % coq_smap(op[1])
    if k == 'onames':
        return 'RenameOutputs nat %s' % coq_smap(op[1])
    if k == 'sens':
        return 'EnableSens nat %s %s' % (coq_bool(op[1]), coq_option(op[2], lambda l: coq_list(l, coq_string)))
    if k == 'copy':
        return 'Copy nat'
    raise ValueError(op)


def coq_seen(raised, o):
    sim = 'None'
    if o.get('sim') and o['sim'][2] is not None:
        th, ts, calls = o['sim']
        sim = '(Some (%s, %s, %s))%%Z' % (coq_list([c09.scaled(x) for x in th], coqZ),
                                       coq_list([c09.scaled(x) for x in ts], coqZ),
                                       coq_list(calls, lambda c: '(%s)' % c09.coq_call(c)))
    sens = 'None' if o['sim_sens'] is None else '(Some (%s, %s))' % (
        coq_list(o['sim_sens'][0], coq_string), coq_list(o['sim_sens'][1], coq_string))
    return ('{| e_raised := %s; e_params := %s; e_n := %d; e_outputs := %s; e_regimen := %s; e_has_sens := %s; '
            'e_sim_states := %s; e_sim_consts := %s; e_sim_protocol := %s; e_sim_sens := %s; e_sim := %s |}' % (
                coq_bool(raised), coq_list(o['params'], coq_string), o['n'], coq_list(o['outputs'], coq_string),
                coq_option(o['regimen_id']), coq_bool(o['has_sens']), coq_list(o['sim_states'], coq_string),
                coq_list(o['sim_consts'], coq_string), coq_option(o['sim_protocol_id']), sens, sim))


def coq_case(w, records):
    table = coq_list(list(w['table'].items()), lambda kv: '(%s, (%s, %s, %s))' % (
        coq_adm(kv[0]), coq_list(kv[1][0], coq_string), coq_list(kv[1][1], coq_string), coq_list(kv[1][2], coq_string)))
    hist = [(op, raised, o) for op, raised, o in records[1:] if op is not None]
    # an object that continues after being copied took no step: its observation must equal the previous one
    return 'c11_case %s %s %s %s %s' % (
        table, coq_list(w['dosable'], coq_string), coq_list(w['outs0'], coq_string), coq_seen(False, records[0][2]),
        coq_list(hist, lambda r: '(%s, %s)' % (coq_op(r[0]), coq_seen(r[1], r[2]))))


# ------------------------------------------------------------------------------------------------
# driver
# ------------------------------------------------------------------------------------------------

def model_specs(rng, k):
    if k % 4 == 0:
        return {'source': 'library', 'name': c09.LIBRARY[(k // 4) % 2]}
    return {'source': 'generated', 'xml_seed': rng.randrange(10 ** 6)}


def check_case(case, tmp, reg_events):
    """Runs one case on chi.  Returns (world, records, failures[(key, what)])."""
    spec = case['spec']
    w = world(spec, tmp)
    if case.get('type') == 'reduced':
        desc, fail = reduced_history(spec, case['seed'], tmp, reg_events, w)
        return w, None, ([fail] if fail else [])
    ops = [tuple(o) for o in case['ops']]
    m, sp, records, fails = run_history(spec, ops, tmp, reg_events, w, case.get('keep_copy', [True]))
    # records of an object that was copied but continues itself must not have changed
    for (op0, _, a), (op1, _, b) in zip(records, records[1:]):
        if op1 is None and (a['params'], a['outputs'], a['regimen'], a['has_sens'], a['sim_sens']) != (
                b['params'], b['outputs'], b['regimen'], b['has_sens'], b['sim_sens']):
            fails.append(('C11|copy', 'copy() changed its original'))
    d = net_check(spec, sp, m, tmp, reg_events)
    if d:
        fails.append(('C11|net configuration', d))
    return w, records, fails


def oracle(case):
    tmp = tempfile.mkdtemp(prefix='c11_')
    try:
        reg_events = regimen_events(tmp)
        _, _, fails = check_case(case, tmp, reg_events)
        fails = [f for f in fails if f[0] != KNOWN_COPY_SENS]
        return fails[0][1] if fails else None
    finally:
        shutil.rmtree(tmp, ignore_errors=True)


def key_of(case, what):
    return 'C11|%s' % case.get('type', 'history')


def gen_case(rng, k, exhaustive_ops=None):
    spec = model_specs(rng, k)
    return {'spec': spec, 'seed': rng.randrange(10 ** 6), 'length': rng.randint(1, 12) if exhaustive_ops is None else 0}


def run(ck):
    setup()
    tmp = tempfile.mkdtemp(prefix='c11_')
    try:
        reg_events = regimen_events(tmp)
        exprs, payload = [], {}
        cases = []
        # (a) exhaustive short histories over a fixed alphabet on the library PK model
        lib = {'source': 'library', 'name': 'one_compartment_pk_model'}
        alphabet = [('admin', 'central', True), ('admin', 'central', False), ('regimen', 0), ('regimen', 1),
                    ('outputs', ['central.drug_amount']), ('outputs', ['central.drug_concentration', 'central.drug_amount']),
                    ('pnames', {'central.size': 'N0'}), ('onames', {'central.drug_concentration': 'N1'}),
                    ('sens', True, None), ('sens', False, None), ('copy',)]
        depth = 3 if ck.thorough() else 2
        seqs = [[]]
        for _ in range(depth):
            seqs = [s + [a] for s in seqs for a in alphabet]
        for s in seqs:
            cases.append({'spec': lib, 'ops': s, 'keep_copy': [True], 'kind': 'exhaustive'})
        ck.cov['exhaustive'] = True
        ck.cov['exhaustive_note'] = 'all %d sequences of length %d over an %d-call alphabet on the library PK model' % (
            len(seqs), depth, len(alphabet))
        # (b) random deeper histories on library and generated models
        for k in range(ck.n(110, 1200)):
            spec = model_specs(ck.rng, k)
            w = world(spec, tmp)
            if not w['dosable']:
                continue
            ops = gen_history(random.Random(ck.rng.randrange(10 ** 9)), w, ck.rng.randint(2, 12))
            cases.append({'spec': spec, 'ops': ops, 'keep_copy': [ck.rng.random() < 0.5 for _ in range(3)],
                          'kind': 'random'})
        n_known = 0
        for i, case in enumerate(cases):
            try:
                w, records, fails = check_case(case, tmp, reg_events)
            except Exception as e:
                ck.violation(key_of(case, ''), 'harness/chi raised %s: %s' % (type(e).__name__, e), case)
                continue
            ck.count('%s histories' % case['kind'])
            ck.count('length=%d' % len(case['ops']))
            for op in case['ops']:
                ck.count('call=%s' % op[0])
            for _, raised, _ in records[1:]:
                ck.count('calls that raised' if raised else 'calls that succeeded')
            ck.case({'spec': case['spec'], 'ops': case['ops'], 'keep_copy': case['keep_copy']},
                    nontrivial=len(case['ops']) > 0)
            bad = False
            for key, what in fails:
                if key == KNOWN_COPY_SENS:
                    n_known += 1
                ck.violation(key, what, case)
                bad = bad or key != KNOWN_COPY_SENS
            if bad:
                continue
            label = 'h%d' % i
            payload[label] = case
            exprs.append((label, coq_case(w, records)))
        # (c) reduced wrappers
        for j in range(ck.n(60, 600)):
            spec = model_specs(ck.rng, j)
            case = {'type': 'reduced', 'spec': spec, 'seed': ck.rng.randrange(10 ** 6)}
            try:
                _, _, fails = check_case(case, tmp, reg_events)
            except Exception as e:
                fails = [('C11|reduced', 'harness/chi raised %s: %s' % (type(e).__name__, e))]
            ck.count('reduced-wrapper histories')
            ck.case(case)
            for key, what in fails:
                ck.violation(key, what, case)
        ck.cov['rule'] = ('PKPDModel on the library PK / PKPD models and random SBML files; histories of 1-12 calls out '
                          'of set_administration (dosable, undosable and unknown compartments, direct / indirect), '
                          'set_dosing_regimen (3 regimens), set_outputs (public or myokit names, unknown names), '
                          'set_parameter_names / set_output_names (fresh, stale, colliding and duplicate names), '
                          'enable_sensitivities (on / off / named subset / no match), copy (either object continues); '
                          'ReducedMechanisticModel histories of fix / release / rename / regimen / sensitivities / copy; '
                          'distinct = distinct (model, call sequence)')
        ck.log('exact route: %d histories' % len(exprs))
        bad = ck.exact('histories', HEADER, exprs, shard=40)
        wrng = random.Random(ck.seed + 29)

        def wider():
            for k in range(ck.n(120, 1000)):
                spec = model_specs(wrng, k)
                w = world(spec, tmp)
                if not w['dosable']:
                    continue
                yield {'spec': spec, 'ops': gen_history(random.Random(wrng.randrange(10 ** 9)), w, wrng.randint(2, 12)),
                       'keep_copy': [wrng.random() < 0.5 for _ in range(3)], 'kind': 'random'}
        if bad:
            ck.settle('correspondence C11: Model/Config.v and chi differ on %s (first: %s)' % (bad[:5], payload[bad[0]]),
                      [payload[b] for b in bad], oracle, wider(), key_of)
        elif ck.broken:
            ck.settle(ck.broken.pop(), [], oracle, wider(), key_of)
    finally:
        shutil.rmtree(tmp, ignore_errors=True)


def replay(ck, body):
    setup()
    r = oracle(body['replay'])
    print('oracle:', r)
    return r is None
