"""C13 — filter posterior = prior + population + noise + filter terms; exact gradient.

Tie (certified numeric): real chi.PopulationFilterLogPosterior objects (PolyToyModel mechanistic model, the five
filters, compositions of all population kinds incl. pooled / heterogeneous / non-centred / covariate-wrapped /
reduced, fixed or free noise scales, additive or log-scale noise, unsorted unique times, missing data).
 score:   chi's value minus the pints prior is certified against
          population terms (Model/PopModels.v) + noise_lp (Model/FilterPosterior.v) + filter cells (Model/Filters.v)
          of the simulated measurements  y = out_r(psi_s, t_j) (+|*) noise  written as Coq expressions of the vector;
 gradient: every entry is certified against the assembly of Model/FilterPosterior.v (deps_*, dsig_*, dm_*) and
          harness/popspec.py with the filter's own sensitivities as upstream values (C12 certifies those).
Direct checks: names / IDs / lengths; S1 score = plain score.  Search: finite differences, scipy assembly."""
import math
import random

import numpy as np

from harness import core, c05, c12, popspec
from harness.core import coqR, coqZ, coq_list
from harness.popspec import Sub, plus

THEOREMS = ['C13_blocks_partition', 'C13_epsilon_position', 'C13_epsilon_range', 'C13_noise_is_standard_normal',
            'C13_depsilon_additive', 'C13_depsilon_log', 'C13_dsigma_additive', 'C13_dsigma_log',
            'C13_doutput_additive', 'C13_doutput_log']
HEADER = '''From Coq Require Import Reals ZArith Lra List.
From Coquelicot Require Import Coquelicot.
From Interval Require Import Tactic.
From Chi Require Import Base.RSum Base.Score Base.Tie Base.Normal Base.Phi Model.ErrorModels Model.TimeGrid Model.LogLik
     Model.PopModels Model.Filters Model.FilterPosterior.
Import ListNotations.
Open Scope R_scope.
'''
UNFOLD = sorted(set(c05.UNFOLD + c12.UNFOLD + (
    'ptoy_out ptoy_w seq length y_add y_log noise_lp deps_add deps_log dsig_add dsig_log dm_add dm_log').split()))
DEN = 4


def gen_any_case(rng):
    fkind = rng.choice(['G', 'G', 'LN', 'GKDE', 'LNKDE', 'GMIX'])
    n_s = 4 if fkind == 'GMIX' else rng.choice([2, 3])
    n_out = rng.choice([1, 1, 2])
    n_par = rng.choice([2, 3])
    n_times = rng.choice([1, 2, 3, 3, 4])
    times = rng.sample(range(0, 9), n_times)                 # unsorted, unique
    subs, left = [], n_par
    while left > 0:
        nd = min(left, rng.choice([1, 1, 2]))
        kind = rng.choice(['G', 'G', 'LN', 'LN', 'TG', 'P', 'H'])
        d = {'kind': kind, 'nd': nd, 'centered': rng.random() < 0.55, 'n_het': n_s if kind == 'H' else None}
        if rng.random() < 0.2:
            d['cov'] = {'n_cov': 1, 'sel': None if rng.random() < 0.5 else [[0, 0]]}
        subs.append(d)
        left -= nd
    S = [Sub(**d) for d in subs]
    n_cov = sum(s.n_cov() for s in S)
    chis = [[core.dyadic(rng, -4, 8, 8) for _ in range(n_cov)] for _ in range(n_s)] if n_cov else None
    bottom, top = [], []
    for i in range(n_s):
        for s in S:
            if not s.special():
                for d in range(s.nd):
                    bottom.append(core.dyadic(rng, 4, 12, 8) + 0.125 * i if s.centered else core.dyadic(rng, -4, 4, 8))
    for s in S:
        if s.kind in ('G', 'TG'):
            top += [core.dyadic(rng, 6, 12, 8) for _ in range(s.nd)] + [core.dyadic(rng, 1, 2, 8) for _ in range(s.nd)]
        elif s.kind == 'LN':
            top += [core.dyadic(rng, -2, 2, 8) for _ in range(s.nd)] + [core.dyadic(rng, 1, 2, 8) for _ in range(s.nd)]
        elif s.kind == 'P':
            top += [core.dyadic(rng, 4, 12, 8) for _ in range(s.nd)]
        else:
            top += [core.dyadic(rng, 4, 12, 8) + 0.25 * k for k in range(s.n_het * s.nd)]
        top += [core.dyadic(rng, -1, 1, 16) for _ in range(len(s.selection()) * s.n_cov())]
    free_sigma = rng.random() < 0.5
    sigma = [core.dyadic(rng, 1, 4, 16) for _ in range(n_out)]
    eps = [core.dyadic(rng, -8, 8, 8) + 0.0625 * k for k in range(n_s * n_out * n_times)]
    n_meas = rng.choice([1, 2, 3])
    data = [[[core.dyadic(rng, 4, 80, 8) for _ in range(n_times)] for _ in range(n_out)] for _ in range(n_meas)]
    for r in range(n_out):
        for j in range(n_times):
            for i in range(1, n_meas):
                if rng.random() < 0.25:
                    data[i][r][j] = float('nan')
    cuts = sorted(rng.sample(range(1, n_times), rng.choice([1, min(2, n_times - 1)]))) if (
        n_times >= 2 and rng.random() < 0.4) else []
    return {'cuts': cuts, 'fkind': fkind, 'n_s': n_s, 'n_out': n_out, 'n_par': n_par, 'times': times, 'subs': subs, 'chis': chis,
            'top': top, 'bottom': bottom, 'free_sigma': free_sigma, 'sigma': sigma, 'eps': eps, 'data': data,
            'log_scale': rng.random() < 0.4, 'fixed': rng.random() < 0.15}


def vector(case):
    return case['top'] + (case['sigma'] if case['free_sigma'] else []) + case['bottom'] + case['eps']


def build(case, second=False):
    import chi, pints
    from harness.toy import PolyToyModel
    S = [Sub(**d) for d in case['subs']]
    pop = chi.ComposedPopulationModel([s.build() for s in S]) if len(S) > 1 or True else S[0].build()
    fixed = None
    if case['fixed']:
        pop.set_n_ids(case['n_s'])
        names = pop.get_parameter_names()
        pop = chi.ReducedPopulationModel(pop)
        pop.fix_parameters({names[0]: case['top'][0]})
        fixed = 0
    data = np.array(case['data'], dtype=float)
    if case.get('cuts'):
        # the same kind of filter composed from filters over consecutive blocks of (unsorted) measurement times
        bounds = [0] + list(case['cuts']) + [data.shape[2]]
        filt = chi.ComposedPopulationFilter([c12.make_filter(case['fkind'], data[:, :, a:b])
                                             for a, b in zip(bounds, bounds[1:])])
    else:
        filt = c12.make_filter(case['fkind'], data)
    n_top = len(case['top']) - (1 if fixed is not None else 0) + (case['n_out'] if case['free_sigma'] else 0)
    prior = pints.ComposedLogPrior(*[pints.GaussianLogPrior(0.75 + 0.125 * k, 4.0) for k in range(n_top)])
    cov = None if case['chis'] is None else np.array(case['chis'], dtype=float)
    make = lambda: chi.PopulationFilterLogPosterior(
        filt, [z / DEN for z in case['times']], PolyToyModel(case['n_par'], case['n_out']), pop, prior,
        sigma=None if case['free_sigma'] else list(case['sigma']), error_on_log_scale=case['log_scale'],
        n_samples=case['n_s'], covariates=cov)
    if not second:
        return make(), prior, S, fixed
    # the caller's filter and population model are reused for a second posterior: it must behave like the first,
    # and the caller's filter must be left as it was
    probe = np.array([[[1.0 + 0.5 * s + 0.25 * r + 0.125 * j for j in range(len(case['times']))]
                       for r in range(case['n_out'])] for s in range(case['n_s'])])
    before = float(filt.compute_log_likelihood(probe))
    first = make()
    post = make()
    after = float(filt.compute_log_likelihood(probe))
    if before != after and not (math.isnan(before) and math.isnan(after)):
        raise AssertionError('constructing a posterior changed the caller\'s filter: its log-likelihood of a fixed '
                             'array went from %r to %r' % (before, after))
    return post, prior, S, fixed


def run_chi(case):
    post, prior, S, fixed = build(case)
    v = np.array(vector(case), dtype=float)
    arg = v if fixed is None else np.delete(v, fixed)
    before = arg.copy()
    val = float(post(arg))
    s1, g = post.evaluateS1(arg)
    n_top = prior.n_parameters()
    ps, pg = prior.evaluateS1(arg[:n_top])
    post2 = build(case, second=True)[0]
    val2 = float(post2(arg))
    out = {'value': val, 'value_second': val2, 's1': float(s1), 'grad': [float(x) for x in g], 'prior': float(ps),
           'prior_grad': [float(x) for x in pg], 'n_parameters': int(post.n_parameters()),
           'names': post.get_parameter_names(include_ids=True), 'ids': post.get_id(),
           'mutated': not np.array_equal(arg, before), 'arg_len': len(arg), 'fixed': fixed}
    # the simulated measurements and the filter's own sensitivities (upstream values of the gradient assembly)
    y = simulated(case)
    filt = post.get_log_likelihood()
    fs, dsy = filt.compute_sensitivities(np.array(y, dtype=float))
    out['dsy'] = np.asarray(dsy, dtype=float)
    out['y'] = y
    return out


def order_of(case):
    return sorted(range(len(case['times'])), key=lambda k: case['times'][k])


def psi_of(case):
    S = [Sub(**d) for d in case['subs']]
    hv = case['bottom'] + case['top']
    return popspec.psi_exprs(S, case['n_s'], hv, case['chis'])


def degenerate(case):
    """a mixture component (or the whole Gaussian / log-normal summary) built from identical simulated measurements
    has zero variance: the filter's density is not defined there (chi's floats then go through 0/0 and inf)"""
    try:
        y = simulated(case)
    except (OverflowError, ValueError):
        return True
    for r in range(case['n_out']):
        for j in range(len(case['times'])):
            col = [y[s][r][j] for s in range(case['n_s'])]
            if case['fkind'] == 'GMIX':
                if any(col[k] == col[k + 1] for k in range(0, len(col) - 1, 2)):
                    return True
            elif case['fkind'] in ('G', 'LN') and len(set(col)) == 1:
                return True
    return False


def gen_case(rng):
    while True:
        case = gen_any_case(rng)
        if not degenerate(case):
            return case


def simulated(case):
    """y[s][r][j'] in floats (j' = index of the sorted times)"""
    _, psiv = psi_of(case)
    ts = sorted(case['times'])
    n_s, n_out, n_t = case['n_s'], case['n_out'], len(ts)
    y = [[[0.0] * n_t for _ in range(n_out)] for _ in range(n_s)]
    for s in range(n_s):
        for r in range(n_out):
            for j, z in enumerate(ts):
                t = z / DEN
                m = sum(psiv[s][k] * (1 + k * t + r) for k in range(case['n_par']))
                e = case['eps'][(s * n_out + r) * n_t + j]
                y[s][r][j] = m * math.exp(case['sigma'][r] * e) if case['log_scale'] else m + case['sigma'][r] * e
    return y


def y_exprs(case):
    psi, _ = psi_of(case)
    ts = sorted(case['times'])
    n_s, n_out, n_t = case['n_s'], case['n_out'], len(ts)
    Y, M = {}, {}
    for s in range(n_s):
        th = '[' + '; '.join(psi[s]) + ']'
        for r in range(n_out):
            for j, z in enumerate(ts):
                m = '(ptoy_out %s %d %d %s)' % (th, DEN, r, coqZ(z))
                e = coqR(case['eps'][(s * n_out + r) * n_t + j])
                M[(s, r, j)] = m
                Y[(s, r, j)] = '(%s %s %s %s)' % ('y_log' if case['log_scale'] else 'y_add', m, coqR(case['sigma'][r]), e)
    return Y, M


def score_prop(case, res):
    S = [Sub(**d) for d in case['subs']]
    hv = case['bottom'] + case['top']
    pop = popspec.pop_score_expr(S, case['n_s'], hv, case['chis'])
    Y, _ = y_exprs(case)
    order = order_of(case)
    n_s, n_out, n_t = case['n_s'], case['n_out'], len(order)
    cells = []
    for r in range(n_out):
        for j in range(n_t):
            xs = '[' + '; '.join(Y[(s, r, j)] for s in range(n_s)) + ']'
            ys = [row[r][order[j]] for row in case['data'] if not math.isnan(row[r][order[j]])]
            if case['fkind'] == 'GMIX':
                cells.append('(GMIX_cell 2 %d %s %s)' % (n_s // 2, xs, coq_list(ys, coqR)))
            else:
                cells.append('(%s_cell %s %s)' % (c12.CELL[case['fkind']], xs, coq_list(ys, coqR)))
    noise = '(noise_lp %d %s)' % (n_s * n_out, coq_list(case['eps'], coqR))
    expr = plus([pop, noise] + cells)
    tol = lambda x: coqR(core.frac(1e-8) * (1 + abs(core.frac(x))))
    out = []
    for key in ('value', 's1'):
        x = res[key] - res['prior']
        out.append('close %s %s %s' % (expr, coqR(x), tol(x)))
    return out


def grad_props(case, res):
    S = [Sub(**d) for d in case['subs']]
    n_s, n_out, n_t, n_par = case['n_s'], case['n_out'], len(case['times']), case['n_par']
    ts = sorted(case['times'])
    Y, M = y_exprs(case)
    dsy = res['dsy']
    G = lambda s, r, j: coqR(float(dsy[s, r, j]))
    sg = lambda r: coqR(case['sigma'][r])
    ep = lambda s, r, j: coqR(case['eps'][(s * n_out + r) * n_t + j])
    log = case['log_scale']
    # upstream sensitivities w.r.t. the individual parameters psi_{s,d}
    U = []
    for s in range(n_s):
        row = []
        for d in range(n_par):
            terms = []
            for r in range(n_out):
                for j in range(n_t):
                    dm = '(dm_log %s %s %s)' % (sg(r), ep(s, r, j), G(s, r, j)) if log else '(dm_add %s)' % G(s, r, j)
                    terms.append('(%s * ptoy_w %d %d %d %s)' % (dm, DEN, d, r, coqZ(ts[j])))
            row.append(plus(terms))
        U.append(row)
    hv = case['bottom'] + case['top']
    hier = popspec.hier_gradient_exprs(S, n_s, hv, case['chis'], U)
    n_bottom = len(case['bottom'])
    bottom_e, top_e = hier[:n_bottom], hier[n_bottom:]
    sig_e = []
    if case['free_sigma']:
        for r in range(n_out):
            terms = []
            for s in range(n_s):
                for j in range(n_t):
                    terms.append('(dsig_log %s %s %s %s)' % (M[(s, r, j)], sg(r), ep(s, r, j), G(s, r, j)) if log
                                 else '(dsig_add %s %s)' % (ep(s, r, j), G(s, r, j)))
            sig_e.append(plus(terms))
    eps_e = []
    for s in range(n_s):
        for r in range(n_out):
            for j in range(n_t):
                eps_e.append('(deps_log %s %s %s %s)' % (M[(s, r, j)], sg(r), ep(s, r, j), G(s, r, j)) if log
                             else '(deps_add %s %s %s)' % (sg(r), ep(s, r, j), G(s, r, j)))
    exprs = top_e + sig_e + bottom_e + eps_e
    if res['fixed'] is not None:
        del exprs[res['fixed']]
    grad = list(res['grad'])
    for k, p in enumerate(res['prior_grad']):
        grad[k] -= p
    if len(exprs) != len(grad):
        return 'gradient of length %d, the published layout has %d entries' % (len(grad), len(exprs))
    # split into goals of moderate size
    out = []
    for a in range(0, len(exprs), 8):
        out.append('lclose [%s] %s %s' % ('; '.join(exprs[a:a + 8]), coq_list(grad[a:a + 8], coqR), coqR(core.frac(1e-8))))
    return out


def direct(case, res):
    if res['mutated']:
        return 'the parameter vector passed in was modified'
    n = res['n_parameters']
    if res['arg_len'] != n or len(res['grad']) != n or len(res['names']) != n or len(res['ids']) != n:
        return 'vector length %d, n_parameters %d, gradient %d, names %d, ids %d' % (
            res['arg_len'], n, len(res['grad']), len(res['names']), len(res['ids']))
    a, b = res['value'], res['s1']
    if math.isfinite(a) != math.isfinite(b) or (math.isfinite(a) and core.relerr(a, b) > 1e-12):
        return 'plain evaluation gives %r, evaluation with sensitivities gives the score %r' % (a, b)
    if res['value_second'] != a and not (math.isnan(a) and math.isnan(res['value_second'])):
        return 'a second posterior built from the same filter and models gives %r, the first gives %r' % (
            res['value_second'], a)
    n_top = len(res['prior_grad'])
    for k, i in enumerate(res['ids']):
        if (k < n_top) != (i is None):
            return 'position %d has ID %r; the first %d positions are population-level' % (k, i, n_top)
    n_eps = case['n_s'] * case['n_out'] * len(case['times'])
    for k in range(n - n_eps, n):
        s = (k - (n - n_eps)) // (case['n_out'] * len(case['times']))
        if res['ids'][k] != 'Sim. %d' % (s + 1) or 'Epsilon' not in res['names'][k]:
            return 'noise position %d is published as %r / %r, it belongs to simulated individual %d' % (
                k, res['ids'][k], res['names'][k], s + 1)
    # the whole gradient against finite differences of the plain evaluation (the certified route takes the filter's
    # own sensitivities as given — those are C12's subject; this catches them here as well)
    if math.isfinite(a):
        from harness import c03
        post, prior, S, fixed = build(case)
        v = np.array(vector(case), dtype=float)
        arg = v if fixed is None else np.delete(v, fixed)
        d = stable_fd_check(post, arg, res['grad'])
        if d:
            return d

        def evaluate(x):
            s1, g = post.evaluateS1(x)
            return float(post(x)), float(s1), np.asarray(g, dtype=float)
        return core.typed_problem(evaluate, arg, 'the filter log-posterior (value, score, sensitivities)')
    return None


def stable_fd_check(f, x0, grad):
    """finite-difference comparison that only speaks where two step sizes agree with each other (filters with nearly
    coincident simulated individuals are too steep for any fixed step)"""
    def richardson(k, h):
        def at(e):
            x = np.array(x0, dtype=float)
            x[k] += e
            return float(f(x))
        vals = [at(h), at(-h), at(h / 2), at(-h / 2)]
        if not all(math.isfinite(v) for v in vals):
            return None
        return (4 * (vals[2] - vals[3]) / h - (vals[0] - vals[1]) / (2 * h)) / 3
    for k in range(len(x0)):
        g1, g2 = richardson(k, 1e-4), richardson(k, 2.5e-5)
        if g1 is None or g2 is None or abs(g1 - g2) > 1e-6 * (1 + abs(g2)):
            continue
        if abs(g2 - grad[k]) > 2e-5 * (1 + abs(g2)):
            return ('filter log-posterior: sensitivity %d is %r, finite differences of the plain evaluation give %r '
                    '(two step sizes agree)' % (k, grad[k], g2))
    return None


def oracle(case):
    try:
        res = run_chi(case)
    except Exception as e:
        return 'chi raised %s: %s' % (type(e).__name__, e)
    d = direct(case, res)
    if d:
        return d
    # hand assembly of the score
    S = [Sub(**dd) for dd in case['subs']]
    from harness import c02
    sub_case = {'subs': case['subs'], 'n_ids': case['n_s'], 'v': case['bottom'] + case['top'], 'chis': case['chis']}
    y = np.array(simulated(case), dtype=float)
    order = order_of(case)
    data = np.array(case['data'], dtype=float)[:, :, order]
    fcase = {'kind': case['fkind'], 'obs': data.tolist(), 'sim': y.tolist(), 'order': list(range(len(order))),
             'cuts': [], 'composed': False}
    try:
        filt_ref = c12.ref_score(fcase)
    except ValueError:           # the reference density underflowed
        filt_ref = None
    from scipy import stats
    X, theta = popspec.split_vector(S, case['n_s'], sub_case['v'])
    pop = 0.0
    for s, (d0, p0, c0) in zip(S, popspec.slices(S)):
        if s.special():
            continue
        th = theta[p0:p0 + s.n_par()]
        for i in range(case['n_s']):
            ch = case['chis'][i][c0:c0 + s.n_cov()] if case['chis'] else None
            for d in range(s.nd):
                x = X[i][d0 + d]
                if not s.centered:
                    pop += stats.norm.logpdf(x)
                    continue
                mu, sgm = s.par_value(th, 0, d, i, ch), s.par_value(th, 1, d, i, ch)
                if s.kind == 'G':
                    pop += stats.norm.logpdf(x, mu, sgm)
                elif s.kind == 'LN':
                    pop += stats.lognorm.logpdf(x, s=sgm, scale=math.exp(mu))
                else:
                    pop += stats.truncnorm.logpdf(x, a=-mu / sgm, b=np.inf, loc=mu, scale=sgm)
    noise = -case['n_s'] * case['n_out'] * math.log(2 * math.pi) / 2 - sum(e * e for e in case['eps']) / 2
    ref = res['prior'] + pop + noise + (filt_ref or 0.0)
    if filt_ref is not None and core.relerr(res['value'], ref) > 1e-7:
        return 'log-posterior %r; prior %r + population %r + noise %r + filter %r = %r' % (
            res['value'], res['prior'], pop, noise, filt_ref, ref)
    post, prior, S, fixed = build(case)
    v = np.array(vector(case), dtype=float)
    arg = v if fixed is None else np.delete(v, fixed)
    return stable_fd_check(post, arg, res['grad'])


def key_of(case, what):
    return 'C13|%s|%s' % (case['fkind'], '+'.join(Sub(**d).describe() for d in case['subs']))


def run(ck):
    cases, payload = [], {}
    for i in range(ck.n(40, 500)):
        for _attempt in range(20):
            case = gen_case(ck.rng)
            # kernel-density filters with two or three tightly clustered simulated individuals put the data hundreds
            # of bandwidths away; such cases (|log-posterior| in the thousands) only test floating-point underflow of
            # the reference and are regenerated
            try:
                if abs(float(build(case)[0](np.delete(np.array(vector(case)), build(case)[3])
                                            if build(case)[3] is not None else np.array(vector(case))))) < 600:
                    break
            except Exception:
                break
        label = 'q%d' % i
        S = [Sub(**d) for d in case['subs']]
        try:
            res = run_chi(case)
            d = direct(case, res)
        except Exception as e:
            ck.violation(key_of(case, ''), 'chi raised %s: %s' % (type(e).__name__, e), case)
            continue
        ck.count('filter=%s%s' % (case['fkind'], ' composed' if case.get('cuts') else ''))
        ck.count('sigma %s' % ('free' if case['free_sigma'] else 'fixed'))
        ck.count('noise %s' % ('log-scale' if case['log_scale'] else 'additive'))
        for s in S:
            ck.count('kind=%s%s%s' % (s.kind, '' if s.centered else 'nc', '+cov' if s.cov else ''))
        if d:
            ck.violation(key_of(case, ''), d, case)
            continue
        if not math.isfinite(res['value']):
            ck.settle('case %s: non-finite posterior' % label, [case], oracle, key_of=key_of)
            continue
        ck.case({'filter': case['fkind'], 'comp': [s.describe() for s in S], 'times': case['times'],
                 'n_s': case['n_s'], 'free_sigma': case['free_sigma'], 'log_scale': case['log_scale']})
        g = grad_props(case, res)
        if isinstance(g, str):
            ck.violation(key_of(case, ''), g, case)
            continue
        cases.append((label, score_prop(case, res) + g))
        payload[label] = case
    ck.cov['rule'] = ('five filters; 2-4 simulated individuals, 1-2 outputs, 2-3 mechanistic parameters, 1-3 unsorted '
                      'unique times, 1-3 measured individuals with missing values; compositions of all population kinds '
                      '(20% covariate-wrapped, 15% with a fixed population parameter); fixed or free sigma; additive or '
                      'log-scale noise; score (twice) and every gradient entry certified; distinct = distinct case')
    ck.log('certifying %d filter posteriors' % len(cases))
    bad = ck.numeric('posterior', HEADER, UNFOLD, cases, shard=2, integral=True)
    wrng = random.Random(ck.seed + 31)
    wider = (gen_case(wrng) for _ in range(ck.n(100, 1000)))
    if bad:
        ck.settle('correspondence C13: model and chi differ on %s (first: %s)' % (bad[:5], payload[bad[0]]),
                  [payload[b] for b in bad], oracle, wider, key_of)
    elif ck.broken:
        ck.settle(ck.broken.pop(), [], oracle, wider, key_of)


def replay(ck, body):
    r = oracle(body['replay'])
    print('oracle:', r)
    return r is None
