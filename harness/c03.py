"""C03 — analytic gradients equal the true derivatives of the evaluated log-pdf.

Tie (certified numeric), two stages:
 A. chi.LogLikelihood.evaluateS1 / chi.LogPosterior.evaluateS1 on multi-output toy models with any mix of the four
    error models and overlapping / tied grids vs Model/LogLik.v `ll_S1_spec` (score and every gradient entry).
 B. chi.HierarchicalLogLikelihood / HierarchicalLogPosterior.evaluateS1 over compositions of all population kinds
    vs the specification gradient of harness/popspec.py, where the upstream sensitivities dL_i/dpsi_i are chi's own
    individual gradients (stage A certifies those).
Direct checks: the S1 score equals the plain score bit for bit or both are -inf; evaluateS1 succeeds wherever the
plain evaluation is finite; posterior gradient = likelihood gradient + prior gradient.
Search: Richardson finite differences of the plain evaluation."""
import math
import random

import numpy as np

from harness import core, c01, c02, c04, c05, popspec
from harness.core import coqR, coqZ, coq_list
from harness.popspec import Sub

THEOREMS = ['C03_ll_mechanistic', 'C03_ll_error_G', 'C03_ll_error_LN', 'C03_ll_error_MG', 'C03_ll_error_CMG_base',
            'C03_ll_error_CMG_rel', 'C03_ll_score_agrees', 'C03_bottom_centered_G', 'C03_bottom_centered_LN',
            'C03_bottom_noncentered_G', 'C03_bottom_noncentered_LN', 'C03_top_noncentered_G_mu',
            'C03_top_noncentered_G_sigma', 'C03_top_noncentered_LN_mu', 'C03_top_noncentered_LN_sigma',
            'C03_covariate_coefficient', 'C03_posterior']
UNFOLD_A = sorted(set(c01.UNFOLD_NUM + 'll_S1_spec em_S1 vadd fold_right toy_out app length'.split()))
DEN = 4


# ------------------------------------------------------------------------------------------------
# stage A: individual likelihoods and posteriors
# ------------------------------------------------------------------------------------------------

def gen_ll(rng):
    case = c01.gen_case(rng, numeric=True)
    while any(v <= 0 for v in case['theta'][3:]):
        case = c01.gen_case(rng, numeric=True)
    case['posterior'] = rng.random() < 0.4
    case['fix'] = rng.random() < 0.25
    # fixed, evaluated with sensitivities, set free again: the object is the full likelihood again
    case['refree'] = (not case['fix']) and rng.random() < 0.25
    case['type'] = 'll'
    return case


def build_ll(case):
    import chi, pints
    ll = c01.build(case, c01.make_real(case))
    theta = list(case['theta'])
    keep = list(range(len(theta)))
    if case.get('fix'):
        name = ll.get_parameter_names()[1]
        ll.fix_parameters({name: theta[1]})
        keep.remove(1)
    if case.get('refree'):
        name = ll.get_parameter_names()[1]
        ll.fix_parameters({name: theta[1]})
        ll.evaluateS1([theta[k] for k in range(len(theta)) if k != 1])
        ll.fix_parameters({name: None})
    obj, prior = ll, None
    if case.get('posterior'):
        prior = pints.ComposedLogPrior(*[pints.GaussianLogPrior(1.0 + 0.25 * k, 2.0) for k in range(len(keep))])
        obj = chi.LogPosterior(ll, prior)
    return obj, ll, prior, keep


def run_ll(case):
    obj, ll, prior, keep = build_ll(case)
    theta = np.array([case['theta'][k] for k in keep], dtype=float)
    before = theta.copy()
    if case.get('refree') or len(case['grids'][0]) % 2 == 0:
        # (a plain evaluation switches the sensitivities off and on again: evaluate with sensitivities first)
        s, g = obj.evaluateS1(theta)
        v = float(obj(theta))
    else:
        v = float(obj(theta))
        s, g = obj.evaluateS1(theta)
    out = {'value': v, 's1': float(s), 'grad': [float(x) for x in g], 'keep': keep,
           'mutated': not np.array_equal(theta, before), 'n_parameters': int(obj.n_parameters())}
    if prior is not None:
        ps, pg = prior.evaluateS1(theta)
        ls, lg = ll.evaluateS1(theta)
        out['prior'] = (float(ps), [float(x) for x in pg])
        out['lik'] = (float(ls), [float(x) for x in lg])
    return out


def ll_props(case, res):
    R = lambda xs: coq_list(xs, coqR)
    ts = '[' + '; '.join(coq_list(g, coqZ) for g in case['grids']) + ']%Z'
    obs = '[' + '; '.join(R(o) for o in case['obs']) + ']'
    ks = coq_list([c01.KCOQ[k] for k in case['kinds']])
    th = case['theta']
    sens = '(fun k o t => match k with O => 1 + INR o | S O => IZR t / %d | _ => (IZR t / %d) * (IZR t / %d) * INR o end)' % (
        DEN, DEN, DEN)
    expr = '(ll_S1_spec (toy_out %s %d) %s 3 %s %s %s %s)' % (R(th[:3]), DEN, sens, ks, ts, obs, R(th))
    lik = res.get('lik', (res['s1'], res['grad']))
    if lik[0] == -math.inf:
        return ['is_neginf (fst %s)' % expr]
    tol = lambda x: coqR(core.frac(1e-9) * (1 + abs(core.frac(x))))
    full = list(lik[1])
    out = ['sclose (fst %s) %s %s' % (expr, coqR(lik[0]), tol(lik[0]))]
    if case.get('fix'):
        # the fixed coordinate's entry is dropped by chi: compare the remaining ones in order
        idx = res['keep']
        sel = '[' + '; '.join('nth %d (snd %s) 0' % (k, expr) for k in idx) + ']'
        out.append('lclose %s %s %s' % (sel, R(full), coqR(core.frac(1e-9))))
    else:
        out.append('lclose (snd %s) %s %s' % (expr, R(full), coqR(core.frac(1e-9))))
    return out


def ll_direct(case, res):
    if res['mutated']:
        return 'the parameter vector passed in was modified'
    if len(res['grad']) != res['n_parameters']:
        return 'gradient of length %d for %d parameters' % (len(res['grad']), res['n_parameters'])
    a, b = res['value'], res['s1']
    if math.isfinite(a) != math.isfinite(b) or (math.isfinite(a) and core.relerr(a, b) > 1e-12):
        return 'plain evaluation gives %r, evaluation with sensitivities gives the score %r' % (a, b)
    if 'prior' in res and math.isfinite(a):
        want = [x + y for x, y in zip(res['lik'][1], res['prior'][1])]
        if any(abs(x - y) > 1e-12 * (1 + abs(x)) for x, y in zip(want, res['grad'])):
            return 'posterior gradient %r is not likelihood gradient + prior gradient %r' % (res['grad'], want)
    return None


def fd_check(f, x0, grad, what):
    h = 1e-4
    for k in range(len(x0)):
        def at(e):
            x = np.array(x0, dtype=float)
            x[k] += e
            return float(f(x))
        vals = [at(h), at(-h), at(h / 2), at(-h / 2)]
        if not all(math.isfinite(v) for v in vals):
            continue
        g = (4 * (vals[2] - vals[3]) / h - (vals[0] - vals[1]) / (2 * h)) / 3
        if abs(g - grad[k]) > 2e-5 * (1 + abs(g)):
            return '%s: sensitivity %d is %r, finite differences of the plain evaluation give %r' % (what, k, grad[k], g)
    return None


def stable_fd_check(f, x0, grad, what):
    """finite differences that only speak where two step sizes agree with each other"""
    def richardson(k, h):
        def at(e):
            x = np.array(x0, dtype=float)
            x[k] += e
            return float(f(x))
        vals = [at(h), at(-h), at(h / 2), at(-h / 2)]
        if not all(math.isfinite(v) for v in vals):
            return None
        return (4 * (vals[2] - vals[3]) / h - (vals[0] - vals[1]) / (2 * h)) / 3
    for k in range(len(x0)):
        g1, g2 = richardson(k, 1e-4), richardson(k, 2.5e-5)
        if g1 is None or g2 is None or abs(g1 - g2) > 1e-6 * (1 + abs(g2)):
            continue
        if abs(g2 - grad[k]) > 2e-5 * (1 + abs(g2)):
            return '%s: sensitivity %d is %r, finite differences of the plain evaluation give %r (two step sizes agree)' % (
                what, k, grad[k], g2)
    return None


def ll_oracle(case):
    try:
        res = run_ll(case)
    except Exception as e:
        obj, ll, prior, keep = build_ll(case)
        v = float(obj(np.array([case['theta'][k] for k in keep])))
        if math.isfinite(v):
            return 'plain evaluation is finite (%r) but evaluation with sensitivities raises %s: %s' % (
                v, type(e).__name__, e)
        return None
    d = ll_direct(case, res)
    if d or not math.isfinite(res['value']):
        return d
    obj, ll, prior, keep = build_ll(case)
    return fd_check(obj, [case['theta'][k] for k in keep], res['grad'], 'individual log-pdf')


# ------------------------------------------------------------------------------------------------
# stage B: hierarchical
# ------------------------------------------------------------------------------------------------

def gen_h(rng):
    case = c02.gen_case(rng)
    case['posterior'] = rng.random() < 0.4
    case['type'] = 'h'
    return case


def build_h(case):
    import chi, pints
    h, lls, S, fixed = c02.build(case)
    obj, prior = h, None
    if case.get('posterior'):
        n_top = h.n_parameters(exclude_bottom_level=True)
        prior = pints.ComposedLogPrior(*[pints.GaussianLogPrior(0.5 + 0.125 * k, 3.0) for k in range(n_top)])
        obj = chi.HierarchicalLogPosterior(h, prior)
    return obj, h, lls, S, fixed, prior


def run_h(case):
    obj, h, lls, S, fixed, prior = build_h(case)
    v = np.array(case['v'], dtype=float)
    arg = v if fixed is None else np.delete(v, fixed)
    before = arg.copy()
    val = float(obj(arg))
    s1, g = obj.evaluateS1(arg)
    out = {'value': val, 's1': float(s1), 'grad': [float(x) for x in g], 'fixed': fixed,
           'mutated': not np.array_equal(arg, before), 'n_parameters': int(obj.n_parameters())}
    # upstream sensitivities: the individuals' own gradients at their own parameters
    _, psiv = popspec.psi_exprs(S, case['n_ids'], case['v'], case['chis'])
    U = []
    for i, ll in enumerate(lls):
        s, gi = ll.evaluateS1(np.array(psiv[i], dtype=float))
        U.append([float(x) for x in gi])
    out['U'] = U
    if prior is not None:
        n_top = len(arg) - (len(v) - len(popspec.split_vector(S, case['n_ids'], case['v'])[1]))
        ps, pg = prior.evaluateS1(arg[len(arg) - prior.n_parameters():])
        out['prior_grad'] = [float(x) for x in pg]
    return out


def h_props(case, res):
    S = [Sub(**d) for d in case['subs']]
    U = [[coqR(u) for u in row] for row in res['U']]
    exprs = popspec.hier_gradient_exprs(S, case['n_ids'], case['v'], case['chis'], U)
    grad = list(res['grad'])
    if 'prior_grad' in res:
        k = len(res['prior_grad'])
        grad = grad[:len(grad) - k] + [g - p for g, p in zip(grad[len(grad) - k:], res['prior_grad'])]
    if res['fixed'] is not None:
        del exprs[res['fixed']]
    if len(exprs) != len(grad):
        return 'gradient of length %d, the published layout has %d entries' % (len(grad), len(exprs))
    return [c05.vec_goal(exprs, grad)]


def h_direct(case, res):
    if res['mutated']:
        return 'the parameter vector passed in was modified'
    if len(res['grad']) != res['n_parameters']:
        return 'gradient of length %d for %d parameters' % (len(res['grad']), res['n_parameters'])
    a, b = res['value'], res['s1']
    if math.isfinite(a) != math.isfinite(b) or (math.isfinite(a) and core.relerr(a, b) > 1e-12):
        return 'plain evaluation gives %r, evaluation with sensitivities gives the score %r' % (a, b)
    return None


def h_oracle(case):
    try:
        res = run_h(case)
    except Exception as e:
        obj, h, lls, S, fixed, prior = build_h(case)
        v = np.array(case['v'], dtype=float)
        arg = v if fixed is None else np.delete(v, fixed)
        val = float(obj(arg))
        if math.isfinite(val):
            return 'plain evaluation is finite (%r) but evaluation with sensitivities raises %s: %s' % (
                val, type(e).__name__, e)
        return None
    d = h_direct(case, res)
    if d or not math.isfinite(res['value']):
        return d
    obj, h, lls, S, fixed, prior = build_h(case)
    v = np.array(case['v'], dtype=float)
    arg = v if fixed is None else np.delete(v, fixed)
    return fd_check(obj, arg, res['grad'], 'hierarchical log-pdf')


def oracle(case):
    return ll_oracle(case) if case['type'] == 'll' else h_oracle(case)


def key_of(case, what):
    if case['type'] == 'll':
        return 'C03|individual|%s' % '+'.join(case['kinds'])
    return 'C03|hierarchical|%s' % '+'.join(Sub(**d).describe() for d in case['subs'])


def run(ck):
    cases_a, cases_b, payload = [], [], {}
    for i in range(ck.n(36, 400)):
        case = gen_ll(ck.rng)
        label = 'a%d' % i
        try:
            res = run_ll(case)
        except Exception as e:
            ck.settle('stage A case %s raised %s: %s' % (label, type(e).__name__, e), [case], oracle, key_of=key_of)
            continue
        ck.count('A kinds=%d outputs' % case['n_out'])
        ck.count('A posterior' if case['posterior'] else 'A likelihood')
        ck.count('A fixed parameter' if case['fix'] else 'A nothing fixed')
        d = ll_direct(case, res)
        if d:
            ck.violation(key_of(case, ''), d, case)
            continue
        ck.case({'type': 'll', 'kinds': case['kinds'], 'grids': case['grids'], 'theta': case['theta']})
        cases_a.append((label, ll_props(case, res)))
        payload[label] = case
    for i in range(ck.n(50, 600)):
        case = gen_h(ck.rng)
        label = 'b%d' % i
        S = [Sub(**d) for d in case['subs']]
        try:
            res = run_h(case)
        except Exception as e:
            ck.settle('stage B case %s raised %s: %s' % (label, type(e).__name__, e), [case], oracle, key_of=key_of)
            continue
        for s in S:
            ck.count('B kind=%s%s%s' % (s.kind, '' if s.centered else 'nc', '+cov' if s.cov else ''))
        ck.count('B posterior' if case['posterior'] else 'B likelihood')
        d = h_direct(case, res)
        if d is None and math.isfinite(res['value']):
            # the sensitivities must be the derivatives of the score chi itself evaluates (the certified route compares
            # them with the specification's gradient; a score that deviates from the specification is C02's business,
            # but its gradient must still match it)
            obj, h, lls, S2, fixed, prior = build_h(case)
            v = np.array(case['v'], dtype=float)
            d = stable_fd_check(obj, v if fixed is None else np.delete(v, fixed), res['grad'], 'hierarchical log-pdf')
        if d:
            ck.violation(key_of(case, ''), d, case)
            continue
        if not math.isfinite(res['value']):
            continue
        pr = h_props(case, res)
        if isinstance(pr, str):
            ck.violation(key_of(case, ''), pr, case)
            continue
        ck.case({'type': 'h', 'comp': [s.describe() for s in S], 'n_ids': case['n_ids'], 'em': case['em']})
        cases_b.append((label, pr))
        payload[label] = case
    ck.cov['rule'] = ('stage A: 1-3 outputs, four error models at random, grids with ties / overlaps, 40% wrapped in a '
                      'LogPosterior with Gaussian priors, 25% with a fixed parameter; stage B: compositions as in C02 '
                      '(all kinds, covariates, fixed population parameter), 40% wrapped in a HierarchicalLogPosterior; '
                      'every gradient entry certified; distinct = distinct case')
    ck.log('certifying %d individual and %d hierarchical gradients' % (len(cases_a), len(cases_b)))
    bad = ck.numeric('individual', c01.HEADER_NUM, UNFOLD_A, cases_a, shard=4)
    badb = ck.numeric('hierarchical', c05.HEADER, c05.UNFOLD, cases_b, shard=4, integral=True)
    wrng = random.Random(ck.seed + 29)
    wider = ((gen_ll(wrng) if j % 2 else gen_h(wrng)) for j in range(ck.n(120, 1200)))
    if bad or badb:
        fails = [payload[b] for b in bad + badb]
        ck.settle('correspondence C03: model and chi differ on %s (first: %s)' % ((bad + badb)[:5], fails[0]),
                  fails, oracle, wider, key_of)
    elif ck.broken:
        ck.settle(ck.broken.pop(), [], oracle, wider, key_of)


def replay(ck, body):
    r = oracle(body['replay'])
    print('oracle:', r)
    return r is None
