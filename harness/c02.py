"""C02 — hierarchical log-likelihood = individual likelihoods + population density.

Tie (exact, vm_compute): the bottom block of tagged flat vectors as reshaped by
ComposedPopulationModel.compute_individual_parameters(return_eta=True) vs Model/Layout.v `shape`.
Tie (certified numeric): the score of real chi.HierarchicalLogLikelihood objects (PolyToyModel likelihoods with the
four error models, compositions of all population kinds incl. non-centred, covariate-wrapped, pooled,
heterogeneous and reduced models) vs  sum_i ll_spec(psi_i) + population terms  (harness/popspec.py + Model/*.v).
Direct checks: the name / ID published for position k describe the quantity position k controls (perturbing
position k changes exactly the individual parameters it is named after)."""
import math
import random

import numpy as np

from harness import core, c04, c05, c17, popspec
from harness.core import coqR, coqZ, coq_list
from harness.popspec import Sub

THEOREMS = ['C02_bottom_block_is_gather', 'C02_names_ids_lengths', 'C02_ids_mark_bottom', 'C02_early_return',
            'C02_score_is_sum', 'C02_individual_order_free', 'C02_one_neginf_individual', 'C02_finite_iff_all_finite']
HEADER_EXACT = c17.HEADER
HEADER_NUM = '''From Coq Require Import Reals ZArith Lra List.
From Coquelicot Require Import Coquelicot.
From Interval Require Import Tactic.
From Chi Require Import Base.RSum Base.Score Base.Tie Base.Normal Base.Phi Model.ErrorModels Model.TimeGrid Model.LogLik
     Model.PopModels.
Import ListNotations.
Open Scope R_scope.
'''
UNFOLD_NUM = sorted(set(c04.UNFOLD + c05.UNFOLD + (
    'll_spec calls_spec paired_spec slices firstn skipn nth seq concat apply_em em_ll n_err ssum splus ptoy_out '
    'ptoy_w length').split()))
DEN = 4
KCOQ = {'G': 'KG', 'MG': 'KMG', 'CMG': 'KCMG', 'LN': 'KLN'}


def gen_case(rng, small=True):
    n_ids = rng.choice([1, 2, 2, 3])
    em = rng.choice(['G', 'G', 'LN', 'MG', 'CMG'])
    n_err = 2 if em == 'CMG' else 1
    n_dim = rng.choice([3, 4]) if small else rng.choice([3, 4, 5])
    n_mech = n_dim - n_err
    # split n_dim into sub-models
    subs, left = [], n_dim
    while left > 0:
        nd = min(left, rng.choice([1, 1, 2]))
        kind = rng.choice(['G', 'G', 'LN', 'LN', 'TG', 'P', 'H'])
        d = {'kind': kind, 'nd': nd, 'centered': rng.random() < 0.55, 'n_het': n_ids if kind == 'H' else None}
        r = rng.random()
        if r < 0.25:
            d['cov'] = {'n_cov': rng.choice([1, 2]), 'sel': None if rng.random() < 0.5 else [[0, nd - 1]]}
            if rng.random() < 0.5:
                # any selection of the (row, dimension) grid, listed in any order, possibly with repeats
                rows = {'P': 1, 'H': n_ids}.get(kind, 2)
                grid = [[p, dd] for p in range(rows) for dd in range(nd)]
                sel = rng.sample(grid, rng.randint(1, len(grid)))
                if rng.random() < 0.3:
                    sel.append(rng.choice(sel))
                d['cov']['sel'] = sel
        subs.append(d)
        left -= nd
    S = [Sub(**d) for d in subs]
    n_cov = sum(s.n_cov() for s in S)
    chis = [[core.dyadic(rng, -4, 8, 8) for _ in range(n_cov)] for _ in range(n_ids)] if n_cov else None
    # flat vector: bottom entries then population parameters; keep every individual parameter positive and small
    bottom, top = [], []
    for i in range(n_ids):
        for s in S:
            if not s.special():
                for d in range(s.nd):
                    if s.centered:
                        bottom.append(core.dyadic(rng, 2, 12, 8))
                    else:
                        bottom.append(core.dyadic(rng, -4, 4, 8))
    for s in S:
        if s.kind in ('G', 'TG'):
            top += [core.dyadic(rng, 6, 12, 8) for _ in range(s.nd)] + [core.dyadic(rng, 1, 2, 8) for _ in range(s.nd)]
        elif s.kind == 'LN':
            top += [core.dyadic(rng, -2, 2, 8) for _ in range(s.nd)] + [core.dyadic(rng, 1, 2, 8) for _ in range(s.nd)]
        elif s.kind == 'P':
            top += [core.dyadic(rng, 4, 12, 8) for _ in range(s.nd)]
        else:
            top += [core.dyadic(rng, 4, 12, 8) for _ in range(s.n_het * s.nd)]
        top += [core.dyadic(rng, -1, 1, 16) for _ in range(len(s.selection()) * s.n_cov())]
    data = []
    for i in range(n_ids):
        n_obs = rng.choice([1, 2, 3])
        ts = sorted(rng.sample(range(0, 9), n_obs))
        data.append({'ts': ts, 'obs': [core.dyadic(rng, 4, 60, 8) for _ in ts]})
    fixed = None
    if rng.random() < 0.2:
        fixed = 'first-top'
    return {'subs': subs, 'n_ids': n_ids, 'em': em, 'n_mech': n_mech, 'v': bottom + top, 'chis': chis, 'data': data,
            'fixed': fixed, 'nest': popspec.gen_nest(rng, len(subs))}


def build(case):
    import chi
    from harness.toy import PolyToyModel
    S = [Sub(**d) for d in case['subs']]
    pop = popspec.compose(S, case.get('nest'))
    lls = []
    for i, dat in enumerate(case['data']):
        ll = chi.LogLikelihood(PolyToyModel(case['n_mech']), c04.chi_model(case['em']), dat['obs'],
                               [z / DEN for z in dat['ts']])
        ll.set_id('ind %d' % i)
        lls.append(ll)
    v = list(case['v'])
    fixed = None
    if case.get('fixed'):
        pop.set_n_ids(case['n_ids'])
        names = pop.get_parameter_names()
        n_bottom = len(v) - len(names)
        pop = chi.ReducedPopulationModel(pop)
        pop.fix_parameters({names[0]: v[n_bottom]})
        fixed = n_bottom
    cov = None if case['chis'] is None else np.array(case['chis'], dtype=float)
    h = chi.HierarchicalLogLikelihood(lls, pop, cov)
    return h, lls, S, fixed


def run_chi(case):
    h, lls, S, fixed = build(case)
    v = np.array(case['v'], dtype=float)
    arg = v if fixed is None else np.delete(v, fixed)
    before = arg.copy()
    out = {'ll': float(h(arg)), 'n_parameters': int(h.n_parameters())}
    s1, g = h.evaluateS1(arg)
    out['s1'] = float(s1)
    out['grad'] = [float(x) for x in g]
    out['ll_again'] = float(h(arg))
    if not np.array_equal(arg, before):
        out['mutated'] = True
    out['names'] = h.get_parameter_names(include_ids=True)
    out['ids'] = h.get_id()
    out['arg_len'] = len(arg)
    return out, h, lls, S, fixed


def score_prop(case, res):
    S = [Sub(**d) for d in case['subs']]
    v, chis, n = case['v'], case['chis'], case['n_ids']
    psi, psiv = popspec.psi_exprs(S, n, v, chis)
    pop = popspec.pop_score_expr(S, n, v, chis)
    lls = []
    for i, dat in enumerate(case['data']):
        th = '[' + '; '.join(psi[i]) + ']'
        mech = '[' + '; '.join(psi[i][:case['n_mech']]) + ']'
        lls.append('(ll_spec (ptoy_out %s %d) %d [%s] [%s]%%Z [%s] %s)' % (
            mech, DEN, case['n_mech'], KCOQ[case['em']], coq_list(dat['ts'], coqZ), coq_list(dat['obs'], coqR), th))
    expr = 'splus (Fin %s) (ssum [%s])' % (pop, '; '.join(lls))
    tol = lambda x: coqR(core.frac(1e-9) * (1 + abs(core.frac(x))))
    out = []
    for key in ('ll', 's1'):
        x = res[key]
        out.append('is_neginf (%s)' % expr if x == -math.inf else 'sclose (%s) %s %s' % (expr, coqR(x), tol(x)))
    return out, psiv


def names_check(case, res, h, S, fixed):
    """perturbing position k must change exactly the individual parameters that the published name / ID of k
    describes: a bottom entry only its own individual (and the dimension it is named after), a top entry no
    individual other than through the population model"""
    if fixed is not None:
        return None
    v = np.array(case['v'], dtype=float)
    n = case['n_ids']
    n_h = sum(s.n_hdim() for s in S)
    ids = res['ids']
    if len(ids) != len(v) or len(res['names']) != len(v):
        return '%d names, %d ids for a vector of length %d' % (len(res['names']), len(ids), len(v))
    pop = h.get_population_model()
    cov = None if case['chis'] is None else np.array(case['chis'], dtype=float)
    base = np.asarray(pop.compute_individual_parameters(v[n * n_h:], v[:n * n_h], cov), dtype=float)
    ll_names = h._log_likelihoods[0].get_parameter_names()
    for k in range(n * n_h):
        w = v.copy()
        w[k] += 0.25
        psi = np.asarray(pop.compute_individual_parameters(w[n * n_h:], w[:n * n_h], cov), dtype=float)
        changed = sorted(set(int(i) for i in np.argwhere(psi != base)[:, 0]))
        dims = sorted(set(int(d) for d in np.argwhere(psi != base)[:, 1]))
        want = 'ind %d' % (k // n_h)
        if ids[k] != want or changed != [k // n_h]:
            return 'position %d is published with ID %r but controls individual(s) %r' % (k, ids[k], changed)
        if len(dims) != 1 or not res['names'][k].endswith(ll_names[dims[0]]):
            return 'position %d is named %r but controls dimension(s) %r (%r)' % (
                k, res['names'][k], dims, [ll_names[d] for d in dims])
    for k in range(n * n_h, len(v)):
        if ids[k] is not None:
            return 'population-level position %d carries the ID %r' % (k, ids[k])
    # the optional flags select sub-lists of the same names: without IDs, and without the bottom level
    plain = list(h.get_parameter_names())
    for kw, want in (({'exclude_bottom_level': True}, plain[n * n_h:]),
                     ({'exclude_bottom_level': True, 'include_ids': True}, list(res['names'][n * n_h:])),
                     ({'include_ids': False}, plain)):
        got = list(h.get_parameter_names(**kw))
        if got != want:
            return 'get_parameter_names(%s) returns %r; the corresponding part of the full list is %r' % (
                ', '.join('%s=%s' % kv for kv in kw.items()), got, want)
    for k in range(n * n_h):
        if res['names'][k] != '%s %s' % (ids[k], plain[k]):
            return 'position %d: name with ID %r, ID %r, name %r' % (k, res['names'][k], ids[k], plain[k])
    # population-level names: position (row p, dimension d) of a sub-model carries that sub-model's own name for
    # (p, d); the covariate coefficient that shifts (p, d) by covariate c is named after both
    want, k = top_names(S, list(pop.get_dim_names())), n * n_h
    if len(want) != len(v) - k:
        return '%d population-level positions, %d expected' % (len(v) - k, len(want))
    for j, (name, words) in enumerate(want):
        got = res['names'][k + j]
        if got != name:
            return 'population-level position %d controls %r but is published as %r' % (k + j, name, got)
        if not any(w in got.lower() for w in words):
            return 'population-level position %d (%r) is not named after its role %r' % (k + j, got, words)

    def evaluate(arg):
        s1, g = h.evaluateS1(arg)
        return float(h(arg)), float(s1), np.asarray(g, dtype=float)
    return core.typed_problem(evaluate, v, 'the hierarchical log-likelihood (value, score, sensitivities)')


ROLE = {'G': [('mean', 'mu'), ('std', 'sigma', 'standard', 'scale')],
        'LN': [('mean', 'mu'), ('std', 'sigma', 'standard', 'scale')],
        'TG': [('mean', 'mu'), ('std', 'sigma', 'standard', 'scale')], 'P': [('pool',)]}


def top_names(S, dims):
    """expected population-level names in published order, built from each sub-model's own names for its
    (row, dimension) grid and the covariate names; with the words the role of the row must be recognisable by"""
    import chi
    out, d0 = [], 0
    for s in S:
        plain = Sub(s.kind, s.nd, s.centered, s.n_het).build()
        plain.set_dim_names(dims[d0:d0 + s.nd])     # the composition's published dimension names
        d0 += s.nd
        base = list(plain.get_parameter_names())
        assert len(base) == s.n_pop() and len(set(base)) == len(base)
        role = lambda p: ROLE[s.kind][p] if s.kind != 'H' else ('id',)
        out += [(base[p * s.nd + d], role(p)) for p in range(s.n_rows()) for d in range(s.nd)]
        if s.cov:
            cn = chi.LinearCovariateModel(n_cov=s.n_cov()).get_covariate_names()
            for (p, d) in s.selection():
                out += [(base[p * s.nd + d] + ' ' + c, role(p)) for c in cn]
    return out


def tagged_exact(case):
    """bottom block of a tagged vector through compute_individual_parameters(return_eta=True)"""
    import chi
    S = [Sub(**d) for d in case['subs']]
    pop = chi.ComposedPopulationModel([s.build() for s in S])
    n = case['n_ids']
    pop.set_n_ids(n)
    n_h = sum(s.n_hdim() for s in S)
    if n_h == 0:
        return None
    n_top = pop.n_parameters()
    eta = np.arange(1, n * n_h + 1, dtype=float)
    top = np.full(n_top, 0.5)
    cov = None if case['chis'] is None else np.array(case['chis'], dtype=float)
    out = np.asarray(pop.compute_individual_parameters(top, eta, covariates=cov, return_eta=True), dtype=float)
    exprs = []
    specials = set()
    for s, (d0, _, _) in zip(S, popspec.slices(S)):
        if s.special():
            specials.update(range(d0, d0 + s.nd))
    for i in range(n):
        row = [int(x) for x in eta[i * n_h:(i + 1) * n_h]]
        obs = ['None' if d in specials else '(Some %d)' % int(out[i][d]) for d in range(out.shape[1])]
        exprs.append('shape_case %s %s %s' % (coq_list(S, c17.coq_sub), coq_list(row), coq_list(obs)))
    return ' && '.join('(%s)' % e for e in exprs)


def oracle(case):
    """independent hand assembly with scipy densities"""
    from scipy import stats
    res, h, lls, S, fixed = run_chi(case)
    if res.get('mutated'):
        return 'the parameter vector passed in was modified'
    v, n, chis = case['v'], case['n_ids'], case['chis']
    X, theta = popspec.split_vector(S, n, v)
    _, psiv = popspec.psi_exprs(S, n, v, chis)
    tot = 0.0
    for s, (d0, p0, c0) in zip(S, popspec.slices(S)):
        if s.special():
            continue
        th = theta[p0:p0 + s.n_par()]
        for i in range(n):
            ch = chis[i][c0:c0 + s.n_cov()] if chis else None
            for d in range(s.nd):
                x = X[i][d0 + d]
                if not s.centered:
                    tot += stats.norm.logpdf(x)
                    continue
                mu, sg = s.par_value(th, 0, d, i, ch), s.par_value(th, 1, d, i, ch)
                if sg <= 0:
                    tot = -math.inf
                elif s.kind == 'G':
                    tot += stats.norm.logpdf(x, mu, sg)
                elif s.kind == 'LN':
                    tot += stats.lognorm.logpdf(x, s=sg, scale=math.exp(mu)) if x > 0 else -math.inf
                else:
                    tot += stats.truncnorm.logpdf(x, a=-mu / sg, b=np.inf, loc=mu, scale=sg)
    for i, dat in enumerate(case['data']):
        p = psiv[i]
        for z, y in zip(dat['ts'], dat['obs']):
            t = z / DEN
            m = sum(p[k] * (1 + k * t) for k in range(case['n_mech']))
            tot += c04.ref_logpdf(case['em'], p[case['n_mech']:], m, y)
    for key in ('ll', 's1', 'll_again'):
        x = res[key]
        if (tot == -math.inf) != (x == -math.inf) or (tot != -math.inf and core.relerr(x, tot) > 1e-8):
            return 'hierarchical log-likelihood (%s) is %r; the individuals\' likelihoods at their own parameters ' \
                   'plus the population log-density give %r' % (key, x, tot)
    if res['arg_len'] != res['n_parameters'] or len(res['grad']) != res['n_parameters']:
        return 'vector length %d, n_parameters %d, gradient length %d' % (res['arg_len'], res['n_parameters'],
                                                                          len(res['grad']))
    return names_check(case, res, h, S, fixed)


def key_of(case, what):
    return 'C02|%s|%s' % ('+'.join(Sub(**d).describe() for d in case['subs']), case['em'])


def run(ck):
    exact, cases, payload = [], [], {}
    for i in range(ck.n(60, 700)):
        case = gen_case(ck.rng)
        label = 'h%d' % i
        S = [Sub(**d) for d in case['subs']]
        try:
            res, h, lls, S, fixed = run_chi(case)
            nc = names_check(case, res, h, S, fixed)
        except Exception as e:
            ck.violation(key_of(case, ''), 'chi raised %s: %s' % (type(e).__name__, e), case)
            continue
        ck.count('n_ids=%d' % case['n_ids'])
        ck.count('error model=%s' % case['em'])
        for s in S:
            ck.count('kind=%s%s%s' % (s.kind, '' if s.centered else 'nc', '+cov' if s.cov else ''))
        ck.count('fixed' if fixed is not None else 'no fixed parameter')
        if res.get('mutated'):
            ck.violation(key_of(case, ''), 'the parameter vector passed in was modified', case)
            continue
        if nc:
            ck.violation(key_of(case, ''), nc, case)
            continue
        if res['ll_again'] != res['ll']:
            ck.violation(key_of(case, ''), 'repeating the evaluation changes the value: %r then %r' % (
                res['ll'], res['ll_again']), case)
            continue
        if any(math.isnan(res[k]) or res[k] == math.inf for k in ('ll', 's1')):
            ck.settle('case %s: nan/+inf' % label, [case], oracle, key_of=key_of)
            continue
        ck.case({'comp': [s.describe() for s in S], 'n_ids': case['n_ids'], 'em': case['em'], 'v': case['v']})
        pr, _ = score_prop(case, res)
        cases.append((label, pr))
        payload[label] = case
        e = tagged_exact(case)
        if e:
            exact.append((label, e))
    ck.cov['rule'] = ('compositions of sub-models of total dimension 3-4 (Gaussian / log-normal centred and non-centred, '
                      'truncated Gaussian, pooled, heterogeneous; 25% covariate-wrapped; 20% with a fixed population '
                      'parameter), 1-3 individuals with 1-3 measurements each, four error models; score certified '
                      'twice (__call__ and evaluateS1); names and IDs checked by perturbation; distinct = distinct case')
    ck.log('exact route: %d tagged vectors; certifying %d scores' % (len(exact), len(cases)))
    bad = ck.exact('bottom_block', HEADER_EXACT, exact, shard=150)
    badn = ck.numeric('score', HEADER_NUM, UNFOLD_NUM, cases, shard=3, integral=True)
    wrng = random.Random(ck.seed + 23)
    wider = (gen_case(wrng) for _ in range(ck.n(200, 2000)))
    if bad or badn:
        fails = [payload[b] for b in bad + badn]
        ck.settle('correspondence C02: model and chi differ on %s (first: %s)' % ((bad + badn)[:5], fails[0]),
                  fails, oracle, wider, key_of)
    elif ck.broken:
        ck.settle(ck.broken.pop(), [], oracle, wider, key_of)


def replay(ck, body):
    r = oracle(body['replay'])
    print('oracle:', r)
    return r is None
