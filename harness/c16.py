"""C16 — seeds fully determine random results; random streams are independent (partial: see DESIGN §7 C16).

Proof side: Properties/C16.v — which stream positions a call reads (one generator made from the seed and handed on).
Tie, on every run, for every sampling entry point (4 error models, population models of every kind incl. composed /
covariate / reduced, PredictiveModel with 1-3 outputs, PopulationPredictiveModel, PriorPredictiveModel,
PosteriorPredictiveModel, PAMPredictiveModel, sample_initial_parameters of LogPosterior, HierarchicalLogPosterior
and PopulationFilterLogPosterior):
 * the same integer seed (Python int and NumPy integer) gives bit-identical results on the same object, on a fresh
   object, after the global NumPy / Python generators were reseeded and advanced and after other sampling calls;
 * different seeds give different results;
 * a Generator passed as seed is advanced: the first call equals the call with the integer seed, the second differs
   and the generator ends where a replay of the plan on the primitive stream ends;
 * plan replay (PredictiveModel, PopulationPredictiveModel): results equal the model's transforms applied to
   consecutive blocks of the primitive stream — compared with Model/Seeds.v `shared_plan` (block starts, final
   position; vm_compute);
 * within one call the standardised noise of different outputs, time points, individuals and samples is not
   identical and is uncorrelated (|r| < 6 / sqrt(N))."""
import math
import random

import numpy as np

from harness import core, c06, c12, popspec
from harness.popspec import Sub
from harness.core import coq_list

THEOREMS = ['C16_streams_disjoint', 'C16_int_seed_determines', 'C16_generator_advanced', 'C16_second_call_disjoint',
            'C16_restarting_overlaps', 'C16_block_sizes', 'C16_calls_compose', 'C16_distinct_seeds_disjoint']
HEADER = '''From Coq Require Import List Arith Bool.
From Chi Require Import Model.Seeds.
Import ListNotations.
Fixpoint lnat_eqb (a b : list nat) : bool :=
  match a, b with [], [] => true | x :: a', y :: b' => Nat.eqb x y && lnat_eqb a' b' | _, _ => false end.
(* block starts and final position of the plan for an integer seed *)
Definition c16_case (s : nat) (ks starts : list nat) (final : nat) : bool :=
  let r := shared_plan (IntSeed s) ks in
  lnat_eqb (map (fun b => match b with p :: _ => snd p | [] => 0 end) (fst r))
           (map (fun p => snd p) (combine ks starts)) &&
  lnat_eqb (map (@List.length _) (fst r)) ks &&
  Nat.eqb (g_pos (snd r)) final && Nat.eqb (g_seed (snd r)) s.
'''
TIMES = [2.5, 0.5, 1.5]


# ------------------------------------------------------------------------------------------------
# entry points
# ------------------------------------------------------------------------------------------------

def toy(n_out):
    from harness.toy import PolyToyModel
    return PolyToyModel(2, n_out)


def predictive(n_out, kinds):
    import chi
    return chi.PredictiveModel(toy(n_out), [c06.err_model(k) for k in kinds])


def pm_params(kinds):
    p = [1.0, 0.5]
    for k in kinds:
        p += [0.5, 0.25] if k == 'CMG' else [0.5]
    return p


def dataset(ids, n_params_names, n_chains=2, n_draws=4):
    """posterior dataset with per-individual variables for the given parameter names"""
    import xarray as xr
    rng = np.random.default_rng(5)
    data = {}
    for name in n_params_names:
        data[name] = xr.DataArray(0.5 + rng.random((n_chains, n_draws, len(ids))), dims=['chain', 'draw', 'individual'],
                                  coords={'chain': list(range(n_chains)), 'draw': list(range(n_draws)),
                                          'individual': ids})
    return xr.Dataset(data)


def filter_posterior(seed):
    import chi
    import pints
    rng = random.Random(seed)
    n_s, n_out, n_par = 3, rng.choice([1, 2]), 2
    subs = [{'kind': rng.choice(['G', 'LN', 'P']), 'nd': 1, 'centered': True, 'n_het': None},
            {'kind': rng.choice(['G', 'LN', 'TG']), 'nd': 1, 'centered': rng.random() < 0.5, 'n_het': None}]
    S = [Sub(**d) for d in subs]
    pop = chi.ComposedPopulationModel([s.build() for s in S])
    times = [0.5, 1.0, 2.0]
    data = np.array([[[1.0 + 0.25 * (i + r + j) for j in range(len(times))] for r in range(n_out)] for i in range(2)])
    filt = c12.make_filter(rng.choice(['G', 'LN', 'GKDE']), data)
    n_top = pop.n_parameters() + n_out
    prior = pints.ComposedLogPrior(*[pints.UniformLogPrior(0.5, 1.5) for _ in range(n_top)])
    return chi.PopulationFilterLogPosterior(filt, times, toy(n_out), pop, prior, n_samples=n_s)


def entry_points(rng):
    """list of (name, make() -> callable(seed) -> np.ndarray, accepts_generator, accepts_numpy_int)"""
    import chi
    import pints
    from harness import c18
    eps = []
    for kind in c06.ERR:
        p = [0.5, 0.25] if kind == 'CMG' else [0.5]
        eps.append(('ErrorModel %s' % kind,
                    lambda kind=kind, p=p: (lambda seed: np.asarray(c06.err_model(kind).sample(p, [1.0, 2.0, 4.0], 3, seed))),
                    True))
    for k in range(4):
        case = c06.gen_pop_case(rng)
        case['n'] = 3
        if case['chis'] is not None:
            case['chis'] = [case['chis'][0]]          # one covariate row shared by the three samples
        if all(d['kind'] in ('P', 'H') for d in case['subs']):
            case['subs'][0].update(kind='G', n_het=None)      # some continuous randomness is needed for the comparisons
            S = [Sub(**d) for d in case['subs']]
            case['theta'] = []
            for s in S:          # population parameters around 1, small covariate coefficients (sigma stays positive)
                case['theta'] += [1.0 + 0.125 * k for k in range(s.n_pop())] + [0.03125] * (len(s.selection()) * s.n_cov())
        eps.append(('PopulationModel %s' % '+'.join(Sub(**d).describe() for d in case['subs']),
                    lambda case=case: (lambda seed: c06.pop_sample(case, seed=seed)),
                    not any(d['kind'] == 'TG' and not d.get('cov') for d in case['subs']) or case['composed']))
    for kind, cls, th in (('G', chi.GaussianModel, [1.0, 0.5]), ('LN', chi.LogNormalModel, [0.25, 0.5]),
                          ('TG', chi.TruncatedGaussianModel, [1.0, 0.75])):
        eps.append(('PopulationModel bare %s' % kind,
                    lambda cls=cls, th=th: (lambda seed: np.asarray(cls().sample(th, n_samples=4, seed=seed))),
                    kind != 'TG'))

        def reduced(cls=cls, th=th):
            m = chi.ReducedPopulationModel(cls())
            m.fix_parameters({m.get_parameter_names()[0]: th[0]})
            return lambda seed: np.asarray(m.sample(th[1:], n_samples=4, seed=seed))
        eps.append(('PopulationModel reduced %s' % kind, reduced, kind != 'TG'))
    for kinds in (['G'], ['G', 'G'], ['LN', 'G', 'CMG'], ['MG', 'MG']):
        n_out = len(kinds)
        eps.append(('PredictiveModel %s' % '+'.join(kinds),
                    lambda n_out=n_out, kinds=kinds: (lambda seed: predictive(n_out, kinds).sample(
                        pm_params(kinds), TIMES, n_samples=3, seed=seed, return_df=False)),
                    True))

    def pop_pred(kinds, centered):
        pm = predictive(len(kinds), kinds)
        n = pm.n_parameters()
        pop = chi.ComposedPopulationModel([chi.LogNormalModel(centered=centered)] + [chi.PooledModel()] * (n - 2) +
                                          [chi.GaussianModel()])
        ppm = chi.PopulationPredictiveModel(pm, pop)
        th = [0.1, 0.25] + [0.5] * (n - 2) + [0.75, 0.125]
        return lambda seed: ppm.sample(th, TIMES, n_samples=4, seed=seed, return_df=False)
    for kinds, cen in ((['G'], True), (['G', 'G'], False)):
        eps.append(('PopulationPredictiveModel %s %s' % ('+'.join(kinds), 'centred' if cen else 'non-centred'),
                    lambda kinds=kinds, cen=cen: pop_pred(kinds, cen), True))

    def prior_pred(kinds):
        pm = predictive(len(kinds), kinds)
        prior = pints.ComposedLogPrior(*[pints.UniformLogPrior(0.5, 1.5) for _ in range(pm.n_parameters())])
        pp = chi.PriorPredictiveModel(pm, prior)
        return lambda seed: pp.sample(TIMES, n_samples=3, seed=seed)['Value'].to_numpy(dtype=float)
    for kinds in (['G'], ['G', 'G']):
        eps.append(('PriorPredictiveModel %s' % '+'.join(kinds), lambda kinds=kinds: prior_pred(kinds), False))

    def post_pred(kinds, individual):
        pm = predictive(len(kinds), kinds)
        ds = dataset(['b', 'a', 'c'], pm.get_parameter_names())
        pp = chi.PosteriorPredictiveModel(pm, ds)
        f = lambda seed: pp.sample(TIMES, n_samples=3, individual=individual, seed=seed)['Value'].to_numpy(dtype=float)  # noqa: E731
        # the same object asked about another individual, other times and sample sizes in between
        f.other = lambda: pp.sample([0.25, 3.0], n_samples=2, individual='b', seed=11)
        return f
    for kinds, ind in ((['G'], 'a'), (['G', 'G'], 'c')):
        eps.append(('PosteriorPredictiveModel %s individual %s' % ('+'.join(kinds), ind),
                    lambda kinds=kinds, ind=ind: post_pred(kinds, ind), True))

    def pam(kinds):
        pm = predictive(len(kinds), kinds)
        models = [chi.PosteriorPredictiveModel(pm, dataset(['b', 'a'], pm.get_parameter_names(), 2, 3 + k))
                  for k in range(2)]
        p = chi.PAMPredictiveModel(models, [0.3, 0.7])
        f = lambda seed: p.sample(TIMES, n_samples=5, individual='a', seed=seed)['Value'].to_numpy(dtype=float)  # noqa: E731
        f.other = lambda: p.sample([0.25, 3.0], n_samples=2, individual='b', seed=11)
        return f
    eps.append(('PAMPredictiveModel', lambda: pam(['G', 'G']), True))

    def init_params(kind, k):
        if kind == 'individual':
            post = c18.build({'subs': None, 'n_ids': 1, 'ids': ['x']})[0]
        elif kind == 'hierarchical':
            case = c18.gen_case(random.Random(1000 + k), 1)
            post = c18.build(case)[0]
        else:
            post = filter_posterior(k)
        return lambda seed: np.asarray(post.sample_initial_parameters(n_samples=3, seed=seed))
    def init_special(k):
        case = c18.gen_case(random.Random(2000 + k), 5)          # only pooled / heterogeneous dimensions
        post = c18.build(case)[0]
        return lambda seed: np.asarray(post.sample_initial_parameters(n_samples=3, seed=seed))
    k = rng.randrange(1000)
    eps.append(('sample_initial_parameters hierarchical without individual-level parameters #%d' % k,
                lambda k=k: init_special(k), False))
    for kind in ('individual', 'hierarchical', 'hierarchical', 'filter', 'filter'):
        k = rng.randrange(1000)
        eps.append(('sample_initial_parameters %s #%d' % (kind, k), lambda kind=kind, k=k: init_params(kind, k), False))
    return eps


def disturb(rng):
    """reseed and advance the global generators, and run unrelated sampling calls"""
    import chi
    np.random.seed(rng.randrange(2 ** 31))
    np.random.random(rng.randint(1, 7))
    random.seed(rng.randrange(2 ** 31))
    chi.GaussianErrorModel().sample([1.0], [1.0, 2.0], 2, seed=rng.randrange(1000))
    chi.TruncatedGaussianModel().sample([1.0, 0.5], 3, seed=rng.randrange(1000))
    chi.LogNormalModel().sample([0.1, 0.5], 2)


def check_entry(name, make, gen_ok, rng):
    s1, s2 = rng.randrange(1, 10 ** 6), rng.randrange(1, 10 ** 6)
    f = make()
    # zero is a seed like any other
    z1 = np.asarray(f(0), dtype=float)
    disturb(rng)
    z2 = np.asarray(f(0), dtype=float)
    z3 = np.asarray(make()(np.int64(0)), dtype=float)
    if z1.shape != z2.shape or not np.array_equal(z1, z2) or not np.array_equal(z1, z3):
        return '%s: calls with the seed 0 differ (same object after other random calls, or a fresh object)' % name
    a = np.asarray(f(s1), dtype=float)
    disturb(rng)
    if hasattr(f, 'other'):
        f.other()
    b = np.asarray(f(s1), dtype=float)
    if a.shape != b.shape or not np.array_equal(a, b):
        return '%s: two calls with seed %d on the same object differ after other random calls in between' % (name, s1)
    disturb(rng)
    f3 = make()
    if hasattr(f3, 'other'):
        f3.other()
    c = np.asarray(f3(s1), dtype=float)
    if a.shape != c.shape or not np.array_equal(a, c):
        return ('%s: seed %d gives a different result depending on what the object was asked before (fresh object vs '
                'object used with other arguments)' % (name, s1))
    c = np.asarray(make()(np.int64(s1)), dtype=float)
    if a.shape != c.shape or not np.array_equal(a, c):
        return '%s: the NumPy integer seed np.int64(%d) gives a different result from the integer %d' % (name, s1, s1)
    d = np.asarray(make()(s2), dtype=float)
    if np.array_equal(a, d):
        return '%s: seeds %d and %d give the same result' % (name, s1, s2)
    if gen_ok:
        g = np.random.default_rng(s1)
        f2 = make()
        e1 = np.asarray(f2(g), dtype=float)
        e2 = np.asarray(f2(g), dtype=float)
        if not np.array_equal(e1, a):
            return '%s: a fresh Generator seeded with %d gives a different result from the integer seed' % (name, s1)
        if np.array_equal(e1, e2):
            return '%s: a Generator passed as seed is restarted, not advanced (two calls agree)' % name
    return None


# ------------------------------------------------------------------------------------------------
# plan replay and independence
# ------------------------------------------------------------------------------------------------

def variates(kind, n):
    return 2 * n if kind == 'CMG' else n


def replay_predictive(kinds, params, times, n_samples, seed):
    """values and block sizes of PredictiveModel.sample from the primitive stream"""
    rng = np.random.default_rng(seed)
    ts = np.sort(times)
    m = toy(len(kinds))
    out = np.asarray(m.simulate(params[:2], ts))
    res = np.empty((len(kinds), len(ts), n_samples))
    ks = []
    k0 = 2
    for o, kind in enumerate(kinds):
        npar = 2 if kind == 'CMG' else 1
        p = params[k0:k0 + npar]
        k0 += npar
        M = out[o][:, None]
        shape = (len(ts), n_samples)
        if kind == 'G':
            res[o] = M + (0 + p[0] * rng.standard_normal(shape))
        elif kind == 'MG':
            res[o] = M + M * (0 + p[0] * rng.standard_normal(shape))
        elif kind == 'CMG':
            z1 = rng.standard_normal(shape)
            z2 = rng.standard_normal(shape)
            res[o] = M + (0 + p[0] * z1) + M * (0 + p[1] * z2)
        else:
            res[o] = M * np.exp(-p[0] ** 2 / 2 + p[0] * rng.standard_normal(shape))
        ks.append(variates(kind, len(ts) * n_samples))
    return res, ks, rng


def replay_population_predictive(rng0, ck=None):
    """PopulationPredictiveModel.sample against its plan: population draws first (sub-model by sub-model), then, patient
    by patient, one block per error model — all from ONE generator made from the seed"""
    import chi
    kinds = [rng0.choice(['G', 'MG', 'CMG']) for _ in range(rng0.choice([1, 2]))]
    pm = predictive(len(kinds), kinds)
    n_par = pm.n_parameters()
    subs = []
    for k in range(n_par):
        # error-model parameters must stay positive: pooled or log-normal dimensions
        kind = rng0.choice(['G', 'LN', 'P', 'G']) if k < 2 else rng0.choice(['LN', 'P'])
        subs.append({'kind': kind, 'nd': 1, 'centered': rng0.random() < 0.5, 'n_het': None})
    S = [Sub(**d) for d in subs]
    theta = []
    for s in S:
        theta += [0.75] if s.kind == 'P' else [0.5, 0.25]
    n = rng0.choice([1, 2, 3])
    seed = rng0.randrange(10 ** 6)
    times = rng0.sample([0.5, 1.0, 2.0, 4.0], rng0.choice([1, 2, 3]))
    if rng0.random() < 0.4:
        times.insert(rng0.randrange(len(times) + 1), rng0.choice(times))            # a replicate time point
    pop = chi.ComposedPopulationModel([s.build() for s in S])
    ppm = chi.PopulationPredictiveModel(pm, pop)
    g = np.random.default_rng(seed)
    got = np.asarray(ppm.sample(theta, times, n_samples=n, seed=g, return_df=False))
    ref = np.random.default_rng(seed)
    case = {'type': 'pop', 'subs': subs, 'theta': theta, 'chis': None, 'n': n, 'seed': seed, 'composed': True,
            'fix_first': False}
    eta, _ = c06.pop_replay(case, rng=ref)
    psi = np.empty_like(eta)
    for j, s in enumerate(S):
        if s.kind == 'P' or s.centered:
            psi[:, j] = eta[:, j] if s.kind != 'P' else 0.75
        else:
            psi[:, j] = 0.5 + 0.25 * eta[:, j] if s.kind == 'G' else np.exp(0.5 + 0.25 * eta[:, j])
    ts = np.sort(times)
    want = np.empty((len(kinds), len(ts), n))
    for p in range(n):
        out = np.asarray(toy(len(kinds)).simulate(psi[p, :2], ts))
        k0 = 2
        for o, kind in enumerate(kinds):
            npar = 2 if kind == 'CMG' else 1
            q = psi[p, k0:k0 + npar]
            k0 += npar
            M = out[o][:, None]
            shape = (len(ts), 1)
            if kind == 'G':
                v = M + (0 + q[0] * ref.standard_normal(shape))
            elif kind == 'MG':
                v = M + M * (0 + q[0] * ref.standard_normal(shape))
            else:
                z1 = ref.standard_normal(shape)
                z2 = ref.standard_normal(shape)
                v = M + (0 + q[0] * z1) + M * (0 + q[1] * z2)
            want[o, :, p] = v[:, 0]
    if got.shape != want.shape or not np.allclose(got, want, rtol=1e-12, atol=0):
        return ('PopulationPredictiveModel(%s over %s).sample(seed=%d) is not its plan applied to the primitive stream of '
                'that seed' % (kinds, [s.describe() for s in S], seed))
    if g.bit_generator.state != ref.bit_generator.state:
        return 'after PopulationPredictiveModel.sample the Generator is not where the plan ends'
    return None


def independence(kinds):
    """standardised noise of a PredictiveModel with identical error models: outputs / times / samples"""
    n = 4000
    pm = predictive(len(kinds), kinds)
    params = pm_params(kinds)
    x = np.asarray(pm.sample(params, TIMES, n_samples=n, seed=77, return_df=False))
    m = np.asarray(toy(len(kinds)).simulate(params[:2], np.sort(TIMES)))
    z = (x - m[:, :, None])
    z = z / z.std(axis=2, keepdims=True)
    lim = 6 / math.sqrt(n)
    rows = [z[o, t] for o in range(z.shape[0]) for t in range(z.shape[1])]
    for i in range(len(rows)):
        for j in range(i + 1, len(rows)):
            if np.array_equal(rows[i], rows[j]):
                return 'noise of (output, time) #%d and #%d is identical' % (i, j)
            r = abs(float(np.corrcoef(rows[i], rows[j])[0, 1]))
            if r > lim:
                return 'noise of (output, time) #%d and #%d is correlated (r = %.3f, %d samples)' % (i, j, r, n)
    r = abs(float(np.corrcoef(z[0, 0, :-1], z[0, 0, 1:])[0, 1]))
    if r > lim:
        return 'noise of consecutive samples is correlated (r = %.3f)' % r
    return None


def rows_independent(name, x):
    x = np.asarray(x, dtype=float)
    if x.ndim == 2 and x.shape[0] > 1:
        for i in range(x.shape[0]):
            for j in range(i + 1, x.shape[0]):
                same = x[i] == x[j]
                if np.all(same):
                    return '%s: samples %d and %d are identical' % (name, i, j)
                # a block of many random entries that agrees exactly between two samples is shared, not drawn twice
                run, best = 0, 0
                for v in same:
                    run = run + 1 if v else 0
                    best = max(best, run)
                if best >= 6:
                    return '%s: samples %d and %d share %d consecutive random entries' % (name, i, j, best)
    return None


def oracle(case):
    if case.get('type') == 'pop replay':
        return replay_population_predictive(random.Random(case['seed']))
    rng = random.Random(case['seed'])
    eps = entry_points(rng)
    for name, make, gen_ok in eps:
        if case.get('name') and case['name'] != name:
            continue
        d = check_entry(name, make, gen_ok, rng)
        if d:
            return d
        if name.startswith('sample_initial_parameters'):
            d = rows_independent(name, make()(5))
            if d:
                return d
    for kinds in (['G', 'G'], ['MG', 'MG', 'MG']):
        d = independence(kinds)
        if d:
            return d
    return None


def key_of(case, what):
    return 'C16|%s' % (what.split(':')[0] if ':' in what else 'independence')


def run(ck):
    import chi  # noqa: F401
    d = c06.primitive_identities()
    if d:
        ck.broken.append('primitive identity no longer holds: ' + d)
        return
    exprs, payload = [], {}
    for r in range(ck.n(3, 20)):
        seed = ck.rng.randrange(10 ** 6)
        rng = random.Random(seed)
        for name, make, gen_ok in entry_points(rng):
            try:
                d = check_entry(name, make, gen_ok, rng)
                if not d and name.startswith('sample_initial_parameters'):
                    d = rows_independent(name, make()(5))
            except Exception as e:
                d = '%s: chi raised %s: %s' % (name, type(e).__name__, e)
            ck.count('entry point ' + name.split(' ')[0])
            ck.case({'entry': name, 'round': r, 'seed': seed})
            if d:
                ck.violation(key_of({}, d), d, {'seed': seed, 'name': name})
    # plan replay
    for j in range(ck.n(40, 300)):
        kinds = [ck.rng.choice(c06.ERR) for _ in range(ck.rng.choice([1, 2, 3]))]
        n_samples = ck.rng.choice([1, 2, 3])
        times = ck.rng.sample([0.5, 1.0, 1.5, 2.5, 4.0], ck.rng.choice([1, 2, 3]))
        if ck.rng.random() < 0.4:
            times.insert(ck.rng.randrange(len(times) + 1), ck.rng.choice(times))    # a replicate time point
        seed = ck.rng.randrange(10 ** 6)
        params = pm_params(kinds)
        case = {'type': 'replay', 'kinds': kinds, 'n_samples': n_samples, 'times': times, 'seed': seed}
        pm = predictive(len(kinds), kinds)
        g = np.random.default_rng(seed)
        got = np.asarray(pm.sample(params, times, n_samples=n_samples, seed=g, return_df=False))
        want, ks, ref = replay_predictive(kinds, params, times, n_samples, seed)
        ck.count('plan replay PredictiveModel, outputs=%d' % len(kinds))
        ck.case(case)
        tol = 4 if 'LN' in kinds else 0
        if got.shape != want.shape or c06.ulps(got, want) > tol:
            ck.violation('C16|replay', 'PredictiveModel(%s).sample(seed=%d) is not the plan applied to consecutive '
                         'blocks of the primitive stream' % (kinds, seed), case)
            continue
        if g.bit_generator.state != ref.bit_generator.state:
            ck.violation('C16|replay', 'after PredictiveModel(%s).sample the Generator is not where the plan ends' % kinds,
                         case)
            continue
        label = 'r%d' % j
        payload[label] = case
        starts = [sum(ks[:i]) for i in range(len(ks))]
        exprs.append((label, 'c16_case %d %s %s %d' % (seed, coq_list(ks), coq_list(starts), sum(ks))))
    for j in range(ck.n(30, 200)):
        seed = ck.rng.randrange(10 ** 9)
        try:
            d = replay_population_predictive(random.Random(seed))
        except Exception as e:
            d = 'PopulationPredictiveModel replay raised %s: %s' % (type(e).__name__, e)
        ck.count('plan replay PopulationPredictiveModel')
        ck.case({'type': 'pop replay', 'seed': seed})
        if d:
            ck.violation('C16|replay', d, {'seed': seed, 'type': 'pop replay'})
    for kinds in (['G', 'G'], ['MG', 'MG', 'MG'], ['LN', 'LN']):
        d = independence(kinds)
        ck.count('independence tests')
        if d:
            ck.violation('C16|independence', 'PredictiveModel %s: %s' % (kinds, d), {'seed': 0, 'kinds': kinds})
    ck.cov['rule'] = ('every sampling entry point (error models, population models incl. composed / covariate / reduced, '
                      'PredictiveModel with 1-3 outputs, PopulationPredictiveModel centred / non-centred, Prior-, Posterior- '
                      'and PAMPredictiveModel, sample_initial_parameters of three posterior classes) x random seeds x '
                      'disturbed global generators x fresh / used objects x int / numpy-int / Generator seeds; plan replay of '
                      'PredictiveModel for random output combinations; distinct = distinct (entry point, round)')
    ck.log('exact route: %d plans' % len(exprs))
    bad = ck.exact('plans', HEADER, exprs, shard=200)
    wider = ({'seed': ck.seed + 100 + j} for j in range(ck.n(3, 12)))
    if bad:
        ck.settle('correspondence C16: Model/Seeds.v and the replayed plan differ on %s' % bad[:5],
                  [{'seed': payload[b]['seed']} for b in bad], oracle, wider, key_of)
    elif ck.broken:
        ck.settle(ck.broken.pop(), [], oracle, wider, key_of)


def replay(ck, body):
    r = oracle(body['replay'])
    print('oracle:', r)
    return r is None
