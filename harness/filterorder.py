"""Tie of Model/FilterOrder.v to chi's time-order bookkeeping (part of C12).

Recording leaf filters (subclasses of chi.PopulationFilter whose "data" are integer tags) are composed, nested and
re-ordered with chi's own ComposedPopulationFilter / sort_times.  Evaluating the composition on simulated
measurements whose entries are the indices of their time points shows which simulated time point every leaf column is
scored against (`pairs`) and in which order the sensitivities come back (`sens`).  Both are compared exactly
(vm_compute) with the model."""
import numpy as np

from harness.core import coq_list


def recording_filter_class():
    import chi

    class RecordingFilter(chi.PopulationFilter):
        """data column k carries the tag tags[k]; records the simulated columns it is handed"""
        log = []

        def __init__(self, tags):
            obs = np.array(tags, dtype=float).reshape(1, 1, len(tags))
            super(RecordingFilter, self).__init__(obs)

        def _tags(self):
            return [int(x) for x in self._observations[0, 0, :]]

        def compute_log_likelihood(self, simulated_obs):
            sims = [int(x) for x in np.asarray(simulated_obs)[0, 0, :]]
            RecordingFilter.log.append(list(zip(self._tags(), sims)))
            return 0.0

        def compute_sensitivities(self, simulated_obs):
            sims = [int(x) for x in np.asarray(simulated_obs)[0, 0, :]]
            RecordingFilter.log.append(list(zip(self._tags(), sims)))
            sens = np.zeros(np.asarray(simulated_obs).shape)
            sens[0, 0, :] = [1000 + t for t in self._tags()]          # leaf_sens tag = 1000 + tag
            return 0.0, sens
    return RecordingFilter


def gen_tree(rng, depth=0, counter=None):
    """('L', tags, order|None) or ('N', order|None, children); tags are distinct integers"""
    counter = counter if counter is not None else [0]
    if depth >= 3 or (depth > 0 and rng.random() < 0.5):
        w = rng.choice([1, 1, 2, 3])
        tags = list(range(counter[0], counter[0] + w))
        counter[0] += w
        order = None
        if w > 1 and rng.random() < 0.4:
            order = list(range(w))
            rng.shuffle(order)
        return ('L', tags, order)
    kids = [gen_tree(rng, depth + 1, counter) for _ in range(rng.choice([1, 2, 2, 3]))]
    n = sum(n_times(k) for k in kids)
    order = None
    if rng.random() < 0.6:
        order = list(range(n))
        rng.shuffle(order)
    return ('N', order, kids)


def n_times(t):
    return len(t[1]) if t[0] == 'L' else sum(n_times(k) for k in t[2])


def presented(t):
    """specification, independently of chi and of the Coq model: the data tags in the order in which the filter
    presents them to the simulated time points (simulated time j meets column order[j] of what lies below)"""
    below = list(t[1]) if t[0] == 'L' else [x for k in t[2] for x in presented(k)]
    order = t[2] if t[0] == 'L' else t[1]
    return below if order is None else [below[i] for i in order]


def build(t, cls):
    import chi
    if t[0] == 'L':
        f = cls(t[1])
        if t[2] is not None:
            f.sort_times(np.array(t[2]))
        return f
    f = chi.ComposedPopulationFilter([build(k, cls) for k in t[2]])
    if t[1] is not None:
        f.sort_times(np.array(t[1]))
    return f


def coq_order(o):
    return 'None' if o is None else '(Some %s)' % coq_list(o)


def coq_tree(t):
    if t[0] == 'L':
        return '(FLeaf nat %s %s)' % (coq_list(t[1]), coq_order(t[2]))
    return '(FNode nat %s %s)' % (coq_order(t[1]), coq_list(t[2], coq_tree))


HEADER = '''From Coq Require Import List Arith Bool.
From Chi Require Import Model.FilterOrder.
Import ListNotations.
Fixpoint lp_eqb (a b : list (nat * nat)) : bool :=
  match a, b with
  | [], [] => true
  | (x, y) :: a', (x', y') :: b' => Nat.eqb x x' && Nat.eqb y y' && lp_eqb a' b'
  | _, _ => false
  end.
Fixpoint lnat_eqb (a b : list nat) : bool :=
  match a, b with [], [] => true | x :: a', y :: b' => Nat.eqb x y && lnat_eqb a' b' | _, _ => false end.
(* observed on chi: the (data tag, simulated time index) pairs each leaf scored, leaf by leaf, and the tags of the
   sensitivities in the order returned *)
Definition fo_case (t : ftree nat) (n : nat) (observed_pairs : list (nat * nat)) (observed_sens : list nat) : bool :=
  lp_eqb (pairs nat nat 0 0 t (seq 0 n)) observed_pairs &&
  lnat_eqb (sens nat nat 0 0 (fun d => 1000 + d) t) observed_sens &&
  (* and the specification: the pairs are those of the presented columns with 0..n-1, as a set *)
  forallb (fun p => existsb (fun q => Nat.eqb (fst p) (fst q) && Nat.eqb (snd p) (snd q))
                            (combine (presented nat 0 t) (seq 0 n))) observed_pairs &&
  Nat.eqb (length observed_pairs) n.
'''


def case(rng):
    """returns (description, coq bool expression, direct failure or None)"""
    cls = recording_filter_class()
    t = gen_tree(rng)
    if t[0] == 'L':
        t = ('N', None, [t])
    n = n_times(t)
    f = build(t, cls)
    sims = np.arange(n, dtype=float).reshape(1, 1, n)
    cls.log = []
    f.compute_log_likelihood(sims.copy())
    ll_pairs = [p for leaf in cls.log for p in leaf]
    cls.log = []
    _, sens = f.compute_sensitivities(sims.copy())
    s1_pairs = [p for leaf in cls.log for p in leaf]
    direct = None
    if ll_pairs != s1_pairs:
        direct = 'compute_log_likelihood scores the pairs %s, compute_sensitivities %s' % (ll_pairs, s1_pairs)
    spec = sorted(zip(presented(t), range(n)))
    if direct is None and sorted(ll_pairs) != spec:
        direct = ('composed filter %s: the (data column, simulated time) pairs scored are %s; simulated time j must meet '
                  'the column presented at position j: %s' % (t, sorted(ll_pairs), spec))
    out = [int(x) for x in np.asarray(sens)[0, 0, :]]
    # entry j of the sensitivities must belong to the data column that was scored against simulated time j
    by_sim = {s: d for d, s in s1_pairs}
    want = [1000 + by_sim.get(j, -1) for j in range(n)]
    if direct is None and out != want:
        direct = ('the sensitivities come back as %s; simulated time j was scored against data columns %s' % (out, want))
    expr = 'fo_case %s %d %s %s' % (coq_tree(t), n, coq_list(ll_pairs, lambda p: '(%d, %d)' % p), coq_list(out))
    return {'tree': repr(t)}, expr, direct
