"""C12 — population filters use the documented estimators; missing-data invariant.

Tie (certified numeric): chi's five filter classes (and ComposedPopulationFilter / sort_times) on generated arrays
with missing values, time re-ordering and splitting; the score and sampled gradient entries are certified against
Model/Filters.v (cell = one observable x time point) by CoqInterval.
Direct checks: padding with all-missing individuals, permuting measured individuals and consistent time
re-ordering leave the score unchanged.
Search: scipy.stats densities with the documented estimators; Richardson finite differences."""
import math
import random

import numpy as np

from harness import core
from harness.core import coqR, coq_list

THEOREMS = ['C12_lse_shift', 'C12_G_score', 'C12_LN_score', 'C12_GKDE_score', 'C12_LNKDE_score', 'C12_GMIX_score',
            'C12_G_grad', 'C12_LN_grad', 'C12_GKDE_grad', 'C12_LNKDE_grad', 'C12_GMIX_cell_blocks', 'C12_GMIX_grad', 'C12_permute_individuals', 'C12_var_two_forms', 'C12_centered_sum_zero',
            'C12_order_pairs', 'C12_order_sensitivities', 'C12_argsort_inverse', 'C12_unpacking_refuted']
HEADER = '''From Coq Require Import Reals Lra List.
From Interval Require Import Tactic.
From Chi Require Import Base.RSum Base.Score Base.Tie Model.Filters.
Import ListNotations.
Open Scope R_scope.
'''
UNFOLD = ('mean var nR ln2PI GF_cell GF_grad LNF_cell LNF_grad lse smax bwf bw2 kde_scores GKDE_cell LNKDE_cell '
          'KDE_grad_z GKDE_grad LNKDE_grad blocks mix_score GMIX_cell GMIX_grad Rsum map length INR firstn skipn '
          'fst snd').split()
KINDS = ['G', 'LN', 'GKDE', 'LNKDE', 'GMIX']
CELL = {'G': 'GF', 'LN': 'LNF', 'GKDE': 'GKDE', 'LNKDE': 'LNKDE'}
TOL = 1e-8


def make_filter(kind, obs):
    import chi
    cls = {'G': chi.GaussianFilter, 'LN': chi.LogNormalFilter, 'GKDE': chi.GaussianKDEFilter,
           'LNKDE': chi.LogNormalKDEFilter, 'GMIX': chi.GaussianMixtureFilter}[kind]
    return cls(obs)


def gen_case(rng, small=True, kind=None, stratum=None):
    kind = kind or rng.choice(KINDS)
    n_sim = rng.choice([4, 6]) if kind == 'GMIX' else rng.choice([2, 3, 4, 5])
    n_ids = rng.choice([1, 2, 3])
    n_obs = rng.choice([1, 1, 2])
    n_times = rng.choice([1, 2, 3, 3])
    if stratum in ('single-sorted-uneven', 'composed-rotation', 'nested'):
        n_times, n_ids = 3, 3
    val = lambda: core.dyadic(rng, 3, 60, 8)
    obs = [[[val() for _ in range(n_times)] for _ in range(n_obs)] for _ in range(n_ids)]
    for r in range(n_obs):
        for j in range(n_times):
            present = list(range(n_ids))
            rng.shuffle(present)
            n_missing = j % n_ids if stratum == 'single-sorted-uneven' else None
            for pos, i in enumerate(present[1:]):
                if (n_missing is None and rng.random() < 0.3) or (n_missing is not None and pos < n_missing):
                    obs[i][r][j] = float('nan')
    sim = [[[val() for _ in range(n_times)] for _ in range(n_obs)] for _ in range(n_sim)]
    # make sure no simulated cell is constant (variance 0)
    for r in range(n_obs):
        for j in range(n_times):
            if len(set(sim[s][r][j] for s in range(n_sim))) < n_sim:
                for s in range(n_sim):
                    sim[s][r][j] = 1.0 + s * 0.625 + 0.125 * ((s * s + j + r) % 3)
    # split the time points over 1-3 sub-filters
    k = rng.choice([1, 1, 2, 3])
    k = min(k, n_times)
    order = list(range(n_times))
    mode = rng.choice(['none', 'none', 'perm', 'perm'])
    if mode == 'perm' and n_times > 1:
        rng.shuffle(order)
    composed = k > 1 or rng.random() < 0.3
    if stratum == 'single-sorted-uneven':
        k, composed, order = 1, False, rng.choice([[1, 2, 0], [2, 0, 1], [2, 1, 0], [1, 0, 2]])
    elif stratum == 'composed-rotation':
        k, composed, order = rng.choice([1, 2, 3]), True, rng.choice([[1, 2, 0], [2, 0, 1]])
    elif stratum == 'nested':
        k, composed, order = rng.choice([1, 2, 2]), True, rng.choice([[1, 2, 0], [2, 0, 1], [0, 1, 2], [1, 0, 2]])
    cuts = sorted(rng.sample(range(1, n_times), k - 1)) if k > 1 else []
    # a composition inside the composition, with a time order of its own (set before it is nested)
    inner = None
    if composed and (stratum == 'nested' or rng.random() < 0.25):
        a = rng.randrange(k)
        b = rng.randint(a + 1, k)
        bounds = [0] + cuts + [n_times]
        if stratum == 'nested':         # the widest group
            a, b = max(((x, y) for x in range(k) for y in range(x + 1, k + 1)), key=lambda ab: bounds[ab[1]] - bounds[ab[0]] - 0.1 * (ab[1] - ab[0]))
        w = bounds[b] - bounds[a]
        io = list(range(w))
        rng.shuffle(io)
        if w > 1 and io == sorted(io):
            io = io[1:] + io[:1]
        inner = {'a': a, 'b': b, 'order': io}
    return {'kind': kind, 'obs': obs, 'sim': sim, 'cuts': cuts, 'order': order, 'composed': composed, 'inner': inner}


def gen_suite(rng, n_random):
    cases = []
    for kind in KINDS:
        for stratum in ('single-sorted-uneven', 'composed-rotation', 'nested'):
            cases.append(gen_case(rng, kind=kind, stratum=stratum))
    for _ in range(n_random):
        cases.append(gen_case(rng))
    return cases


def build(case, obs=None):
    """The filter object for a case.  `order`: simulated time j is measured by data column order[j]."""
    import chi
    obs = np.array(case['obs'] if obs is None else obs, dtype=float)
    n_times = obs.shape[2]
    if not case['composed']:
        f = make_filter(case['kind'], obs)
        if case['order'] != list(range(n_times)):
            f.sort_times(np.array(case['order']))
        return f
    bounds = [0] + case['cuts'] + [n_times]
    subs = [make_filter(case['kind'], obs[:, :, a:b]) for a, b in zip(bounds, bounds[1:])]
    inner = case.get('inner')
    if inner:
        # `obs` are the columns as the inner composition presents them AFTER its own sort_times(order): it is built
        # from the columns in the un-sorted arrangement and sorted before it is nested
        a, b = inner['a'], inner['b']
        raw = obs[:, :, bounds[a]:bounds[b]][..., np.argsort(inner['order'])]
        parts, c = [], 0
        for k in range(a, b):
            w = bounds[k + 1] - bounds[k]
            parts.append(make_filter(case['kind'], raw[:, :, c:c + w]))
            c += w
        g = chi.ComposedPopulationFilter(parts)
        g.sort_times(np.array(inner['order']))
        subs[a:b] = [g]
    f = chi.ComposedPopulationFilter(subs)
    f.sort_times(np.array(case['order']))
    return f


def run_chi(case, obs=None):
    f = build(case, obs)
    sim = np.array(case['sim'], dtype=float)
    before = sim.copy()
    v = float(f.compute_log_likelihood(sim))
    s1, g = f.compute_sensitivities(sim)
    v2 = float(f.compute_log_likelihood(sim))
    if not np.array_equal(sim, before):
        raise AssertionError('simulated measurements were modified')
    return {'ll': v, 's1': float(s1), 'grad': np.asarray(g, dtype=float), 'll_again': v2}


def cells(case, obs=None):
    """[(r, j, xs, ys)] : simulated column j with the present data of column order[j]"""
    obs = case['obs'] if obs is None else obs
    out = []
    n_obs, n_times = len(case['sim'][0]), len(case['sim'][0][0])
    for r in range(n_obs):
        for j in range(n_times):
            xs = [case['sim'][s][r][j] for s in range(len(case['sim']))]
            ys = [o[r][case['order'][j]] for o in obs if not math.isnan(o[r][case['order'][j]])]
            out.append((r, j, xs, ys))
    return out


def cell_term(kind, xs, ys):
    R = lambda l: coq_list(l, coqR)
    if kind == 'GMIX':
        return '(GMIX_cell 2 %d %s %s)' % (len(xs) // 2, R(xs), R(ys))
    return '(%s_cell %s %s)' % (CELL[kind], R(xs), R(ys))


def grad_term(kind, xs, ys, s):
    R = lambda l: coq_list(l, coqR)
    if kind == 'GMIX':
        m = len(xs) // 2
        b = xs[:m] if s < m else xs[m:]
        return '(GMIX_grad 2 %d %s %s %s %s)' % (m, R(xs), R(ys), R(b), coqR(xs[s]))
    return '(%s_grad %s %s %s)' % (CELL[kind], R(xs), R(ys), coqR(xs[s]))


def props(case, res, rng):
    cs = cells(case)
    tol = lambda v: coqR(core.frac(TOL) * (1 + abs(core.frac(v))))
    total = ' + '.join(cell_term(case['kind'], xs, ys) for _, _, xs, ys in cs)
    out = ['close (%s) %s %s' % (total, coqR(res['ll']), tol(res['ll'])),
           'close (%s) %s %s' % (total, coqR(res['s1']), tol(res['s1']))]
    n_ids = len(case['obs'])
    picks = [(c, s) for c in range(len(cs)) for s in range(len(case['sim']))]
    rng.shuffle(picks)
    picks.sort(key=lambda cs_: 0 if len(cs[cs_[0]][3]) < n_ids else 1)   # cells with missing values first
    picks = picks[:2] + picks[-2:]
    for c, s in picks:
        r, j, xs, ys = cs[c]
        g = float(res['grad'][s, r, j])
        out.append('close %s %s %s' % (grad_term(case['kind'], xs, ys, s), coqR(g), tol(g)))
    return out


# ------------------------------------------------------------------------------------------------
# oracle
# ------------------------------------------------------------------------------------------------

def ref_score(case, sim=None, obs=None):
    from scipy import stats
    sim = np.array(case['sim'] if sim is None else sim, dtype=float)
    cs = cells(dict(case, sim=sim.tolist()), obs)
    k = case['kind']
    tot = 0.0
    for _, _, xs, ys in cs:
        xs = np.array(xs)
        n = len(xs)
        for y in ys:
            if k == 'G':
                tot += stats.norm.logpdf(y, np.mean(xs), np.std(xs, ddof=1))
            elif k == 'LN':
                lx = np.log(xs)
                tot += stats.lognorm.logpdf(y, s=np.std(lx, ddof=1), scale=math.exp(np.mean(lx)))
            elif k == 'GKDE':
                bw = math.sqrt((4 / 3 / n) ** 0.4 * np.var(xs, ddof=1))
                tot += math.log(np.mean(stats.norm.pdf(y, xs, bw)))
            elif k == 'LNKDE':
                lx = np.log(xs)
                bw = math.sqrt((4 / 3 / n) ** 0.4 * np.var(lx, ddof=1))
                tot += math.log(np.mean(stats.lognorm.pdf(y, s=bw, scale=xs)))
            elif k == 'GMIX':
                m = n // 2
                tot += math.log(np.mean([stats.norm.pdf(y, np.mean(b), np.std(b, ddof=1)) for b in (xs[:m], xs[m:])]))
    return tot


def oracle(case):
    if case.get('type') == 'order':
        from harness import filterorder
        return filterorder.case(random.Random(case['seed']))[2]
    res = run_chi(case)
    ref = ref_score(case)
    if core.relerr(res['ll'], ref) > 1e-8:
        return 'log-likelihood %r is not the sum %r of the documented log-densities with the documented ' \
               'estimators' % (res['ll'], ref)
    if core.relerr(res['s1'], res['ll']) > 1e-10 or res['ll_again'] != res['ll']:
        return 'score with sensitivities %r / repeated score %r differ from score %r' % (
            res['s1'], res['ll_again'], res['ll'])
    sim = np.array(case['sim'], dtype=float)
    if res['grad'].shape != sim.shape:
        return 'sensitivities have shape %r, simulated measurements %r' % (res['grad'].shape, sim.shape)
    f = build(case)
    h = 1e-4
    for idx in np.ndindex(*sim.shape):
        def at(d):
            z = sim.copy()
            z[idx] += d
            return float(f.compute_log_likelihood(z))
        d1 = (at(h) - at(-h)) / (2 * h)
        d2 = (at(h / 2) - at(-h / 2)) / h
        fd = (4 * d2 - d1) / 3
        if abs(fd - res['grad'][idx]) > 1e-5 * (1 + abs(fd)):
            return 'sensitivity w.r.t. simulated measurement %r is %r, finite differences give %r' % (
                idx, float(res['grad'][idx]), fd)
    return invariance(case, res)


def invariance(case, res):
    obs = case['obs']
    n_obs, n_times = len(obs[0]), len(obs[0][0])
    nan_row = [[float('nan')] * n_times for _ in range(n_obs)]
    padded = obs[:1] + [nan_row] + obs[1:] + [nan_row]
    v = run_chi(case, padded)['ll']
    if core.relerr(v, res['ll']) > 1e-10:
        return 'padding the measurements with missing values changes the score from %r to %r' % (res['ll'], v)
    perm = list(reversed(obs))
    v = run_chi(case, perm)['ll']
    if core.relerr(v, res['ll']) > 1e-10:
        return 'permuting the measured individuals changes the score from %r to %r' % (res['ll'], v)
    # the same data and simulations with the time axis presented in sorted order
    order = case['order']
    plain = dict(case, order=list(range(n_times)), cuts=[], composed=False,
                 obs=[[[o[r][order[j]] for j in range(n_times)] for r in range(n_obs)] for o in obs])
    v = run_chi(plain)['ll']
    if core.relerr(v, res['ll']) > 1e-10:
        return 're-ordering / splitting the time points consistently changes the score from %r to %r' % (v, res['ll'])
    return None


def key_of(case, what):
    if case.get('type') == 'order':
        return 'C12|time order'
    return 'C12|%s|%s' % (case['kind'], 'composed' if case['composed'] else 'single')


def run(ck):
    cases, payload = [], {}
    for i, case in enumerate(gen_suite(ck.rng, ck.n(20, 500))):
        label = 'f%d' % i
        try:
            res = run_chi(case)
            inv = invariance(case, res)
        except Exception as e:
            ck.violation(key_of(case, ''), 'chi raised %s: %s' % (type(e).__name__, e), case)
            continue
        ck.count('kind=%s' % case['kind'])
        ck.count('composed' if case['composed'] else 'single')
        ck.count('reordered' if case['order'] != sorted(case['order']) else 'time order kept')
        ck.count('missing' if any(math.isnan(v) for o in case['obs'] for r in o for v in r) else 'complete')
        if inv:
            ck.violation(key_of(case, ''), inv, case)
            continue
        if not all(math.isfinite(v) for v in [res['ll'], res['s1']]) or not np.all(np.isfinite(res['grad'])):
            ck.settle('case %s: non-finite result' % label, [case], oracle, key_of=key_of)
            continue
        ck.case({'kind': case['kind'], 'obs': case['obs'], 'sim': case['sim'], 'order': case['order'],
                 'cuts': case['cuts']})
        cases.append((label, props(case, res, ck.rng)))
        payload[label] = case
    ck.cov['rule'] = ('five filter classes; 2-6 simulated individuals, 1-3 measured individuals, 1-2 observables, '
                      '1-3 time points, random missing values leaving >= 1 value per cell, random time orders, splits '
                      'into 1-3 composed sub-filters; per case the score (twice) and 4 random gradient entries are '
                      'certified, and padding / permutation / re-ordering invariance is checked; random nestings (depth <= 3) of '
                      'composed filters over recording leaves, every level with an order of its own: scored pairs and '
                      'order of the sensitivities compared exactly; distinct = distinct case')
    # time-order bookkeeping through arbitrary nestings, with recording leaf filters (Model/FilterOrder.v)
    from harness import filterorder
    oexprs, opayload = [], {}
    for j in range(ck.n(150, 1500)):
        seed = ck.seed * 53 + j
        try:
            desc, expr, direct = filterorder.case(random.Random(seed))
        except Exception as e:
            desc, expr, direct = {'seed': seed}, None, 'chi raised %s: %s' % (type(e).__name__, e)
        ck.count('nested time orders')
        ck.case({'order': desc})
        oc = {'type': 'order', 'seed': seed}
        if direct:
            ck.violation('C12|time order', direct, oc)
            continue
        oexprs.append(('o%d' % j, expr))
        opayload['o%d' % j] = oc
    obad = ck.exact('order', filterorder.HEADER, oexprs, shard=150)
    if obad:
        ck.settle('correspondence C12: Model/FilterOrder.v and chi differ on %s (first: %s)' % (obad[:5], opayload[obad[0]]),
                  [opayload[b] for b in obad], oracle, None, key_of)
    ck.log('certifying %d filter cases' % len(cases))
    bad = ck.numeric('filters', HEADER, UNFOLD, cases, shard=4)
    wrng = random.Random(ck.seed + 5)
    wider = (c for c in gen_suite(wrng, ck.n(120, 1500)))
    if bad:
        ck.settle('correspondence C12: Model/Filters.v and chi differ on %s (first: %s)' % (bad[:5], payload[bad[0]]),
                  [payload[b] for b in bad], oracle, wider, key_of)
    elif ck.broken:
        ck.settle(ck.broken.pop(), [], oracle, wider, key_of)


def replay(ck, body):
    r = oracle(body['replay'])
    print('oracle:', r)
    return r is None
