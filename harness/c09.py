"""C09 — simulation returns the ODE solution and its derivatives in parameter order.

Tie (exact, vm_compute): real chi.SBMLModel / chi.PKPDModel / chi.ReducedMechanisticModel objects built from the
four library files and from random SBML files (harness/sbmlgen.py), driven through harness/simsub.py, the
recording substitute for the absent native solver.  The solver's own view of the model (state names in the order
set_state expects, literal constants) is read from the substitute; chi's published names and counts, every call
chi makes to the solver for a simulate() and the sensitivity request are compared with Model/Mechanistic.v.
Direct property check (also the search oracle): the returned arrays must equal an independent solve of the same
myokit model in which each published name is bound BY NAME to its vector entry, and the sensitivity columns must be
the derivatives with respect to the (free) parameters in published order.
Library equations: the right-hand sides myokit reads from the shipped XML files are translated to Coq on every run
and proved equal to the documented equations (Model/Library.v) by `field`; the theorems live in the generated file
gen/C09_lib.v."""
import os
import random
import shutil
import tempfile

import numpy as np

from harness import core, simsub, sbmlgen
from harness.core import coq_list, coq_string, coqZ, coqR

THEOREMS = ['C09_published_length', 'C09_original_order', 'C09_assignment', 'C09_logged', 'C09_simulate_is_ivp',
            'C09_sens_all', 'C09_sens_selected', 'C09_sens_reduced']
HEADER = '''From Coq Require Import ZArith List Bool String.
From Chi Require Import Model.Mechanistic Model.Fixing Tie.C08Tie Tie.C09Tie.
Import ListNotations.
Open Scope string_scope.
Open Scope Z_scope.
'''
LIB_HEADER = '''From Coq Require Import Reals Lra Lia.
From Chi Require Import Model.Library.
Open Scope R_scope.
'''
SCALE = 16
LIBRARY = ['erlotinib_tumour_growth_inhibition_model', 'one_compartment_pk_model',
           'tumour_growth_inhibition_model_koch', 'tumour_growth_inhibition_model_koch_reparametrised']


def setup():
    simsub.install()
    import chi  # noqa: F401
    simsub.self_test()


# ------------------------------------------------------------------------------------------------
# subjects
# ------------------------------------------------------------------------------------------------

def build(case, tmp):
    """Build the chi object a case describes.  Returns (outer, inner) — inner is the SBMLModel/PKPDModel."""
    import chi
    import chi.library
    if case['source'] == 'library':
        m = getattr(chi.library.ModelLibrary(), case['name'])()
    else:
        xml, _ = sbmlgen.gen_sbml(random.Random(case['xml_seed']))
        path = os.path.join(tmp, 'm_%d.xml' % case['xml_seed'])
        with open(path, 'w') as f:
            f.write(xml)
        m = (chi.PKPDModel if case['cls'] == 'pkpd' else chi.SBMLModel)(path)
    if case.get('admin'):
        comp, direct = case['admin']
        m.set_administration(comp, direct=direct)
    if case.get('regimen'):
        m.set_dosing_regimen(**case['regimen'])
    return m


def solver_view(m):
    """What the solver was given: state names in set_state order, literal constants (declaration order),
    and the variables that can be logged."""
    sim = m._simulator
    init = sim.calls[0]
    assert init[0] == 'init'
    mm = sim._model
    consts = [v.qname() for v in mm.variables(const=True, deep=True) if v.is_literal()]
    loggable = [v.qname() for v in mm.variables(deep=True) if (v.is_state() or v.is_intermediary())]
    return list(init[1]), consts, sorted(loggable), init[2]


def scaled(x):
    v = float(x) * SCALE
    assert v == int(v), ('value not on the 1/16 grid', x)
    return int(v)


def coq_call(c):
    if c[0] == 'reset':
        return 'Reset'
    if c[0] == 'set_state':
        return 'SetState %s' % coq_list([scaled(x) for x in c[1]], coqZ)
    if c[0] == 'set_constant':
        return 'SetConst %s %s' % (coq_string(c[1]), coqZ(scaled(c[2])))
    if c[0] == 'run':
        return 'Run %s %s %s' % (coqZ(scaled(c[1])), coq_list(c[2], coq_string), coq_list([scaled(t) for t in c[3]], coqZ))
    raise ValueError(c)


def gen_case(rng, k):
    case = {}
    if k % 5 == 0:
        case['source'] = 'library'
        case['name'] = LIBRARY[(k // 5) % 4]
        case['cls'] = 'pkpd' if case['name'] in LIBRARY[:2] else 'sbml'
        comp = 'central'
    else:
        case['source'] = 'generated'
        case['xml_seed'] = rng.randrange(10 ** 6)
        case['cls'] = rng.choice(['sbml', 'pkpd', 'pkpd'])
        _, info = sbmlgen.gen_sbml(random.Random(case['xml_seed']))
        comp = info['compartments'][0]
    if case['cls'] == 'pkpd' and rng.random() < 0.6:
        case['admin'] = [comp, rng.random() < 0.5]
        if rng.random() < 0.6:
            case['regimen'] = {'dose': rng.choice([1.0, 2.0, 0.5]), 'start': rng.choice([0.0, 0.25]),
                               'duration': rng.choice([0.125, 0.5]),
                               'period': rng.choice([None, 1.0]), 'num': rng.choice([None, 2])}
    case['seed'] = rng.randrange(10 ** 6)
    return case


def run_case(case, tmp):
    """Drive chi; returns the observation record (everything later compared)."""
    import chi
    rng = random.Random(case['seed'])
    m = build(case, tmp)
    ds, dc, loggable, _ = solver_view(m)
    obs = {'ds': ds, 'dc': dc}
    obs['params0'] = list(m.parameters())
    obs['n0'] = m.n_parameters()
    # default outputs are only observable on a model whose outputs were never set
    if (case['source'] == 'library' and case['name'] == 'one_compartment_pk_model') or case.get('admin'):
        obs['outputs0'] = None
    else:
        obs['outputs0'] = list(m.outputs())
    # output selection
    outs = None
    if rng.random() < 0.6:
        outs = rng.sample(loggable, rng.randint(1, min(3, len(loggable))))
        m.set_outputs(outs)
    obs['outs'] = outs if outs is not None else list(m._output_names)
    obs['outs_set'] = outs is not None
    # renaming
    renames = {}
    if rng.random() < 0.5:
        for n in rng.sample(obs['params0'], rng.randint(1, min(3, len(obs['params0'])))):
            renames[n] = 'P_' + n.replace('.', '_')
        m.set_parameter_names(renames)
    publics = [renames.get(n, n) for n in obs['params0']]
    obs['publics'] = publics
    obs['publics_seen'] = list(m.parameters())
    # reduction
    n = len(publics)
    fixed = {}
    outer = m
    mode = rng.choice(['plain', 'plain', 'reduced', 'reduced'])
    if mode == 'reduced':
        outer = chi.ReducedMechanisticModel(m)
        for name in rng.sample(publics, rng.randint(0, n - 1)):
            fixed[name] = rng.randint(8, 48) / SCALE
        if fixed:
            outer.fix_parameters(fixed)
    obs['mode'] = mode
    obs['fixed'] = fixed
    free = [p for p in publics if p not in fixed]
    obs['free'] = free
    obs['outer_params'] = list(outer.parameters())
    obs['outer_n'] = outer.n_parameters()
    # sensitivities
    sens = rng.choice(['off', 'all', 'subset'])
    sel = None
    if sens == 'all':
        outer.enable_sensitivities(True)
    elif sens == 'subset' and mode == 'plain':
        sel = rng.sample(publics, rng.randint(1, n))
        if rng.random() < 0.5:
            sel = sel + ['not a parameter']
        m.enable_sensitivities(True, sel)
    elif sens == 'subset':
        sens = 'all'
        outer.enable_sensitivities(True)
    obs['sens'] = sens
    obs['sel'] = sel
    # simulate
    vals = rng.sample(range(8, 49), len(free))
    theta = [v / SCALE for v in vals]
    times = sorted(rng.sample(range(1, 49), rng.randint(1, 4)))
    times = [t / SCALE for t in times]
    obs['theta'], obs['times'] = theta, times
    sim = m._simulator
    k0 = len(sim.calls)
    res = outer.simulate(np.array(theta), times)
    assert m._simulator is sim, 'simulate() replaced the solver object'
    obs['calls'] = [c for c in sim.calls[k0:]]
    obs['sens_request'] = sim.calls[0][2]
    obs['protocol'] = None if sim._protocol is None else [
        (e.level(), e.start(), e.duration(), e.period(), e.multiplier()) for e in sim._protocol.events()]
    if sens == 'off':
        obs['y'], obs['S'] = np.asarray(res), None
    else:
        obs['y'], obs['S'] = np.asarray(res[0]), np.asarray(res[1])
    obs['model'] = sim._model
    obs['proto_obj'] = sim._protocol
    # the same vector again after the solver object was replaced (sensitivities switched off and back to what they
    # were): the new solver must be handed every value again
    if sens == 'off':
        outer.enable_sensitivities(True)
        outer.enable_sensitivities(False)
    else:
        outer.enable_sensitivities(False)
        if sel is not None:
            m.enable_sensitivities(True, sel)
        else:
            outer.enable_sensitivities(True)
    sim2 = m._simulator
    k0 = len(sim2.calls)
    res2 = outer.simulate(np.array(theta), times)
    obs['calls_again'] = [c for c in sim2.calls[k0:]]
    obs['y_again'] = np.asarray(res2 if sens == 'off' else res2[0])
    # sensitivities on, then a parameter renamed, then the outputs set again: whatever set_outputs does to the
    # sensitivity switch, an enabled model must differentiate by exactly the free parameters under their current names
    if sens != 'off' and mode != 'plain' and free:
        cur = list(outer.parameters())
        outer.set_parameter_names({cur[0]: 'renamed again'})
        outer.set_outputs(list(outer.outputs()))
        if outer.has_sensitivities():
            r3 = outer.simulate(np.array(theta), times)
            obs['after_rename'] = (np.asarray(r3[1]).shape, (len(times), len(outer.outputs()), len(free)))
    return obs


# ------------------------------------------------------------------------------------------------
# independent oracle: bind by name, solve, differentiate
# ------------------------------------------------------------------------------------------------

def reference(obs, value_of, log):
    ref = simsub.Simulation(obs['model'], protocol=obs['proto_obj'])
    ref.set_state([value_of[n] for n in obs['ds']])
    for c in obs['dc']:
        ref.set_constant(c, value_of[c])
    out = ref.run(obs['times'][-1] + 1, log=log, log_times=obs['times'])
    return np.array([out[n] for n in log])


def direct(obs):
    """Property check on one observation, independent of the Coq model.  Returns None or a description."""
    published = sorted(obs['ds']) + sorted(obs['dc'])       # the published order stated by the property
    if obs['params0'] != published:
        return 'parameters() = %s, published order is %s' % (obs['params0'], published)
    if obs['n0'] != len(published):
        return 'n_parameters() = %d for %d names' % (obs['n0'], len(published))
    if obs['outputs0'] is not None and obs['outputs0'] != sorted(obs['ds']):
        return 'default outputs %s are not the sorted states' % obs['outputs0']
    if obs['publics_seen'] != obs['publics']:
        return 'parameters() after renaming = %s, expected %s' % (obs['publics_seen'], obs['publics'])
    if obs['outer_params'] != obs['free'] or obs['outer_n'] != len(obs['free']):
        return 'reduced model reports %s (%d), free parameters are %s' % (obs['outer_params'], obs['outer_n'], obs['free'])
    full = []
    it = iter(obs['theta'])
    for p in obs['publics']:
        full.append(obs['fixed'][p] if p in obs['fixed'] else next(it))
    value_of = dict(zip(published, full))
    y = reference(obs, value_of, obs['outs'])
    if obs['y'].shape != y.shape:
        return 'output array has shape %s, expected %s' % (obs['y'].shape, y.shape)
    err = float(np.max(np.abs(obs['y'] - y) / (1 + np.abs(y))))
    if not err < 1e-9:
        return ('simulate(%s, %s) differs from the solution with each published name bound to its entry '
                '(max rel. diff %.3g)' % (obs['theta'], obs['times'], err))
    if 'after_rename' in obs and tuple(obs['after_rename'][0]) != tuple(obs['after_rename'][1]):
        return ('sensitivities enabled, a free parameter renamed, outputs set again: the sensitivities have shape %s, '
                '(times, outputs, free parameters) is %s' % obs['after_rename'])
    if obs['y_again'].shape != y.shape or not np.allclose(obs['y_again'], y, rtol=1e-9, atol=1e-12):
        return ('simulate(%s, %s) repeated after the solver object was replaced (sensitivities switched) no longer '
                'returns the solution for that vector' % (obs['theta'], obs['times']))
    if obs['sens'] == 'off':
        return None
    if obs['sens'] == 'all':
        wanted = [p for p in obs['publics'] if p not in obs['fixed']]
    else:
        wanted = [p for p in obs['publics'] if p in obs['sel']]
    S = obs['S']
    shape = (len(obs['times']), len(obs['outs']), len(wanted))
    if S.shape != shape:
        return 'sensitivity array has shape %s, expected %s for parameters %s' % (S.shape, shape, wanted)
    for k, p in enumerate(wanted):
        name = published[obs['publics'].index(p)]
        base = abs(value_of[name])
        h = 1e-3 * max(base, 1e-2)

        def at(delta):
            v = dict(value_of)
            v[name] += delta
            return reference(obs, v, obs['outs'])
        D1 = (at(h) - at(-h)) / (2 * h)
        D2 = (at(h / 2) - at(-h / 2)) / h
        D = ((4 * D2 - D1) / 3).T          # (times, outputs)
        err = float(np.max(np.abs(S[:, :, k] - D) / (1e-3 + np.abs(D))))
        if not err < 1e-5:
            return ('sensitivity column %d is not the derivative with respect to %s (published position %d): '
                    'max rel. diff %.3g' % (k, p, obs['publics'].index(p), err))
    return None


def oracle(case):
    tmp = tempfile.mkdtemp(prefix='c09_')
    try:
        if case.get('type') == 'library':
            return library_search(case.get('name'))
        obs = run_case(case, tmp)
        return direct(obs)
    finally:
        shutil.rmtree(tmp, ignore_errors=True)


def key_of(case, what):
    return 'C09|%s|%s' % (case.get('source', case.get('type')), case.get('name', case.get('cls')))


# ------------------------------------------------------------------------------------------------
# library equations: translate, prove, search
# ------------------------------------------------------------------------------------------------

def ident(q):
    return 'v_' + q.replace('.', '_')


def to_coq(e):
    import myokit
    if isinstance(e, myokit.Number):
        return coqR(e.eval())
    if isinstance(e, myokit.Name):
        return ident(e.var().qname())
    if isinstance(e, myokit.PrefixMinus):
        return '(- %s)' % to_coq(e[0])
    if isinstance(e, myokit.PrefixPlus):
        return to_coq(e[0])
    for cls, op in ((myokit.Plus, '+'), (myokit.Minus, '-'), (myokit.Multiply, '*'), (myokit.Divide, '/')):
        if type(e) is cls:
            return '(%s %s %s)' % (to_coq(e[0]), op, to_coq(e[1]))
    raise NotImplementedError('expression %s (%s) is outside the translated fragment' % (e, type(e).__name__))


# documented equations: per model, for each state the Coq expression of Model/Library.v and the same function in
# Python (search oracle only); `outputs` are the documented observables; `guards` the natural domain
DOCS = {
    'one_compartment_pk_model': {
        'states': {'central.drug_amount': ('pk1_dA v_global_elimination_rate v_central_drug_amount',
                                           lambda v: -v['global.elimination_rate'] * v['central.drug_amount'])},
        'outputs': {'central.drug_concentration': ('pk1_C v_central_drug_amount v_central_size',
                                                   lambda v: v['central.drug_amount'] / v['central.size'])},
        'published_outputs': ['central.drug_concentration'],
        'guards': ['0 < v_central_size']},
    'tumour_growth_inhibition_model_koch': {
        'states': {'global.tumour_volume': (
            'koch_dV v_global_lambda_0 v_global_lambda_1 v_global_kappa v_global_drug_concentration '
            'v_global_tumour_volume',
            lambda v: 2 * v['global.lambda_0'] * v['global.lambda_1'] * v['global.tumour_volume'] / (
                2 * v['global.lambda_0'] * v['global.tumour_volume'] + v['global.lambda_1'])
            - v['global.kappa'] * v['global.drug_concentration'] * v['global.tumour_volume'])},
        'outputs': {}, 'published_outputs': ['global.tumour_volume'],
        'guards': ['0 < v_global_lambda_0', '0 < v_global_lambda_1', '0 <= v_global_tumour_volume']},
    'tumour_growth_inhibition_model_koch_reparametrised': {
        'states': {'global.tumour_volume': (
            'koch_rep_dV v_global_lambda v_global_critical_volume v_global_kappa v_global_drug_concentration '
            'v_global_tumour_volume',
            lambda v: v['global.lambda'] * v['global.tumour_volume'] / (
                v['global.tumour_volume'] / v['global.critical_volume'] + 1)
            - v['global.kappa'] * v['global.drug_concentration'] * v['global.tumour_volume'])},
        'outputs': {}, 'published_outputs': ['global.tumour_volume'],
        'guards': ['0 < v_global_critical_volume', '0 <= v_global_tumour_volume']},
    'erlotinib_tumour_growth_inhibition_model': {
        'states': {
            'central.drug_amount': ('erl_dA v_global_elimination_rate v_central_drug_amount',
                                    lambda v: -v['global.elimination_rate'] * v['central.drug_amount']),
            'global.tumour_volume': (
                'erl_dV v_global_lambda v_global_critical_volume v_global_kappa v_central_drug_amount '
                'v_central_size v_global_tumour_volume',
                lambda v: v['global.lambda'] * v['global.tumour_volume'] / (
                    v['global.tumour_volume'] / v['global.critical_volume'] + 1)
                - v['global.kappa'] * (v['central.drug_amount'] / v['central.size']) * v['global.tumour_volume'])},
        'outputs': {'central.drug_concentration': ('pk1_C v_central_drug_amount v_central_size',
                                                   lambda v: v['central.drug_amount'] / v['central.size'])},
        'published_outputs': ['central.drug_amount', 'global.tumour_volume'],
        'guards': ['0 < v_central_size', '0 < v_global_critical_volume', '0 <= v_global_tumour_volume']},
}


def library_model(name):
    import chi.library
    return getattr(chi.library.ModelLibrary(), name)()


def inline(var, mm):
    """Coq expression of a variable's defining expression with intermediates inlined down to states / literals."""
    import myokit

    def go(e):
        if isinstance(e, myokit.Name):
            v = e.var()
            if v.is_state() or v.is_literal() or v.binding() is not None:
                return e
            return go(v.rhs())
        if isinstance(e, myokit.Number):
            return e
        return type(e)(*[go(x) for x in e])
    return go(var.rhs())


def library_theorems():
    """Coq source of gen/C09_lib.v: generated right-hand sides + one theorem per library model."""
    src = [LIB_HEADER]
    names = []
    for name in LIBRARY:
        doc = DOCS[name]
        m = library_model(name)
        mm = m._simulator._model
        states = [s.qname() for s in mm.states()]
        if sorted(states) != sorted(doc['states']):
            raise core.Broken('library model %s has states %s, documented %s' % (name, states, sorted(doc['states'])))
        variables = sorted([v.qname() for v in mm.variables(deep=True) if (v.is_state() or v.is_literal())])
        binder = ' '.join('(%s : R)' % ident(q) for q in variables)
        goals = []
        for q, (coq_doc, _) in list(doc['states'].items()) + list(doc['outputs'].items()):
            var = mm.get(q)
            gen = to_coq(inline(var, mm))
            dname = 'gen_%s_%s' % (name, q.replace('.', '_'))
            src.append('Definition %s %s : R := %s.\n' % (dname, binder, gen))
            goals.append('%s %s = %s' % (dname, ' '.join(ident(q2) for q2 in variables), coq_doc))
        tname = 'C09_library_%s' % name
        names.append(tname)
        src.append('Theorem %s : forall %s, %s%s.\n' % (
            tname, binder, ''.join(g + ' -> ' for g in doc['guards']), ' /\\ '.join(goals)))
        src.append('Proof. intros. cbv [%s pk1_dA pk1_C koch_dV koch_rep_dV erl_dA erl_dV]. repeat split; field; '
                   'repeat split; try lra; try nra. Qed.\n' % ' '.join(
                       'gen_%s_%s' % (name, q.replace('.', '_')) for q in list(doc['states']) + list(doc['outputs'])))
    for t in names:
        src.append('Print Assumptions %s.\n' % t)
    return ''.join(src), names


def library_search(only=None):
    """Numeric search for a point where a shipped model's right-hand side differs from the documented one."""
    rng = random.Random(5)
    for name in LIBRARY:
        if only and name != only:
            continue
        doc = DOCS[name]
        m = library_model(name)
        if m.outputs() != doc['published_outputs']:
            return '%s publishes outputs %s, documented %s' % (name, m.outputs(), doc['published_outputs'])
        sim = m._simulator
        mm = sim._model
        states = [s.qname() for s in mm.states()]
        if sorted(states) != sorted(doc['states']):
            return 'library model %s has states %s, documented %s' % (name, states, sorted(doc['states']))
        lits = [v.qname() for v in mm.variables(const=True, deep=True) if v.is_literal()]
        for _ in range(50):
            v = {q: rng.randint(1, 64) / 16 for q in states + lits}
            y = np.array([v[q] for q in states])
            vals, dy = sim._evaluate(0.0, y, 0.0, {q: v[q] for q in lits})
            for q, (_, f) in doc['states'].items():
                got = dy[states.index(q)]
                if abs(got - f(v)) > 1e-9 * (1 + abs(got)):
                    return ('%s: d(%s)/dt = %.12g at %s, the documented equation gives %.12g' % (
                        name, q, got, v, f(v)))
            for q, (_, f) in doc['outputs'].items():
                if abs(vals[q] - f(v)) > 1e-9 * (1 + abs(vals[q])):
                    return '%s: %s = %.12g at %s, documented %.12g' % (name, q, vals[q], v, f(v))
    return None


# ------------------------------------------------------------------------------------------------
# run
# ------------------------------------------------------------------------------------------------

def coq_state(obs):
    """C08-style state: published names with their fixed values (scaled)."""
    return coq_list(obs['publics'], lambda p: '(%s, %s)' % (
        coq_string(p), ('Some %s' % coqZ(scaled(obs['fixed'][p]))) if p in obs['fixed'] else 'None'))


def run(ck):
    setup()
    tmp = tempfile.mkdtemp(prefix='c09_')
    exprs, payload = [], {}
    try:
        # ---- library equations: regenerate, prove ----
        try:
            text, names = library_theorems()
            rc, out = ck.coqc_text('C09_lib', text, 300)
            ck.cov['obligations'] += len(names)
            blocks = core.split_assumptions(out, names) if rc == 0 else {}
            if rc != 0 or any(t not in blocks for t in names):
                lib_broken = 'library theorems (gen/C09_lib.v) no longer check: ' + out[-600:]
            else:
                lib_broken = None
                ck.cov['discharged'] += len(names)
                for t in names:
                    ck.cov['axioms'][t] = blocks[t]
                    extra = [a for a in blocks[t] if a not in core.ALLOWED_AXIOMS]
                    if extra:
                        lib_broken = 'library theorem %s depends on %s' % (t, extra)
                ck.cov.setdefault('theorems', []).extend(names)
        except (core.Broken, NotImplementedError) as e:
            lib_broken = 'library translation failed: %s' % e
        r = library_search()
        ck.count('library models: documented equations evaluated at 50 points each', 4)
        if r:
            ck.violation('C09|library', r, {'type': 'library'})
        elif lib_broken:
            ck.broken.append(lib_broken)
        # ---- simulate / names / sensitivities ----
        n_cases = ck.n(120, 1200)
        for k in range(n_cases):
            case = gen_case(ck.rng, k)
            try:
                obs = run_case(case, tmp)
            except Exception as e:
                ck.violation(key_of(case, ''), 'chi raised %s: %s' % (type(e).__name__, e), case)
                continue
            ck.count('source=%s' % case['source'])
            ck.count('class=%s' % case['cls'])
            ck.count('n_states=%d' % len(obs['ds']))
            ck.count('declaration order %s alphabetical' % ('=' if obs['ds'] == sorted(obs['ds']) else '!='))
            ck.count('mode=%s sens=%s' % (obs['mode'], obs['sens']))
            if case.get('admin'):
                ck.count('administration %s' % ('direct' if case['admin'][1] else 'indirect'))
            ck.case({'case': case, 'states': obs['ds'], 'consts': obs['dc'], 'outs': obs['outs'], 'fixed': obs['fixed']})
            d = direct(obs)
            if d:
                ck.violation(key_of(case, d), d, case)
                continue
            ds, dc = coq_list(obs['ds'], coq_string), coq_list(obs['dc'], coq_string)
            label = 'c%d' % k
            payload[label] = case
            if obs['outputs0'] is not None:
                exprs.append((label, 'c09_names %s %s %s %s %d' % (
                    ds, dc, coq_list(obs['params0'], coq_string), coq_list(obs['outputs0'], coq_string), obs['n0'])))
            else:
                exprs.append((label, 'c09_names %s %s %s (default_outputs {| decl_states := %s; decl_consts := %s |}) %d'
                              % (ds, dc, coq_list(obs['params0'], coq_string), ds, dc, obs['n0'])))
            calls = coq_list(obs['calls'], lambda c: '(%s)' % coq_call(c))
            th = coq_list([scaled(x) for x in obs['theta']], coqZ)
            ts = coq_list([scaled(x) for x in obs['times']], coqZ)
            outs = coq_list(obs['outs'], coq_string)
            exprs.append((label, 'c09_reduced %s %s %s %s %s %s %s' % (ds, dc, outs, coq_state(obs), th, ts, calls)))
            calls2 = coq_list(obs['calls_again'], lambda c: '(%s)' % coq_call(c))
            exprs.append((label, 'c09_reduced %s %s %s %s %s %s %s' % (ds, dc, outs, coq_state(obs), th, ts, calls2)))
            if obs['sens'] != 'off':
                req = obs['sens_request']
                if req is None or list(req[0]) != obs['outs']:
                    ck.violation(key_of(case, ''), 'sensitivities requested for outputs %s, selected outputs are %s'
                                 % (req and req[0], obs['outs']), case)
                    continue
                if obs['mode'] == 'reduced':
                    sel = '(Some (free_names (V:=Z) %s))' % coq_state(obs)
                elif obs['sel'] is None:
                    sel = 'None'
                else:
                    sel = '(Some %s)' % coq_list(obs['sel'], coq_string)
                exprs.append((label, 'c09_sens %s %s %s %s %s' % (
                    ds, dc, coq_list(obs['publics'], coq_string), sel, coq_list(req[1], coq_string))))
        ck.cov['rule'] = ('the 4 library models and random SBML files (1-3 compartments, 1-6 states, 1-7 literal constants, '
                          'derived constants, intermediates, rate rules; names drawn so that alphabetical != declaration '
                          'order) as SBMLModel / PKPDModel (no / direct / indirect administration, optional regimen), '
                          'random output selections, renamings, ReducedMechanisticModel with 0..n-1 fixed parameters, '
                          'sensitivities off / all / named subset; one simulate() per case at distinct dyadic values; '
                          'distinct = distinct (file, configuration, vector)')
        ck.log('exact route: %d expressions' % len(exprs))
        bad = ck.exact('solver_calls', HEADER, exprs, shard=100)
        wrng = random.Random(ck.seed + 23)
        wider = (gen_case(wrng, 1 + j) for j in range(ck.n(150, 1500)))
        if bad:
            ck.settle('correspondence C09: Model/Mechanistic.v and chi differ on %s (first: %s)' % (
                sorted(set(bad))[:5], payload[bad[0]]), [payload[b] for b in sorted(set(bad))], oracle, wider, key_of)
        elif ck.broken:
            ck.settle(ck.broken.pop(), [], oracle, wider, key_of)
    finally:
        shutil.rmtree(tmp, ignore_errors=True)


def replay(ck, body):
    setup()
    r = oracle(body['replay'])
    print('oracle:', r)
    return r is None
