"""Driver: ./check <ID> [--tier quick|thorough] [--replay file]"""
import argparse
import importlib
import json
import os
import sys
import traceback

sys.path.insert(0, os.path.dirname(os.path.dirname(os.path.abspath(__file__))))
from harness import core  # noqa: E402


def header_modules():
    """Chi.* modules named by the Coq headers of the loaded harness modules (they must be compiled before the
    generated case files can import them)."""
    import re
    found = []
    for name, m in list(sys.modules.items()):
        if not name.startswith('harness.'):
            continue
        for v in vars(m).values():
            if isinstance(v, str) and 'Require Import' in v:
                for grp in re.findall(r'From Chi Require Import ([^\n]*?)\.\s*(?:\n|$)', v):
                    for mod in grp.split():
                        if mod not in found:
                            found.append(mod)
    return found


def main():
    ap = argparse.ArgumentParser()
    ap.add_argument('pid')
    ap.add_argument('--tier', default=os.environ.get('VERIF_TIER', 'quick'), choices=['quick', 'thorough'])
    ap.add_argument('--replay', default=None)
    ap.add_argument('--no-proofs', action='store_true', help='development only: skip the Coq proof build')
    a = ap.parse_args()
    seed = int(os.environ.get('VERIF_SEED', '20260927'))
    mod = importlib.import_module('harness.%s' % a.pid.lower())
    ck = core.Check(a.pid, a.tier, seed)
    if a.replay:
        body = json.load(open(a.replay))
        ok = mod.replay(ck, body)
        print('replay: property %s' % ('HOLDS on this input' if ok else 'FAILS on this input'))
        sys.exit(0 if ok else 1)
    try:
        if not a.no_proofs:
            ck.log('building proofs')
            ck.build_proofs(mod.THEOREMS, ties=header_modules())
        mod.run(ck)
    except Exception:
        ck.broken.append('harness error: ' + traceback.format_exc()[-1500:])
    sys.exit(ck.finish())


if __name__ == '__main__':
    main()
