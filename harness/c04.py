"""C04 — error models: documented normalised densities, exact sensitivities.

Tie: chi's four error models are evaluated (compute_log_likelihood, compute_pointwise_ll,
compute_sensitivities) on generated dyadic inputs; every returned double is certified to be within 1e-9
(relative) of the Coq model's real value by a CoqInterval lemma about the very definitions the C04
theorems speak about (Model/ErrorModels.v).  Guards (-inf) are compared exactly.
Search (only after a break): scipy.stats log-densities, numerical normalisation and Richardson central
differences, all independent of the Coq model and of chi's formulas."""
import math

import numpy as np

from harness import core
from harness.core import coqR, coq_list

THEOREMS = [
    'C04_G_total_is_sum', 'C04_MG_total_is_sum', 'C04_CMG_total_is_sum', 'C04_LN_total_is_sum',
    'C04_G_density', 'C04_MG_density', 'C04_CMG_density', 'C04_LN_density',
    'C04_G_interval_mass', 'C04_CMG_interval_mass', 'C04_LN_interval_mass',
    'C04_G_normalised', 'C04_MG_normalised', 'C04_CMG_normalised', 'C04_LN_normalised',
    'C04_G_guard', 'C04_MG_guard', 'C04_CMG_guard', 'C04_LN_guard',
    'C04_G_dpsi', 'C04_G_dsigma', 'C04_MG_dpsi', 'C04_MG_dsigma', 'C04_CMG_dpsi',
    'C04_CMG_dsigma_base', 'C04_CMG_dsigma_rel', 'C04_LN_dpsi', 'C04_LN_dsigma',
    'C04_G_S1_score', 'C04_MG_S1_score', 'C04_CMG_S1_score', 'C04_LN_S1_score',
]

HEADER = '''From Coq Require Import Reals Lra List.
From Interval Require Import Tactic.
From Chi Require Import Base.RSum Base.Score Base.Tie Model.ErrorModels.
Import ListNotations.
Open Scope R_scope.
'''
UNFOLD = ('G_ll G_total G_pointwise G_pw G_S1 G_dpsi G_dsigma '
          'MG_ll MG_total MG_pointwise MG_pw MG_S1 MG_dpsi MG_dpsi_term MG_dsigma MG_dsigma_term '
          'CMG_ll CMG_total CMG_pointwise CMG_pw CMG_S1 CMG_guard CMG_dpsi CMG_dpsi_term CMG_dsb CMG_dsr '
          'CMG_dsb_term CMG_dsr_term '
          'LN_ll LN_total LN_pointwise LN_pw LN_S1 LN_guard any_nonpos LN_err LN_dpsi LN_dsigma '
          'Rsum map combine length fst snd INR ln2pi app').split()
KINDS = ['G', 'MG', 'CMG', 'LN']
TOL = 1e-9


def chi_model(kind):
    import chi
    return {'G': chi.GaussianErrorModel, 'MG': chi.MultiplicativeGaussianErrorModel,
            'CMG': chi.ConstantAndMultiplicativeGaussianErrorModel, 'LN': chi.LogNormalErrorModel}[kind]()


def gen_case(rng, big=False, kind=None, shape=None, guard=None):
    kind = kind or rng.choice(KINDS)
    if shape is None:
        n = rng.choice([1, 1, 2, 3, 4, 6] if not big else [1, 2, 5, 8, 12])
        p = rng.choice([0, 1, 2, 3])
    else:
        n, p = shape
    npar = 2 if kind == 'CMG' else 1
    params = [core.dyadic(rng, 2, 48, 16) for _ in range(npar)]
    if kind == 'G' and rng.random() < 0.5:
        ms = [core.dyadic(rng, -64, 64, 8) for _ in range(n)]
    else:
        ms = [core.dyadic(rng, 2, 96, 8) for _ in range(n)]
    if kind == 'LN':
        ys = [core.dyadic(rng, 1, 96, 8) for _ in range(n)]
    else:
        ys = [core.dyadic(rng, -32, 96, 8) for _ in range(n)]
    if guard is None and rng.random() < 0.1:
        guard = ('param', rng.randrange(npar), rng.choice([0.0, -0.5])) if kind != 'LN' or rng.random() < 0.5 \
            else ('output', rng.randrange(n), rng.choice([0.0, -1.25]))
    if guard:
        if guard[0] == 'param':
            params[guard[1] % npar] = guard[2]
        else:
            ms[guard[1] % n] = guard[2]
    sens = [[core.dyadic(rng, -32, 32, 8) for _ in range(p)] for _ in range(n)]
    return {'kind': kind, 'params': params, 'ms': ms, 'ys': ys, 'sens': sens, 'guard': bool(guard)}


def gen_suite(rng, n_random, big=False):
    """Stratified suite: per kind the square / wide / tall sensitivity shapes and every guard site, then random."""
    cases = []
    for kind in KINDS:
        for shape in [(1, 1), (2, 2), (3, 3), (1, 3), (4, 1), (3, 0), (2, 3)]:
            cases.append(gen_case(rng, kind=kind, shape=shape, guard=False))
        npar = 2 if kind == 'CMG' else 1
        for r in range(npar):
            for v in (0.0, -0.75):
                cases.append(gen_case(rng, kind=kind, shape=(3, 2), guard=('param', r, v)))
        if kind == 'LN':
            for pos in (0, 1, 3):
                for v in (0.0, -1.5):
                    cases.append(gen_case(rng, kind=kind, shape=(4, 1), guard=('output', pos, v)))
    for i in range(n_random):
        cases.append(gen_case(rng, big=big and i % 5 == 0))
    return cases


_SHARED = {}


def run_chi(case, shared=False):
    """Evaluate the three entry points of the real error model.  shared=True: one long-lived model instance per
    kind and long-lived numpy buffers that are refilled in place (how chi's likelihoods use error models)."""
    n, p = len(case['ms']), (len(case['sens'][0]) if case['sens'] else 0)
    if shared:
        em = _SHARED.setdefault(case['kind'], chi_model(case['kind']))
        key = (case['kind'], n, p)
        if key not in _SHARED:
            _SHARED[key] = (np.zeros(len(case['params'])), np.zeros(n), np.zeros(n), np.zeros((n, p)))
        par, ms, ys, sens = _SHARED[key]
        # history: a first evaluation of the same instance on the same buffers holding other (valid) values
        par[:] = [abs(v) + 0.5 for v in case['params']]
        ms[:] = [abs(v) + 1.0 for v in case['ms']]
        ys[:] = [abs(v) * 2 + 0.25 for v in case['ys']]
        sens[...] = 1.0
        em.compute_log_likelihood(par, ms, ys)
        em.compute_pointwise_ll(par, ms, ys)
        em.compute_sensitivities(par, ms, sens, ys)
        par[:] = case['params']
        ms[:] = case['ms']
        ys[:] = case['ys']
        sens[...] = np.array(case['sens'], dtype=float).reshape(n, p)
    else:
        em = chi_model(case['kind'])
        par, ms, ys = case['params'], case['ms'], case['ys']
        sens = np.array(case['sens'], dtype=float).reshape(n, p)
    ll = float(em.compute_log_likelihood(par, ms, ys))
    pw = [float(v) for v in em.compute_pointwise_ll(par, ms, ys)]
    s1, grad = em.compute_sensitivities(par, ms, sens, ys)
    if shared:
        same = np.array_equal(par, case['params']) and np.array_equal(ms, case['ms']) and \
            np.array_equal(ys, case['ys']) and np.array_equal(sens, np.array(case['sens'], dtype=float).reshape(n, p))
        if not same:
            raise AssertionError('input arrays were modified by the evaluation')
    return {'ll': ll, 'pw': pw, 's1': float(s1), 'grad': [float(g) for g in np.asarray(grad).ravel()]}


def model_args(case):
    R = lambda xs: coq_list(xs, coqR)
    cols = [[row[j] for row in case['sens']] for j in range(len(case['sens'][0]) if case['sens'] else 0)]
    return ' '.join(coqR(x) for x in case['params']), R(case['ms']), R(case['ys']), \
        '[' + '; '.join(R(c) for c in cols) + ']'


def props(case, res):
    k = case['kind']
    par, ms, ys, cols = model_args(case)
    tol = lambda v: coqR(core.frac(TOL) * (1 + abs(core.frac(v))))
    out = []
    bad = [v for v in [res['ll'], res['s1']] + res['pw'] if math.isnan(v) or v == math.inf]
    if bad:
        return None
    if res['ll'] == -math.inf:
        out.append('is_neginf (%s_ll %s %s %s)' % (k, par, ms, ys))
    else:
        out.append('sclose (%s_ll %s %s %s) %s %s' % (k, par, ms, ys, coqR(res['ll']), tol(res['ll'])))
    exp = coq_list(res['pw'], lambda v: 'None' if v == -math.inf else '(Some %s)' % coqR(v))
    out.append('slclose (%s_pointwise %s %s %s) %s %s' % (k, par, ms, ys, exp, coqR(core.frac(TOL))))
    if res['s1'] == -math.inf:
        out.append('is_neginf (fst (%s_S1 %s %s %s %s))' % (k, par, ms, ys, cols))
    else:
        if any(math.isnan(g) or math.isinf(g) for g in res['grad']):
            return None
        out.append('sclose (fst (%s_S1 %s %s %s %s)) %s %s' % (k, par, ms, ys, cols, coqR(res['s1']), tol(res['s1'])))
        out.append('lclose (snd (%s_S1 %s %s %s %s)) %s %s' % (
            k, par, ms, ys, cols, coq_list(res['grad'], coqR), coqR(core.frac(TOL))))
    return out


# ------------------------------------------------------------------------------------------------
# independent oracle (search only)
# ------------------------------------------------------------------------------------------------

def ref_logpdf(kind, params, m, y):
    from scipy import stats
    if kind == 'G':
        sd = params[0]
    elif kind == 'MG':
        sd = params[0] * m
    elif kind == 'CMG':
        sd = params[0] + params[1] * m
    if kind == 'LN':
        s = params[0]
        if s <= 0 or m <= 0:
            return -math.inf
        return float(stats.lognorm.logpdf(y, s=s, scale=m * math.exp(-s * s / 2)))
    if any(q <= 0 for q in params):
        return -math.inf
    return float(stats.norm.logpdf(y, loc=m, scale=sd))


def long_series(case):
    """Direct check on a long series (hundreds of observations, values far from 1): the total is the sum of the
    documented log-densities and of the pointwise values.  (Too long for the certified route; products of that many
    values leave the floating-point range, sums of logs do not.)"""
    import random
    rng = random.Random(case['seed'])
    kind = case['kind']
    n = rng.choice([250, 400])
    lo, hi = rng.choice([(10.0, 200.0), (1e-4, 1e-2), (0.5, 2.0)])
    ms = [rng.uniform(lo, hi) for _ in range(n)]
    ys = [m * rng.uniform(0.8, 1.25) for m in ms]
    params = [0.5, 0.25] if kind == 'CMG' else [0.5]
    em = chi_model(kind)
    ll = float(em.compute_log_likelihood(params, ms, ys))
    pw = np.asarray(em.compute_pointwise_ll(params, ms, ys), dtype=float)
    s1 = float(em.compute_sensitivities(params, ms, np.ones((n, 1)), ys)[0])
    ref = sum(ref_logpdf(kind, params, m, y) for m, y in zip(ms, ys))
    for name, v in (('compute_log_likelihood', ll), ('sum of compute_pointwise_ll', float(np.sum(pw))),
                    ('score of compute_sensitivities', s1)):
        if not math.isfinite(v) or abs(v - ref) > 1e-9 * (1 + abs(ref)):
            return ('%s, %d observations between %g and %g: %s is %r, the sum of the documented log-densities is %r' % (
                kind, n, lo, hi, name, v, ref))
    return None


def large_values(case):
    """Direct check at outputs and observations that are huge compared with the scale (|y| / sigma up to 1e10):
    the residual must be formed before it is squared"""
    import random
    rng = random.Random(case['seed'])
    kind = case['kind']
    n = rng.choice([1, 2, 5])
    mag = 10.0 ** rng.randint(4, 9)
    ms = [mag * rng.uniform(1.0, 9.0) for _ in range(n)]
    if kind == 'G':
        params = [rng.choice([0.05, 0.5, 2.0])]
        ys = [m + params[0] * rng.uniform(-2, 2) for m in ms]
    elif kind == 'LN':
        params = [rng.choice([1e-4, 1e-3])]
        ys = [m * math.exp(params[0] * rng.uniform(-2, 2)) for m in ms]
    elif kind == 'MG':
        params = [rng.choice([1e-6, 1e-5])]
        ys = [m + params[0] * m * rng.uniform(-2, 2) for m in ms]
    else:
        params = [rng.choice([0.05, 1.0]), 1e-7]
        ys = [m + (params[0] + params[1] * m) * rng.uniform(-2, 2) for m in ms]
    em = chi_model(kind)
    ll = float(em.compute_log_likelihood(params, ms, ys))
    pw = np.asarray(em.compute_pointwise_ll(params, ms, ys), dtype=float)
    s1 = float(em.compute_sensitivities(params, ms, np.ones((n, 1)), ys)[0])
    # reference in exact rational arithmetic on the float inputs (only the final log / exp go through floats)
    from fractions import Fraction as F
    ref = 0.0
    for m, y in zip(ms, ys):
        if kind == 'LN':
            s_ = params[0]
            z = (math.log(y) - math.log(m) + s_ * s_ / 2) / s_
            ref += -0.5 * math.log(2 * math.pi) - math.log(s_) - math.log(y) - z * z / 2
        else:
            sd = {'G': F(params[0]), 'MG': F(params[0]) * F(m), 'CMG': F(params[0]) + F(params[-1]) * F(m)}[kind]
            z2 = float(((F(y) - F(m)) / sd) ** 2)
            ref += -0.5 * math.log(2 * math.pi) - math.log(float(sd)) - z2 / 2
    tol = 1e-6 if kind == 'LN' else 1e-9       # log(y) - log(m) loses digits itself at these magnitudes
    for name, v in (('compute_log_likelihood', ll), ('sum of compute_pointwise_ll', float(np.sum(pw))),
                    ('score of compute_sensitivities', s1)):
        if not math.isfinite(v) or abs(v - ref) > tol * (1 + abs(ref)):
            return ('%s, %d observation(s) of magnitude %g with parameters %s: %s is %r, the sum of the documented '
                    'log-densities is %r' % (kind, n, mag, params, name, v, ref))
    return None


def oracle(case):
    """None if chi satisfies C04 on this case (independent closed forms / finite differences)."""
    if case.get('type') == 'long':
        return long_series(case)
    if case.get('type') == 'large':
        return large_values(case)
    em = chi_model(case['kind'])
    k, params, ms, ys = case['kind'], list(case['params']), list(case['ms']), list(case['ys'])
    n, p = len(ms), (len(case['sens'][0]) if case['sens'] else 0)
    sens = np.array(case['sens'], dtype=float).reshape(n, p)
    res = run_chi(case)
    ref_pw = [ref_logpdf(k, params, m, y) for m, y in zip(ms, ys)]
    ref = sum(ref_pw)
    if any(v == -math.inf for v in ref_pw):
        if res['ll'] != -math.inf or res['s1'] != -math.inf or any(v != -math.inf for v in res['pw']):
            return 'outside the support chi returns ll=%r pointwise=%r S1 score=%r instead of -inf' % (
                res['ll'], res['pw'], res['s1'])
        return None
    if core.relerr(res['ll'], ref) > 1e-8:
        return 'log-likelihood %r differs from the documented log-density %r' % (res['ll'], ref)
    for j, (a, b) in enumerate(zip(res['pw'], ref_pw)):
        if core.relerr(a, b) > 1e-8:
            return 'pointwise value %d is %r, documented log-density is %r' % (j, a, b)
    if len(res['pw']) != n or core.relerr(sum(res['pw']), res['ll']) > 1e-8:
        return 'pointwise values %r do not sum to the total %r' % (res['pw'], res['ll'])
    if core.relerr(res['s1'], res['ll']) > 1e-10:
        return 'score returned with sensitivities %r differs from plain score %r' % (res['s1'], res['ll'])
    if len(res['grad']) != p + len(params):
        return 'gradient has length %d, expected %d' % (len(res['grad']), p + len(params))
    # normalisation of exp(pointwise) over the measured value (first observation)
    from scipy import integrate
    m0 = ms[0]
    f = lambda y: math.exp(em.compute_pointwise_ll(params, [m0], [y])[0])
    if k == 'LN':
        mass = integrate.quad(f, 0, m0, limit=200)[0] + integrate.quad(f, m0, np.inf, limit=200)[0]
    else:
        sd = {'G': params[0], 'MG': params[0] * m0, 'CMG': params[0] + (params[1] * m0 if k == 'CMG' else 0)}[k]
        mass = integrate.quad(f, m0 - 12 * sd, m0, limit=200)[0] + integrate.quad(f, m0, m0 + 12 * sd, limit=200)[0]
    if abs(mass - 1) > 1e-6:
        return 'density of one measurement integrates to %r, not 1' % mass

    # derivatives: d/dx of ll(params, ms + x * sens[:, j], ys) at 0, and d/dparam
    def richardson(fun):
        h = 1e-3
        d1 = (fun(h) - fun(-h)) / (2 * h)
        d2 = (fun(h / 2) - fun(-h / 2)) / h
        return (4 * d2 - d1) / 3
    for j in range(p):
        fd = richardson(lambda x: em.compute_log_likelihood(params, [m + x * s[j] for m, s in zip(ms, sens)], ys))
        if abs(fd - res['grad'][j]) > 1e-5 * (1 + abs(fd)):
            return 'sensitivity %d (mechanistic) is %r, finite differences give %r' % (j, res['grad'][j], fd)
    for r in range(len(params)):
        def g(x):
            q = list(params)
            q[r] += x
            return em.compute_log_likelihood(q, ms, ys)
        fd = richardson(g)
        if abs(fd - res['grad'][p + r]) > 1e-5 * (1 + abs(fd)):
            return 'sensitivity w.r.t. error parameter %d is %r, finite differences give %r' % (
                r, res['grad'][p + r], fd)
    return None


def key_of(case, what):
    return 'C04|%s|%s' % (case['kind'], 'guard' if case.get('guard') else 'support')


# ------------------------------------------------------------------------------------------------

def same(a, b):
    return a == b or (isinstance(a, float) and isinstance(b, float) and math.isnan(a) and math.isnan(b))


def run(ck):
    import random
    suite = gen_suite(ck.rng, ck.n(40, 600), big=ck.thorough())
    cases, payload = [], {}
    for i, case in enumerate(suite):
        label = 'c%d' % i
        try:
            res = run_chi(case)
            res2 = run_chi(case, shared=True)
        except Exception as e:
            ck.violation('C04|%s|raise' % case['kind'], 'chi raised %s: %s' % (type(e).__name__, e), case)
            continue
        ck.count('kind=%s' % case['kind'])
        ck.count('n_obs=%d' % len(case['ms']))
        ck.count('width=%d' % (len(case['sens'][0]) if case['sens'] else 0))
        ck.count('guard' if case['guard'] else 'support')
        flat = lambda r: [r['ll'], r['s1']] + r['pw'] + (r['grad'] if r['s1'] != -math.inf else [])
        if len(flat(res)) != len(flat(res2)) or not all(same(a, b) for a, b in zip(flat(res), flat(res2))):
            ck.violation('C04|%s|history' % case['kind'],
                         'a long-lived error model instance evaluated on buffers refilled in place returns %r, a '
                         'fresh instance returns %r for the same values' % (res2, res), case)
            continue
        pr = props(case, res)
        if pr is None:
            # nan / +inf returned on an input inside the generator's domain: decide with the oracle
            ck.settle('chi returned nan or +inf on case %s' % label, [case], oracle, key_of=key_of)
            continue
        ck.case({'case': case, 'chi': res})
        cases.append((label, pr))
        payload[label] = case
    for kind in KINDS:
        for j in range(ck.n(3, 20)):
            lc = {'type': 'long', 'kind': kind, 'seed': ck.rng.randrange(10 ** 9), 'guard': False}
            try:
                d = long_series(lc)
            except Exception as e:
                d = 'chi raised %s: %s' % (type(e).__name__, e)
            ck.count('long series kind=%s' % kind)
            ck.case(lc)
            if d:
                ck.violation('C04|%s|long series' % kind, d, lc)
    for kind in KINDS:
        for j in range(ck.n(6, 40)):
            lc = {'type': 'large', 'kind': kind, 'seed': ck.rng.randrange(10 ** 9), 'guard': False}
            try:
                d = large_values(lc)
            except Exception as e:
                d = 'chi raised %s: %s' % (type(e).__name__, e)
            ck.count('large values kind=%s' % kind)
            ck.case(lc)
            if d:
                ck.violation('C04|%s|large values' % kind, d, lc)
    ck.cov['rule'] = ('stratified suite per error model (square/wide/tall sensitivity shapes, every guard site) plus '
                      'cases drawn from one PRNG (VERIF_SEED): 1-6 (thorough: up to 12) observations, sensitivity '
                      'width 0-3, dyadic parameters/outputs/observations, 10% outside the support; each case is '
                      'evaluated on a fresh instance with lists and on a long-lived instance with numpy buffers '
                      'refilled in place (results must be identical); distinct = distinct (kind, inputs); every '
                      'case is non-trivial (it exercises ll, pointwise and S1 of a real chi error model); plus series of '
                      '250-400 observations at three magnitudes checked directly against the summed documented densities')
    ck.log('certifying %d cases with CoqInterval' % len(cases))
    bad = ck.numeric('errmodels', HEADER, UNFOLD, cases)
    wider_rng = random.Random(ck.seed + 1)
    wider = (c for c in gen_suite(wider_rng, ck.n(300, 3000)))
    if bad:
        ck.log('disagreement on %d cases: %s' % (len(bad), bad[:5]))
        ck.settle('correspondence errmodels: model and chi differ on cases %s (first: %s)' % (
            bad[:5], payload[bad[0]]), [payload[b] for b in bad], oracle, wider, key_of)
    elif ck.broken:
        ck.settle(ck.broken.pop(), [], oracle, wider, key_of)


def replay(ck, body):
    r = oracle(body['replay'])
    print('oracle:', r)
    return r is None
