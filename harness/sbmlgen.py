"""Random SBML model files for the mechanistic-model checks (C09, C11, C14): compartments with species, first-order
transfer / elimination reactions, global parameters that are literal constants, derived constants (assignment rule
over constants), intermediates (assignment rule over states) or states (rate rule).  Names are drawn so that the
alphabetical order and the declaration order of states and constants differ.  All dynamics are linear or
saturating with positive constants, so every positive parameter vector gives a bounded solution."""

COMP_NAMES = ['central', 'peripheral', 'zeta', 'alpha', 'gut', 'blood', 'tissue', 'm1', 'Brain', 'depot']
SPEC_NAMES = ['drug', 'metab', 'x', 'beta', 'y2', 'A', 'prodrug', 'zz']
PARAM_NAMES = ['k_abs', 'a_rate', 'zz_k', 'elimination_rate', 'Kd', 'b1', 'lambda', 'kappa', 'c_rate', 'm', 'w_0',
               'theta', 'q']
STATE_PARAM_NAMES = ['tumour_volume', 'biomarker', 'aa_state', 'zz_state', 'effect']
INTER_NAMES = ['flux', 'signal', 'ab_inter', 'total']

HEAD = '''<?xml version="1.0" encoding="UTF-8"?>
<sbml xmlns="http://www.sbml.org/sbml/level3/version2/core" level="3" version="2">
  <model id="generated_model" timeUnits="day">
    <listOfUnitDefinitions>
      <unitDefinition id="day">
        <listOfUnits>
          <unit kind="second" exponent="1" scale="0" multiplier="86400"/>
        </listOfUnits>
      </unitDefinition>
    </listOfUnitDefinitions>
'''


def ci(x):
    return '<ci> %s </ci>' % x


def times(*xs):
    return '<apply><times/>' + ''.join(xs) + '</apply>'


def plus(*xs):
    return '<apply><plus/>' + ''.join(xs) + '</apply>'


def minus(a, b):
    return '<apply><minus/>' + a + b + '</apply>'


def divide(a, b):
    return '<apply><divide/>' + a + b + '</apply>'


def cn(v):
    return '<cn> %s </cn>' % v


def math(x):
    return '<math xmlns="http://www.w3.org/1998/Math/MathML">' + x + '</math>'


def gen_sbml(rng, n_comp=None, dosable=True):
    """Returns (xml, info).  info['compartments'] lists the compartment names and, per compartment, the species ids
    (a species called 'drug' exists in the first compartment when `dosable`, so that PKPDModel.set_administration
    works with the default amount variable)."""
    n_comp = n_comp or rng.choice([1, 1, 2, 2, 3])
    comps = rng.sample(COMP_NAMES, n_comp)
    species = []      # (id, name, comp)
    used = set()
    for k, c in enumerate(comps):
        names = rng.sample(SPEC_NAMES, rng.choice([1, 1, 2]))
        if dosable and k == 0 and 'drug' not in names:
            names[0] = 'drug'
        for n in names:
            sid = n if n not in used else '%s_%s' % (n, c)
            used.add(sid)
            species.append((sid, c))
    n_const = rng.choice([1, 2, 3, 4, 5])
    consts = rng.sample(PARAM_NAMES, n_const)
    n_sp = rng.choice([0, 0, 1, 2])
    state_params = rng.sample(STATE_PARAM_NAMES, n_sp)
    n_in = rng.choice([0, 1, 1, 2])
    inters = rng.sample(INTER_NAMES, n_in)
    derived = ['derived_' + rng.choice(['a', 'z'])] if rng.random() < 0.4 else []

    out = [HEAD]
    out.append('    <listOfCompartments>\n')
    for c in comps:
        out.append('      <compartment id="%s" name="%s" size="%s" units="liter"/>\n' % (c, c, rng.choice([1, 2, 4])))
    out.append('    </listOfCompartments>\n    <listOfSpecies>\n')
    order = list(species)
    rng.shuffle(order)
    for sid, c in order:
        out.append('      <species id="%s" name="%s" compartment="%s" initialAmount="%s" hasOnlySubstanceUnits="false" '
                   'boundaryCondition="false" constant="false"/>\n' % (sid, sid, c, rng.choice([0, 1, 2])))
    out.append('    </listOfSpecies>\n    <listOfParameters>\n')
    params = [(n, 'const') for n in consts] + [(n, 'state') for n in state_params] + \
             [(n, 'inter') for n in inters] + [(n, 'derived') for n in derived]
    rng.shuffle(params)
    for n, kind in params:
        out.append('      <parameter id="%s" value="%s" constant="%s"/>\n' % (
            n, rng.choice([1, 2, 0.5]), 'true' if kind == 'const' else 'false'))
    out.append('    </listOfParameters>\n')
    rules = []
    rate_consts = list(consts) + derived
    for n in derived:
        rules.append('      <assignmentRule variable="%s">%s</assignmentRule>\n' % (
            n, math(times(cn(2), ci(rng.choice(consts))))))
    for n in inters:
        sid, c = rng.choice(species)
        rules.append('      <assignmentRule variable="%s">%s</assignmentRule>\n' % (
            n, math(plus(times(ci(rng.choice(consts)), ci(sid)), cn(1)))))
    for n in state_params:
        form = rng.choice(['linear', 'sat'])
        k1, k2 = rng.choice(rate_consts), rng.choice(rate_consts)
        drive = ci(rng.choice(inters)) if inters else ci(rng.choice(species)[0])
        if form == 'linear':
            rhs = minus(times(ci(k2), drive), times(ci(k1), ci(n)))
        else:
            rhs = minus(divide(times(ci(k1), ci(n)), plus(ci(n), ci(k2))), times(ci(k2), drive, ci(n)))
        rules.append('      <rateRule variable="%s">%s</rateRule>\n' % (n, math(rhs)))
    rng.shuffle(rules)
    if rules:
        out.append('    <listOfRules>\n' + ''.join(rules) + '    </listOfRules>\n')
    out.append('    <listOfReactions>\n')
    rid = 0
    for sid, c in species:
        # elimination or transfer out of every species, so that amounts stay bounded
        k = rng.choice(rate_consts)
        others = [s for s in species if s[0] != sid]
        target = rng.choice(others) if others and rng.random() < 0.6 else None
        out.append('      <reaction id="r%d" reversible="false" fast="false">\n' % rid)
        out.append('        <listOfReactants><speciesReference species="%s"/></listOfReactants>\n' % sid)
        if target:
            out.append('        <listOfProducts><speciesReference species="%s"/></listOfProducts>\n' % target[0])
        out.append('        <kineticLaw>%s</kineticLaw>\n' % math(times(ci(c), ci(k), ci(sid))))
        out.append('      </reaction>\n')
        rid += 1
    out.append('    </listOfReactions>\n  </model>\n</sbml>\n')
    info = {'compartments': comps, 'species': species, 'consts': consts, 'state_params': state_params,
            'inters': inters, 'derived': derived}
    return ''.join(out), info
