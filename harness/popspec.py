"""Specification-level description of chi population models for the correspondence harness.

A `Sub` describes one sub-model (kind, dimensionality, centred flag, optional linear covariate wrapper); a list of
Subs describes a ComposedPopulationModel.  From numeric inputs (population parameter vector, bottom-level values,
covariates, upstream sensitivities) the functions below emit *Coq real expressions* built from the term-level
definitions of Model/PopModels.v (G_lp, Gnc_deta, cov_shift, ...), together with the place each expression has
in chi's outputs (score, dpsi, dtheta in the separate / flattened / hierarchical forms).  The placement is the
specification of the property texts (C02, C03, C05, C07, C13); chi's own index bookkeeping is what is being
compared against it."""
import math

from harness.core import coqR


def plus(terms):
    terms = [t for t in terms if t is not None]
    if not terms:
        return '0'
    return '(' + ' + '.join(terms) + ')'


class Sub(object):
    def __init__(self, kind, nd=1, centered=True, n_het=None, cov=None):
        assert kind in ('G', 'LN', 'TG', 'P', 'H')
        self.kind, self.nd, self.centered, self.n_het = kind, nd, centered, n_het
        self.cov = cov          # None or {'n_cov': k, 'sel': [(p, d), ...] or None}
        if kind in ('TG', 'P', 'H'):
            self.centered = True

    # ---- structure ----
    def special(self):
        return self.kind in ('P', 'H')

    def n_rows(self):
        return {'G': 2, 'LN': 2, 'TG': 2, 'P': 1, 'H': self.n_het}[self.kind]

    def n_pop(self):
        return self.n_rows() * self.nd

    def selection(self):
        if not self.cov:
            return []
        sel = self.cov.get('sel')
        if sel is None:
            sel = [(p, d) for p in range(self.n_rows()) for d in range(self.nd)]
        out = []
        for pd in sel:
            pd = (int(pd[0]), int(pd[1]))
            if pd not in out:
                out.append(pd)
        return sorted(out)          # parameter-major, then dimension

    def n_cov(self):
        return self.cov['n_cov'] if self.cov else 0

    def n_par(self):
        return self.n_pop() + len(self.selection()) * self.n_cov()

    def n_hdim(self):
        return 0 if self.special() else self.nd

    def describe(self):
        s = self.kind + ('' if self.centered else 'nc') + str(self.nd)
        if self.kind == 'H':
            s += 'x%d' % self.n_het
        if self.cov:
            s += '+cov%d%s' % (self.n_cov(), '' if self.cov.get('sel') is None else str(self.cov['sel']))
        return s

    def build(self):
        import chi
        k = self.kind
        if k == 'G':
            m = chi.GaussianModel(n_dim=self.nd, centered=self.centered)
        elif k == 'LN':
            m = chi.LogNormalModel(n_dim=self.nd, centered=self.centered)
        elif k == 'TG':
            m = chi.TruncatedGaussianModel(n_dim=self.nd)
        elif k == 'P':
            m = chi.PooledModel(n_dim=self.nd)
        else:
            m = chi.HeterogeneousModel(n_dim=self.nd, n_ids=self.n_het)
        if self.cov:
            m = chi.CovariatePopulationModel(m, chi.LinearCovariateModel(n_cov=self.n_cov()))
            if self.cov.get('sel') is not None:
                m.set_population_parameters([list(pd) for pd in self.cov['sel']])
        return m

    # ---- expressions ----
    def par_expr(self, theta, p, d, i, chi_row):
        """Coq expression of population parameter (row p, dimension d) as seen by individual i."""
        base = theta[p * self.nd + d]
        sel = self.selection()
        if self.cov and (p, d) in sel:
            k = sel.index((p, d))
            nc = self.n_cov()
            betas = theta[self.n_pop() + k * nc: self.n_pop() + (k + 1) * nc]
            if self.kind == 'TG':
                # CoqInterval's integral_intro cannot reify integration bounds containing a literal 0 (e.g. the
                # `+ 0` that ends cov_shift's sum), so the shifted parameter of a truncated Gaussian term is
                # constant-folded here in exact rational arithmetic (the inputs are dyadic)
                from fractions import Fraction
                val = Fraction(base) + sum(Fraction(b) * Fraction(c) for b, c in zip(betas, chi_row))
                return coqR(val)
            return '(cov_shift %s [%s] [%s])' % (coqR(base), '; '.join(coqR(b) for b in betas),
                                                 '; '.join(coqR(c) for c in chi_row))
        return coqR(base)

    def par_value(self, theta, p, d, i, chi_row):
        base = theta[p * self.nd + d]
        sel = self.selection()
        if self.cov and (p, d) in sel:
            k = sel.index((p, d))
            nc = self.n_cov()
            base = base + sum(b * c for b, c in zip(theta[self.n_pop() + k * nc: self.n_pop() + (k + 1) * nc], chi_row))
        return base

    def het_row(self, i):
        return i if self.kind == 'H' else 0

    def psi_expr(self, theta, i, d, eta, chi_row):
        """individual parameter of individual i in (local) dimension d given the bottom-level value eta"""
        if self.special():
            return self.par_expr(theta, self.het_row(i), d, i, chi_row)
        if self.centered:
            return coqR(eta)
        mu, sg = self.par_expr(theta, 0, d, i, chi_row), self.par_expr(theta, 1, d, i, chi_row)
        return '(%s %s %s %s)' % ('Gnc_psi' if self.kind == 'G' else 'LNnc_psi', mu, sg, coqR(eta))

    def psi_value(self, theta, i, d, eta, chi_row):
        if self.special():
            return self.par_value(theta, self.het_row(i), d, i, chi_row)
        if self.centered:
            return eta
        mu, sg = self.par_value(theta, 0, d, i, chi_row), self.par_value(theta, 1, d, i, chi_row)
        return mu + sg * eta if self.kind == 'G' else math.exp(mu + sg * eta)

    def lp_expr(self, theta, i, d, x, chi_row):
        """log-density term of the bottom-level value x (None for point masses, which are compared exactly)"""
        if self.special():
            return None
        if not self.centered:
            return '(NC_lp %s)' % coqR(x)
        mu, sg = self.par_expr(theta, 0, d, i, chi_row), self.par_expr(theta, 1, d, i, chi_row)
        return '(%s_lp %s %s %s)' % (self.kind, mu, sg, coqR(x))

    def point_mass_ok(self, theta, i, d, x, chi_row):
        return (not self.special()) or x == self.par_value(theta, self.het_row(i), d, i, chi_row)

    def dbottom_expr(self, theta, i, d, x, u, chi_row):
        """d/d(bottom-level value); u = Coq expression of the upstream sensitivity dL/dpsi or None"""
        u = u if u is not None else '0'
        if self.special():
            return u
        mu, sg = self.par_expr(theta, 0, d, i, chi_row), self.par_expr(theta, 1, d, i, chi_row)
        if self.centered:
            return '(up_centered (%s_dpsi %s %s %s) %s)' % (self.kind, mu, sg, coqR(x), u)
        if self.kind == 'G':
            return '(Gnc_deta %s %s %s)' % (sg, coqR(x), u)
        return '(LNnc_deta %s %s %s %s)' % (mu, sg, coqR(x), u)

    def dvartheta_expr(self, theta, i, p, d, x, u, chi_row):
        """d/d(population parameter (p, d) as seen by individual i)"""
        u = u if u is not None else '0'
        if self.special():
            # point masses: the individual value IS the (shifted) population parameter of row het_row(i)
            return u if p == self.het_row(i) else '0'
        mu, sg = self.par_expr(theta, 0, d, i, chi_row), self.par_expr(theta, 1, d, i, chi_row)
        if self.centered:
            return '(%s_%s %s %s %s)' % (self.kind, 'dmu' if p == 0 else 'dsig', mu, sg, coqR(x))
        if self.kind == 'G':
            return '(Gnc_dmu %s)' % u if p == 0 else '(Gnc_dsig %s %s)' % (coqR(x), u)
        return '(LNnc_%s %s %s %s %s)' % ('dmu' if p == 0 else 'dsig', mu, sg, coqR(x), u)

    def dtheta_flat_exprs(self, theta, xs, us, chis):
        """gradient w.r.t. this sub-model's own flat parameter vector (flattened / hierarchical top form), for the
        non-special kinds: [sum_i dvartheta(i, p, d)] (parameter-major) ++ [sum_i dvartheta(i, p_k, d_k) chi_ic]"""
        n = len(xs)
        out = []
        for p in range(self.n_rows()):
            for d in range(self.nd):
                out.append(plus([self.dvartheta_expr(theta, i, p, d, xs[i][d], us[i][d] if us else None,
                                                     chis[i] if chis else None) for i in range(n)]))
        for (p, d) in self.selection():
            for c in range(self.n_cov()):
                out.append(plus(['(%s * %s)' % (self.dvartheta_expr(theta, i, p, d, xs[i][d],
                                                                     us[i][d] if us else None, chis[i]),
                                               coqR(chis[i][c])) for i in range(n)]))
        return out


def total_dims(subs):
    return sum(s.nd for s in subs)


def slices(subs):
    """per sub-model: (dim offset, parameter offset, covariate offset)"""
    out, d, p, c = [], 0, 0, 0
    for s in subs:
        out.append((d, p, c))
        d += s.nd
        p += s.n_par()
        c += s.n_cov()
    return out


def score_expr(subs, theta, X, chis):
    """(Coq expression of the finite part, all point masses satisfied?)"""
    terms, ok = [], True
    for s, (d0, p0, c0) in zip(subs, slices(subs)):
        th = theta[p0:p0 + s.n_par()]
        for i in range(len(X)):
            ch = chis[i][c0:c0 + s.n_cov()] if chis else None
            for d in range(s.nd):
                t = s.lp_expr(th, i, d, X[i][d0 + d], ch)
                if t is not None:
                    terms.append(t)
                ok = ok and s.point_mass_ok(th, i, d, X[i][d0 + d], ch)
    return plus(terms), ok


# ------------------------------------------------------------------------------------------------
# hierarchical objects: flat vector = [bottom values of the non-special dimensions per individual | population
# parameters]; specification of score and gradient (properties C02, C03)
# ------------------------------------------------------------------------------------------------

def split_vector(subs, n_ids, v):
    """(X with None at special dimensions, theta)"""
    n_h = sum(s.n_hdim() for s in subs)
    X = []
    for i in range(n_ids):
        row, k = [], 0
        for s in subs:
            for d in range(s.nd):
                if s.special():
                    row.append(None)
                else:
                    row.append(v[i * n_h + k])
                    k += 1
        X.append(row)
    return X, list(v[n_ids * n_h:])


def psi_exprs(subs, n_ids, v, chis):
    X, theta = split_vector(subs, n_ids, v)
    out, vals = [], []
    for i in range(n_ids):
        row, rv = [], []
        for s, (d0, p0, c0) in zip(subs, slices(subs)):
            th = theta[p0:p0 + s.n_par()]
            ch = chis[i][c0:c0 + s.n_cov()] if chis else None
            for d in range(s.nd):
                row.append(s.psi_expr(th, i, d, X[i][d0 + d], ch))
                rv.append(s.psi_value(th, i, d, X[i][d0 + d], ch))
        out.append(row)
        vals.append(rv)
    return out, vals


def pop_score_expr(subs, n_ids, v, chis):
    """sum of the population log-density terms of the bottom values (special dimensions contribute nothing)"""
    X, theta = split_vector(subs, n_ids, v)
    terms = []
    for s, (d0, p0, c0) in zip(subs, slices(subs)):
        if s.special():
            continue
        th = theta[p0:p0 + s.n_par()]
        for i in range(n_ids):
            ch = chis[i][c0:c0 + s.n_cov()] if chis else None
            for d in range(s.nd):
                terms.append(s.lp_expr(th, i, d, X[i][d0 + d], ch))
    return plus(terms)


def hier_gradient_exprs(subs, n_ids, v, chis, U):
    """U[i][d]: Coq expression of dL_i/dpsi_{i,d}.  Returns the gradient in the published order."""
    X, theta = split_vector(subs, n_ids, v)
    bottom = [[] for _ in range(n_ids)]
    top = []
    for s, (d0, p0, c0) in zip(subs, slices(subs)):
        th = theta[p0:p0 + s.n_par()]
        xs = [[X[i][d0 + d] for d in range(s.nd)] for i in range(n_ids)]
        us = [[U[i][d0 + d] for d in range(s.nd)] for i in range(n_ids)]
        ch = [chis[i][c0:c0 + s.n_cov()] for i in range(n_ids)] if chis else None
        if not s.special():
            for i in range(n_ids):
                bottom[i] += [s.dbottom_expr(th, i, d, xs[i][d], us[i][d], ch[i] if ch else None) for d in range(s.nd)]
        top += s.dtheta_flat_exprs(th, xs, us, ch)
    return [e for row in bottom for e in row] + top


def compose(S, nest=None):
    """chi composition of the sub-models; with nest=(i, j) the sub-models i..j-1 are first grouped into a composed
    model of their own (a composition of compositions means the same as the flat one)"""
    import chi
    models = [s.build() for s in S]
    if nest:
        i, j = nest
        models[i:j] = [chi.ComposedPopulationModel(models[i:j])]
    return chi.ComposedPopulationModel(models)


def gen_nest(rng, n_sub, p=0.2):
    if n_sub < 2 or rng.random() >= p:
        return None
    i = rng.randrange(n_sub - 1)
    return [i, rng.randint(i + 2, n_sub)]
