"""C10 — dosing regimens deliver the specified amounts at the specified times.

chi.PKPDModel needs myokit.Simulation (sundials, absent): the harness installs harness/simsub.py before chi is
imported, as the property's hook note prescribes.

Tie (exact, vm_compute): (a) the myokit protocol chi builds from (dose, start, duration, period, num) and the
regimen table PredictiveModel.get_dosing_regimen reports for final times on and around the dose times, for single,
finite, indefinite regimens and explicit multi-event protocols, compared with Model/Dosing.v; (b) regimens the
problem controller derives from a dataset's dose rows.
Tie (certified numeric): the cumulative drug input of the simulated system (elimination switched off; direct and
depot route) at times in and around the infusion windows against `delivered (regimen_pulses ...)` by CoqInterval.
Direct checks: the protocol attached to the solver at run time is the reported regimen after sequences of
regimen / sensitivity / copy / fix operations; every individual's likelihood applies its own regimen."""
import math
import random

import numpy as np

from harness import simsub
simsub.install()

from harness import core                                     # noqa: E402
from harness.core import coqZ, coqR, coq_list                # noqa: E402

THEOREMS = ['C10_rate', 'C10_cumulative', 'C10_sum_of_doses', 'C10_regimen_pulses_ok', 'C10_table_is_spec',
            'C10_table_exact', 'C10_regimen_doses', 'C10_dataset', 'C10_delivered_monotone', 'C10_delivered_bounded',
            'C10_nothing_before', 'C10_everything_after', 'C10_regimen_prescribes']
HEADER = '''From Coq Require Import ZArith List Bool.
From Chi Require Import Model.Dosing Tie.C10Tie.
Import ListNotations.
Open Scope Z_scope.
'''
HEADER_NUM = '''From Coq Require Import Reals Lra List.
From Interval Require Import Tactic.
From Chi Require Import Base.Score Base.Tie Model.Dosing.
Import ListNotations.
Open Scope R_scope.
'''
UNFOLD_NUM = 'delivered regimen_pulses overlap Rmax Rmin fst snd'.split()
TS, DS = 16, 8
BOLUS = -7          # marker for the default bolus duration 0.01 in the scaled integers


def library_model():
    import chi.library
    return chi.library.ModelLibrary().one_compartment_pk_model()


def zt(x):
    return BOLUS if x == 0.01 else int(round(x * TS))


# ------------------------------------------------------------------------------------------------
# (a) protocol + table
# ------------------------------------------------------------------------------------------------

def gen_regimen(rng):
    kind = rng.choice(['single', 'finite', 'indefinite', 'indefinite', 'protocol'])
    dose = rng.randint(1, 40) / DS
    start = rng.choice([0, 0, 1, 4, 8, 24, 40]) / TS
    duration = rng.choice([0.01, 1 / TS, 4 / TS, 8 / TS, 16 / TS])
    period = num = None
    if kind != 'single':
        period = rng.choice([16, 24, 32, 48]) / TS
        num = rng.choice([1, 2, 3, 5]) if kind == 'finite' else rng.choice([None, 0])
    base = start * TS
    per = (period or 2) * TS
    final = rng.choice([None, 0, base - 1, base, base + 1, base + per - 1, base + per, base + per + 1,
                        base + 3 * per, base + 3 * per - 1, base + 7 * per + 5, 1000])
    final = None if final is None else max(final, 0) / TS
    case = {'type': 'regimen', 'kind': kind, 'dose': dose, 'start': start, 'duration': duration, 'period': period,
            'num': num, 'final': final, 'direct': rng.random() < 0.6, 'via': rng.choice(['model', 'predictive'])}
    if kind == 'protocol':
        t, evs = 0, []
        for _ in range(rng.choice([1, 2, 3, 4])):
            t += rng.randint(0, 40)
            d = rng.choice([1, 4, 8])
            evs.append({'dose': rng.randint(1, 40) / DS, 'start': t / TS, 'duration': d / TS})
            t += d
        case['events'] = evs
    return case


def run_regimen(case):
    import chi, myokit
    m = library_model()
    m.set_administration('central', direct=case['direct'])
    pm = chi.PredictiveModel(m, [chi.GaussianErrorModel()])
    target = pm if case['via'] == 'predictive' else None
    if case['kind'] == 'protocol':
        p = myokit.Protocol()
        for e in case['events']:
            p.add(myokit.ProtocolEvent(e['dose'] / e['duration'], e['start'], e['duration']))
        args = (p,)
        kw = {}
    else:
        args = (case['dose'],)
        kw = {'start': case['start'], 'period': case['period'], 'num': case['num']}
        if case['duration'] != 0.01:
            kw['duration'] = case['duration']
    if target is None:
        m2 = library_model()
        m2.set_administration('central', direct=case['direct'])
        m2.set_dosing_regimen(*args, **kw)
        pm = chi.PredictiveModel(m2, [chi.GaussianErrorModel()])
    else:
        pm.set_dosing_regimen(*args, **kw)
    df = pm.get_dosing_regimen(case['final'])
    rows = [] if df is None else [(float(a), float(b), float(c)) for a, b, c in
                                  zip(df['Time'], df['Duration'], df['Dose'])]
    mech = pm.get_submodels()['Mechanistic model']
    evs = [(e.level(), e.start(), e.duration(), e.period(), e.multiplier()) for e in mech.dosing_regimen().events()]
    return {'rows': rows, 'events': evs}


def zamt(level, duration):
    a = level * duration * DS
    if abs(a - round(a)) > 1e-9:
        raise AssertionError('dose amount %r x %r is not the dyadic dose that was set' % (level, duration))
    return int(round(a))


def coq_event(amt, st, dur, per, mult):
    return '{| ev_amt := %s; ev_st := %s; ev_dur := %s; ev_per := %s; ev_mult := %d%%nat |}' % (
        coqZ(amt), coqZ(st), coqZ(dur), coqZ(per), mult)


def regimen_expr(case, res):
    if case['kind'] == 'protocol':
        model_evs = [coq_event(int(round(e['dose'] * DS)), zt(e['start']), zt(e['duration']), 0, 0)
                     for e in case['events']]
    else:
        model_evs = ['(regimen_event %s %s %s %s %s)' % (
            coqZ(int(round(case['dose'] * DS))), coqZ(zt(case['start'])), coqZ(zt(case['duration'])),
            'None' if case['period'] is None else '(Some %s)' % coqZ(zt(case['period'])),
            'None' if case['num'] is None else '(Some %d%%nat)' % case['num'])]
    obs_evs = [coq_event(zamt(l, d), zt(s), zt(d), zt(p), int(mu)) for l, s, d, p, mu in res['events']]
    rows = '[' + '; '.join('(%s, %s, %s)' % (coqZ(zt(t)), coqZ(zt(d)), coqZ(int(round(a * DS))))
                           for t, d, a in res['rows']) + ']'
    final = 'None' if case['final'] is None else '(Some %s)' % coqZ(zt(case['final']))
    evs = '[' + '; '.join(model_evs) + ']'
    return '(table_ok %s %s %s) && (events_eqb %s [%s])' % (evs, final, rows, evs, '; '.join(obs_evs))


def regimen_oracle(case):
    """direct check: the table lists exactly the scheduled dose events with time <= final"""
    res = run_regimen(case)
    final = math.inf if case['final'] is None else case['final']
    exp = []
    if case['kind'] == 'protocol':
        for e in case['events']:
            if e['start'] <= final:
                exp.append((e['start'], e['duration'], e['dose']))
    else:
        s, d, p, n = case['start'], case['duration'], case['period'], case['num']
        if p is None:
            times = [s]
        elif n:
            times = [s + k * p for k in range(n)]
        else:
            times = [s + k * p for k in range(0, 2000)] if math.isfinite(final) else [s]
        exp = [(t, d, case['dose']) for t in times if t <= final]
    got = res['rows']
    if len(got) != len(exp) or any(abs(a - b) > 1e-9 for g, e in zip(got, exp) for a, b in zip(g, e)):
        return 'regimen table up to %r is %r; the regimen schedules %r' % (case['final'], got[:8], exp[:8])
    return None


# ------------------------------------------------------------------------------------------------
# cumulative input through the simulated system
# ------------------------------------------------------------------------------------------------

def gen_delivery(rng):
    dose = rng.randint(4, 40) / DS
    start = rng.choice([0, 8, 16]) / TS
    duration = rng.choice([4, 8, 16]) / TS
    period = rng.choice([None, 24 / TS, 32 / TS])
    num = rng.choice([None, 2, 3]) if period else None
    n_eff = 1 if period is None else (num or 6)
    marks = []
    for k in range(n_eff):
        s = start + k * (period or 0)
        marks += [s, s + duration / 2, s + duration, s + duration + 0.25]
    T = sorted(set(t for t in rng.sample(marks, min(4, len(marks))) if t > 0))
    pre = rng.choice([[], ['sens_on', 'sens_off'], ['copy'], ['regimen_other']])
    return {'type': 'delivery', 'dose': dose, 'start': start, 'duration': duration, 'period': period, 'num': num,
            'times': T or [1.0], 'direct': rng.random() < 0.5, 'pre': pre}


def run_delivery(case):
    m = library_model()
    m.set_administration('central', direct=case['direct'])
    for op in case['pre']:
        if op == 'regimen_other':
            m.set_dosing_regimen(3.0, start=0.25, duration=0.5)
    m.set_dosing_regimen(case['dose'], start=case['start'], duration=case['duration'], period=case['period'],
                         num=case['num'])
    for op in case['pre']:
        if op == 'sens_on':
            m.enable_sensitivities(True)
        elif op == 'sens_off':
            m.enable_sensitivities(False)
        elif op == 'copy':
            m = m.copy()
    names = m.parameters()
    par = []
    for n in names:
        par.append({'central.drug_amount': 0.0, 'dose.drug_amount': 0.0, 'central.size': 1.0,
                    'dose.absorption_rate': 2.0, 'global.elimination_rate': 0.0}[n])
    outs = ['central.drug_amount'] + ([] if case['direct'] else ['dose.drug_amount'])
    m.set_outputs(outs)
    y = m.simulate(par, case['times'])
    return [float(v) for v in np.sum(y, axis=0)]


def delivery_props(case, vals):
    n = 1 if case['period'] is None else (case['num'] or 1 + int((max(case['times']) - case['start']) // case['period']))
    n = max(n, 1)
    ps = '(regimen_pulses %s %s %s %s %d)' % (coqR(case['dose']), coqR(case['start']), coqR(case['duration']),
                                               coqR(case['period'] or 0), n)
    return ['close (delivered %s %s) %s %s' % (ps, coqR(T), coqR(v), coqR(core.frac(1e-6)))
            for T, v in zip(case['times'], vals)]


def delivery_oracle(case):
    vals = run_delivery(case)
    for T, v in zip(case['times'], vals):
        n = 1 if case['period'] is None else (case['num'] or 10000)
        exp = 0.0
        for k in range(n):
            s = case['start'] + k * (case['period'] or 0)
            if s > T:
                break
            exp += case['dose'] * min(max((T - s) / case['duration'], 0.0), 1.0)
        if abs(exp - v) > 1e-6:
            return 'cumulative input at t=%r is %r; the regimen has scheduled %r by then' % (T, v, exp)
    return None


# ------------------------------------------------------------------------------------------------
# applied protocol after operation sequences; dataset-derived regimens
# ------------------------------------------------------------------------------------------------

def events_of(protocol):
    return None if protocol is None else [(e.level(), e.start(), e.duration(), e.period(), e.multiplier())
                                          for e in protocol.events()]


def check_applied(rng):
    """returns (description, failure or None)"""
    import chi
    m = library_model()
    direct = rng.random() < 0.5
    m.set_administration('central', direct=direct)
    ops, last = [], None
    obj = m
    for _ in range(rng.choice([1, 2, 3, 4])):
        op = rng.choice(['regimen', 'regimen', 'sens_on', 'sens_on', 'sens_off', 'copy', 'reduce_fix'])
        ops.append(op)
        if op == 'regimen':
            last = (rng.randint(1, 9) / 2.0, rng.randint(0, 4) / 2.0, 0.5, rng.choice([None, 2.0]))
            obj.set_dosing_regimen(last[0], start=last[1], duration=last[2], period=last[3])
        elif op == 'sens_on':
            obj.enable_sensitivities(True)
        elif op == 'sens_off':
            obj.enable_sensitivities(False)
        elif op == 'copy':
            if obj.has_sensitivities():
                obj.enable_sensitivities(False)
            obj = obj.copy()
        elif op == 'reduce_fix':
            if not isinstance(obj, chi.ReducedMechanisticModel):
                obj = chi.ReducedMechanisticModel(obj)
            name = obj.parameters()[-1] if obj.n_parameters() > 1 else None
            if name:
                obj.fix_parameters({name: 0.5})
    inner = obj.mechanistic_model() if isinstance(obj, chi.ReducedMechanisticModel) else obj
    par = [1.0] * obj.n_parameters()
    obj.simulate(par, [0.5, 1.0])
    applied = events_of(inner._simulator._protocol)
    reported = events_of(obj.dosing_regimen())
    expected = None if last is None else [(last[0] / last[2], last[1], last[2], last[3] or 0, 0)]
    desc = {'direct': direct, 'ops': ops}
    if reported != expected:
        return desc, 'dosing_regimen() reports %r after %r; the last regimen set is %r' % (reported, ops, expected)
    if applied != reported:
        return desc, 'the solver ran with protocol %r after %r, but the model reports %r' % (applied, ops, reported)
    return desc, None


def gen_dataset(rng):
    ids = rng.sample(['3', '1', '10', 'b', 'a'], rng.choice([2, 3, 4]))
    rows = []
    for i in ids:
        for _ in range(rng.choice([1, 2, 3])):
            rows.append({'ID': i, 'Time': rng.randint(1, 40) / 4.0, 'Observable': 'central.drug_concentration',
                         'Value': rng.randint(1, 30) / 8.0, 'Dose': float('nan'), 'Duration': float('nan')})
        n_dose = rng.choice([0, 0, 1, 2, 3])
        for t_dose in rng.sample(range(0, 20), n_dose):      # distinct, non-overlapping dose events
            rows.append({'ID': i, 'Time': t_dose * 2.0, 'Observable': float('nan'), 'Value': float('nan'),
                         'Dose': rng.randint(1, 20) / 2.0,
                         'Duration': float('nan') if rng.random() < 0.4 else rng.choice([0.25, 0.5, 1.0])})
    rng.shuffle(rows)
    rows.sort(key=lambda r: 0)      # keep shuffled order
    order = list(ids)
    rng.shuffle(order)
    return {'type': 'dataset', 'rows': rows, 'ids': ids, 'order': order + [order[0]],
            'with_duration': rng.random() < 0.8, 'index': rng.choice(['unique', 'unique', 'per-individual', 'constant'])}


def run_dataset(case):
    import chi, pints
    import pandas as pd
    df = pd.DataFrame(case['rows'])
    # measurement times must be increasing per individual for the likelihood: sort measurement rows by time
    m = library_model()
    m.set_administration('central', direct=True)
    c = chi.ProblemModellingController(m, [chi.GaussianErrorModel()])
    kw = {} if case['with_duration'] else {'dose_duration_key': None}
    data = df.sort_values(['Time'], kind='stable') if True else df
    # row labels carry no meaning (frames glued together with pd.concat repeat them)
    if case.get('index') == 'per-individual':
        seen, labels = {}, []
        for i in data['ID']:
            labels.append(seen.get(i, 0))
            seen[i] = labels[-1] + 1
        data = data.set_axis(labels, axis=0)
    elif case.get('index') == 'constant':
        data = data.set_axis([0] * len(data), axis=0)
    before = data.copy(deep=True)
    c.set_data(data, **kw)
    if not data.equals(before):
        return {'mutated': True}
    c.set_log_prior(pints.ComposedLogPrior(*[pints.UniformLogPrior(0, 10)] * 4))
    regs = c.get_dosing_regimens()
    out = {'mutated': False, 'reported': {i: events_of(regs.get(i)) for i in case['ids']}, 'applied': []}
    for i in case['order']:
        post = c.get_log_posterior(individual=i)
        mech = post.get_log_likelihood().get_submodels()['Mechanistic model']
        post([1.0, 1.0, 1.0, 1.0])
        out['applied'].append((i, events_of(mech.dosing_regimen()), events_of(mech._simulator._protocol)))
    return out, data


def dataset_check(case):
    res = run_dataset(case)
    if isinstance(res, dict):
        return 'set_data modified the caller\'s data frame'
    res, data = res
    exp = {}
    for i in case['ids']:
        evs = []
        for _, r in data.iterrows():
            if r['ID'] == i and not math.isnan(r['Dose']):
                d = r['Duration'] if case['with_duration'] and not math.isnan(r['Duration']) else 0.01
                evs.append((r['Dose'] / d, r['Time'], d, 0, 0))
        exp[i] = evs
    for i in case['ids']:
        got = sorted(res['reported'][i] or [])
        if got != sorted(exp[i]):
            return 'regimen derived for individual %r is %r; its dose rows give %r' % (i, got, sorted(exp[i]))
    for i, rep, app in res['applied']:
        if sorted(rep or []) != sorted(exp[i]) or sorted(app or []) != sorted(exp[i]):
            return 'the likelihood of individual %r (requested in order %r) reports regimen %r and simulates with ' \
                   '%r; its dose rows give %r' % (i, case['order'], rep, app, sorted(exp[i]))
    return None


def oracle(case):
    t = case['type']
    if t == 'regimen':
        return regimen_oracle(case)
    if t == 'delivery':
        return delivery_oracle(case)
    if t == 'dataset':
        return dataset_check(case)
    if t == 'applied':
        return check_applied(random.Random(case['seed']))[1]


def key_of(case, what):
    return 'C10|%s' % case['type']


def run(ck):
    simsub.self_test()
    exprs, payload = [], {}
    for i in range(ck.n(220, 3000)):
        case = gen_regimen(ck.rng)
        label = 'r%d' % i
        try:
            res = run_regimen(case)
            expr = regimen_expr(case, res)
        except Exception as e:
            ck.violation(key_of(case, ''), 'chi raised %s: %s' % (type(e).__name__, e), case)
            continue
        ck.count('regimen=%s' % case['kind'])
        ck.count('final=%s' % ('inf' if case['final'] is None else 'finite'))
        ck.case(case)
        exprs.append((label, expr))
        payload[label] = case
    ck.log('exact route: %d regimen tables' % len(exprs))
    bad = ck.exact('table', HEADER, exprs, shard=120)
    # direct checks
    for i in range(ck.n(60, 600)):
        seed = ck.seed * 1009 + i
        try:
            desc, fail = check_applied(random.Random(seed))
        except Exception as e:
            desc, fail = {'seed': seed}, 'chi raised %s: %s' % (type(e).__name__, e)
        ck.count('applied-protocol sequences')
        ck.case({'applied': desc})
        if fail:
            ck.violation('C10|applied', fail, {'type': 'applied', 'seed': seed})
    for i in range(ck.n(25, 300)):
        case = gen_dataset(ck.rng)
        ck.count('datasets')
        ck.case({'dataset_ids': case['ids'], 'order': case['order'], 'n_rows': len(case['rows'])})
        try:
            fail = dataset_check(case)
        except Exception as e:
            fail = 'chi raised %s: %s' % (type(e).__name__, e)
        if fail:
            ck.violation('C10|dataset', fail, case)
    # numeric
    num = []
    for i in range(ck.n(16, 150)):
        case = gen_delivery(ck.rng)
        label = 'd%d' % i
        try:
            vals = run_delivery(case)
        except Exception as e:
            ck.violation(key_of(case, ''), 'chi raised %s: %s' % (type(e).__name__, e), case)
            continue
        ck.count('delivery direct=%s' % case['direct'])
        ck.case(case)
        num.append((label, delivery_props(case, vals)))
        payload[label] = case
    ck.cov['rule'] = ('regimens: single / finite / indefinite / explicit multi-event, dyadic doses, starts, '
                      'durations (incl. the default bolus), periods, final times on and around the dose times and '
                      'infinity, direct and depot route, set on the model or through PredictiveModel; applied-protocol '
                      'sequences of 1-4 operations; datasets with 2-4 individuals (some without dose rows), '
                      'likelihoods requested in shuffled order; cumulative input at times in and around the '
                      'infusion windows; distinct = distinct case')
    ck.log('certifying %d cumulative-input cases' % len(num))
    badn = ck.numeric('delivered', HEADER_NUM, UNFOLD_NUM, num, shard=4)
    wrng = random.Random(ck.seed + 11)
    wider = (gen_regimen(wrng) for _ in range(ck.n(300, 3000)))
    if bad or badn:
        fails = [payload[b] for b in bad + badn]
        ck.settle('correspondence C10: Model/Dosing.v and chi differ on %s (first: %s)' % ((bad + badn)[:5], fails[0]),
                  fails, oracle, wider, key_of)
    elif ck.broken:
        ck.settle(ck.broken.pop(), [], oracle, wider, key_of)


def replay(ck, body):
    r = oracle(body['replay'])
    print('oracle:', r)
    return r is None
