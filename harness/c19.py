"""C19 — evaluations are pure: no hidden state, no input mutation, any process (partial: see DESIGN §7 C19).

Proof side: Properties/C19.v — the three pieces of state evaluation paths write to (value buffers of Reduced*
wrappers, the sensitivity switch of a log-likelihood, the solver object's carried-over state) cannot influence a later
evaluation.
Tie, on every run: for a zoo of real objects — error models, population models of every kind (reduced, covariate,
composed), LogLikelihood / LogPosterior (plain and with fixed parameters), HierarchicalLogLikelihood /
HierarchicalLogPosterior, PopulationFilterLogPosterior and its filter, SBML mechanistic models behind the solver
substitute, predictive models, the problem controller —
 * random interleavings of every evaluation entry point (value, pointwise values, value with sensitivities, seeded
   sampling) on one object and on sibling objects built from the same user models: every result must be bit-identical
   to the result of that entry point on a freshly built object;
 * results returned earlier are unchanged by later evaluations; every array / data frame passed in is unchanged;
 * after construction the user's own models are reconfigured (fixing, renaming, output selection, regimen, n_ids,
   sensitivities): objects built from them answer as before;
 * pints.ParallelEvaluator (forked workers) returns what pints.SequentialEvaluator returns.
The recorded solver calls of repeated simulations are compared with Model/Mechanistic.v through `simulate_calls`
preceded by the whole earlier call history (exact, vm_compute)."""
import copy
import random
import tempfile
import shutil

import numpy as np

from harness import core, c06, c09, c13, c14, c18, simsub
from harness.popspec import Sub
from harness.core import coq_list, coq_string, coqZ

THEOREMS = ['C19_buffers', 'C19_sensitivity_switch', 'C19_solver_history', 'C19_transcript_pure', 'C19_settings_pure']
HEADER = '''From Coq Require Import ZArith List Bool String.
From Chi Require Import Model.Mechanistic Model.Fixing Tie.C08Tie Tie.C09Tie.
Import ListNotations.
Open Scope string_scope.
Open Scope Z_scope.
(* after an arbitrary earlier call history, the calls of this simulate() are the model's calls, and the binding and
   the logged run are those of this call alone *)
Definition c19_history (ds dc outs : list string) (prev : list (call Z)) (th ts : list Z) (these : list (call Z)) : bool :=
  let m := {| decl_states := ds; decl_consts := dc |} in
  let mine := simulate_calls Z 0 (fun t => t + 16) m outs th ts in
  calls_eqb mine these &&
  match run_of Z (prev ++ mine) with
  | Some (du, lg, tms) => lstr_eqb lg outs && lZ_eqb tms ts
  | None => false
  end &&
  forallb (fun k => match assigned Z m (prev ++ mine) (nth k (parameter_names m) ""), nth_error th k with
                    | Some a, Some b => Z.eqb a b
                    | _, _ => false
                    end) (seq 0 (n_parameters m)).
'''


def freeze(x):
    """canonical, hashable, bit-exact form of a result"""
    import pandas as pd
    if isinstance(x, tuple) or isinstance(x, list):
        if len(x) > 1 and isinstance(x[0], (float, np.floating)) and x[0] == -np.inf:
            return ('-inf',)         # sensitivities of a -inf score are unspecified (chi returns uninitialised arrays)
        return tuple(freeze(y) for y in x)
    if isinstance(x, pd.DataFrame):
        return ('df', tuple(x.columns), tuple(tuple(repr(v) for v in row) for row in x.itertuples(index=False)))
    if isinstance(x, np.ndarray):
        return ('nd', x.shape, tuple(repr(float(v)) for v in x.ravel()))
    if isinstance(x, (float, np.floating)):
        return repr(float(x))
    return repr(x)


class Subject(object):
    """name; build() -> dict of objects (a fresh, independent world each time); ops: list of (label, fn(world) ->
    result); inputs(world) -> list of arrays / frames that must stay unchanged; mutate(world) -> None: reconfigure
    the USER's models after construction (the built objects must not notice)."""
    def __init__(self, name, build, ops, mutate=None, reconfigure=None):
        self.name, self.build, self.ops, self.mutate = name, build, ops, mutate
        # reconfigure(world): a configuration call on the BUILT object; afterwards it must behave like a freshly built
        # object to which the same call was applied before anything was evaluated
        self.reconfigure = reconfigure


# ------------------------------------------------------------------------------------------------
# the zoo
# ------------------------------------------------------------------------------------------------

def error_subject(rng):
    import chi
    case = c06.gen_err_case(rng)
    case['m'] = case['m'][:2] + [1.5]
    m = np.array(case['m'], dtype=float)
    y = m + 0.25
    S = np.array([[0.5, 1.0]] * len(m))

    def build():
        em = c06.err_model(case['kind'])
        params = list(case['params'])
        if case['fixed'] is not None:
            names = em.get_parameter_names()
            user = em
            em = chi.ReducedErrorModel(em)
            em.fix_parameters({names[case['fixed']]: params[case['fixed']]})
            params = [p for k, p in enumerate(params) if k != case['fixed']]
        else:
            user = em
        return {'em': em, 'p': np.array(params), 'm': m.copy(), 'y': y.copy(), 'S': S.copy(), 'user': user,
                'inputs': ['p', 'm', 'y', 'S']}
    ops = [('ll', lambda w: w['em'].compute_log_likelihood(w['p'], w['m'], w['y'])),
           ('pw', lambda w: w['em'].compute_pointwise_ll(w['p'], w['m'], w['y'])),
           ('s1', lambda w: w['em'].compute_sensitivities(w['p'], w['m'], w['S'], w['y'])),
           ('s1 elsewhere', lambda w: w['em'].compute_sensitivities(w['p'], w['m'] * 1.25, w['S'], w['y'])),
           ('pw elsewhere', lambda w: w['em'].compute_pointwise_ll(w['p'], w['m'] * 1.25, w['y'])),
           ('sample', lambda w: w['em'].sample(w['p'], w['m'], 3, seed=5))]
    return Subject('error model %s%s' % (case['kind'], '' if case['fixed'] is None else ' reduced'), build, ops)


def population_subject(rng):
    case = c06.gen_pop_case(rng)
    S = [Sub(**d) for d in case['subs']]
    n = 3
    for d in case['subs']:
        if d['kind'] == 'H':
            d['n_het'] = n
    S = [Sub(**d) for d in case['subs']]
    theta = []
    for s in S:
        if s.kind in ('G', 'LN', 'TG'):
            theta += [1.0 + 0.125 * k for k in range(s.nd)] + [0.5 + 0.125 * k for k in range(s.nd)]
        elif s.kind == 'P':
            theta += [0.75] * s.nd
        else:
            theta += [0.5 + 0.125 * k for k in range(s.n_het * s.nd)]
        theta += [0.0625] * (len(s.selection()) * s.n_cov())
    case.update(theta=theta, n=n)
    n_cov = sum(s.n_cov() for s in S)
    chis = np.array([[0.25 * (i + 1) + 0.5 * c for c in range(n_cov)] for i in range(n)]) if n_cov else None
    n_dim = sum(s.nd for s in S)
    X = np.array([[0.75 + 0.125 * i + 0.25 * d for d in range(n_dim)] for i in range(n)])

    def build():
        import chi
        m, _ = c06.pop_model(case)
        m.set_n_ids(n)
        th = np.array(theta)
        if case['fix_first']:
            name = m.get_parameter_names()[0]
            m = chi.ReducedPopulationModel(m)
            m.fix_parameters({name: theta[0]})
            th = th[1:]
        w = {'pop': m, 'th': th, 'X': X.copy(), 'inputs': ['th', 'X']}
        if chis is not None:
            w['chis'] = chis.copy()
            w['inputs'].append('chis')
        return w

    def kw(w):
        return {'covariates': w['chis']} if 'chis' in w else {}
    ops = [('ll', lambda w: w['pop'].compute_log_likelihood(w['th'], w['X'], **kw(w))),
           ('s1', lambda w: w['pop'].compute_sensitivities(w['th'], w['X'], **kw(w))),
           ('s1 reduced', lambda w: w['pop'].compute_sensitivities(w['th'], w['X'], reduce=True, **kw(w))),
           ('s1 elsewhere', lambda w: w['pop'].compute_sensitivities(w['th'], w['X'] * 1.0625, **kw(w))),
           ('psi elsewhere', lambda w: w['pop'].compute_individual_parameters(w['th'], w['X'] * 1.0625, **kw(w))),
           ('psi', lambda w: w['pop'].compute_individual_parameters(w['th'], w['X'], **kw(w))),
           ('ll other parameters', lambda w: w['pop'].compute_log_likelihood(w['th'] * 1.0625, w['X'], **kw(w))),
           ('sample other parameters', lambda w: w['pop'].sample(w['th'] * 1.125, n_samples=n, seed=9, **kw(w))),
           ('sample', lambda w: w['pop'].sample(w['th'], n_samples=n, seed=9, **kw(w))),
           ('sample seed 0', lambda w: w['pop'].sample(w['th'], n_samples=n, seed=0, **kw(w))),
           ('sample numpy seed', lambda w: w['pop'].sample(w['th'], n_samples=n, seed=np.int64(9), **kw(w))),
           # someone else uses the global generators in between (the op itself returns nothing random)
           ('global generators used', lambda w: (np.random.random(3), random.random(), True)[2])]
    return Subject('population model %s%s' % ('+'.join(s.describe() for s in S), ' reduced' if case['fix_first'] else ''),
                   build, ops)


def likelihood_subject(rng):
    import chi
    n_out = rng.choice([1, 2])
    fix_mech, fix_err = rng.random() < 0.5, rng.random() < 0.5
    user_reduced = rng.random() < 0.4          # the user's mechanistic model is itself a reduced model
    if user_reduced:
        fix_mech = False
    kinds = [rng.choice(['G', 'CMG', 'LN']) for _ in range(n_out)]
    times = [[0.5, 1.0, 2.0], [1.0, 2.0]][:n_out]
    obs = [[1.5, 2.5, 3.0], [2.0, 4.0]][:n_out]

    def build():
        from harness.toy import PolyToyModel
        import pints
        mech = PolyToyModel(2, n_out)
        if user_reduced:
            mech = chi.ReducedMechanisticModel(mech)
            mech.fix_parameters({'p1': 0.75})
        ems = []
        for k in kinds:
            em = c06.err_model(k)
            if fix_err and k == 'CMG':
                em = chi.ReducedErrorModel(em)
                em.fix_parameters({'Sigma rel.': 0.25})
            ems.append(em)
        ll = chi.LogLikelihood(mech, ems, [np.array(o) for o in obs], [np.array(t) for t in times])
        ll2 = chi.LogLikelihood(mech, ems, [np.array(o) for o in obs], [np.array(t) for t in times])
        if fix_mech:
            ll.fix_parameters({'p1': 0.75})
            ll2.fix_parameters({'p1': 0.75})
        n = ll.n_parameters()
        prior = pints.ComposedLogPrior(*[pints.GaussianLogPrior(1.0, 2.0) for _ in range(n)])
        post = chi.LogPosterior(ll, prior)
        x = np.array([0.75 + 0.125 * k for k in range(n)])
        return {'ll': ll, 'sibling': ll2, 'post': post, 'x': x, 'mech': mech, 'ems': ems, 'inputs': ['x']}
    ops = [('call', lambda w: w['ll'](w['x'])), ('s1', lambda w: w['ll'].evaluateS1(w['x'])),
           ('s1 elsewhere', lambda w: w['ll'].evaluateS1(w['x'] + 0.125)),
           ('pw', lambda w: w['ll'].compute_pointwise_ll(w['x'])),
           ('pw elsewhere', lambda w: w['ll'].compute_pointwise_ll(w['x'] + 0.125)),
           ('sibling call', lambda w: w['sibling'](w['x'])), ('sibling s1', lambda w: w['sibling'].evaluateS1(w['x'])),
           ('posterior', lambda w: w['post'](w['x'])), ('posterior s1', lambda w: w['post'].evaluateS1(w['x']))]

    def mutate(w):
        if user_reduced:
            w['mech'].fix_parameters({'p1': 5.0})
            w['mech'].fix_parameters({'p0': 2.0, 'p1': None})
        w['mech'].set_outputs(['out0'])
        w['mech'].enable_sensitivities(True)
        w['mech'].set_parameter_names({'p0': 'renamed'})
        for em in w['ems']:
            if isinstance(em, chi.ReducedErrorModel):
                em.fix_parameters({'Sigma rel.': 2.0, 'Sigma base': 3.0})
            em.set_parameter_names(None) if not isinstance(em, chi.ReducedErrorModel) else None
    swap = rng.random() < 0.5

    def reconfigure(w):
        if swap:                                   # release one parameter and fix another in ONE call
            w['ll'].fix_parameters({'p1': None, 'p0': 0.5})
        else:
            w['ll'].fix_parameters({'p1': 1.5})    # re-fix an already fixed parameter at another value
    return Subject('log-likelihood %s%s%s%s' % ('+'.join(kinds), ' fixed mech' if fix_mech else '',
                                                ' fixed error' if fix_err else '',
                                                ' user-reduced mech' if user_reduced else '') + (
                       ' swap' if swap and fix_mech else ''), build, ops, mutate,
                   reconfigure if fix_mech else None)


def hierarchical_subject(rng):
    case = c18.gen_case(rng, 1)
    case['ids'] = case['ids'][:case['n_ids']]

    def build():
        post, lls, S, pop = c18.build(case)
        from harness import c17
        x = np.array(c17.valid_vector(S, case['n_ids']), dtype=float)
        hll = post.get_log_likelihood()
        return {'post': post, 'hll': hll, 'x': x, 'pop': pop, 'lls': lls, 'inputs': ['x']}
    ops = [('call', lambda w: w['post'](w['x'])), ('s1', lambda w: w['post'].evaluateS1(w['x'])),
           ('s1 elsewhere', lambda w: w['post'].evaluateS1(w['x'] * 1.0625)),
           ('likelihood', lambda w: w['hll'](w['x'])), ('likelihood s1', lambda w: w['hll'].evaluateS1(w['x'])),
           ('individual 0', lambda w: w['lls'][0](np.array([1.0] * w['lls'][0].n_parameters())))]
    return Subject('hierarchical posterior %s x %d' % ('+'.join(Sub(**d).describe() for d in case['subs']), case['n_ids']),
                   build, ops)


def filter_subject(rng):
    case = c13.gen_case(rng)

    def build():
        post, prior, S, fixed = c13.build(case)
        v = np.array(c13.vector(case), dtype=float)
        x = v if fixed is None else np.delete(v, fixed)
        y = np.array(c13.simulated(case), dtype=float)
        return {'post': post, 'x': x, 'filt': post.get_log_likelihood(), 'y': y, 'inputs': ['x', 'y']}
    ops = [('call', lambda w: w['post'](w['x'])), ('s1', lambda w: w['post'].evaluateS1(w['x'])),
           ('s1 elsewhere', lambda w: w['post'].evaluateS1(w['x'] * 1.0625)),
           ('filter', lambda w: w['filt'].compute_log_likelihood(w['y'])),
           ('filter s1 elsewhere', lambda w: w['filt'].compute_sensitivities(w['y'] * 1.0625)),
           ('filter s1', lambda w: w['filt'].compute_sensitivities(w['y']))]
    return Subject('filter posterior %s' % case['fkind'], build, ops)


def mechanistic_subject(rng, tmp):
    import chi
    spec = {'source': 'library', 'name': c09.LIBRARY[rng.choice([0, 1])]} if rng.random() < 0.5 else \
        {'source': 'generated', 'xml_seed': rng.randrange(10 ** 6)}
    reduced = rng.random() < 0.4

    def build():
        from harness import c11
        m = c11.fresh(spec, tmp)
        w = c11.world(spec, tmp)
        if w['dosable']:
            m.set_administration(w['dosable'][0], direct=True)
            m.set_dosing_regimen(2.0, start=0.25, duration=0.5, period=1.0, num=2)
        c = m.copy()
        outer = m
        n = m.n_parameters()
        if reduced:
            outer = chi.ReducedMechanisticModel(m)
            outer.fix_parameters({m.parameters()[0]: 1.25})
            n -= 1
        x = np.array([(9 + 2 * k) / 16 for k in range(n)])
        return {'m': outer, 'inner': m, 'copy': c, 'x': x, 'full': np.array([(9 + 2 * k) / 16 for k in range(m.n_parameters())]),
                't': [0.25, 0.75, 1.5], 'inputs': ['x', 'full']}

    def sens(w, obj, x):
        obj.enable_sensitivities(True)
        r = obj.simulate(x, w['t'])
        obj.enable_sensitivities(False)
        return r
    ops = [('simulate', lambda w: w['m'].simulate(w['x'], w['t'])),
           ('simulate other times', lambda w: w['m'].simulate(w['x'], [0.5, 2.0])),
           ('simulate other vector', lambda w: w['m'].simulate(w['x'] + 0.5, w['t'])),
           ('simulate with sensitivities', lambda w: sens(w, w['m'], w['x'])),
           ('copy simulate', lambda w: w['copy'].simulate(w['full'], w['t']))]
    return Subject('mechanistic model %s%s' % (spec.get('name', spec.get('xml_seed')), ' reduced' if reduced else ''),
                   build, ops), spec


def predictive_subject(rng):
    import chi
    kinds = [rng.choice(['G', 'LN', 'CMG']) for _ in range(rng.choice([1, 2]))]

    def build():
        from harness.toy import PolyToyModel
        mech = PolyToyModel(2, len(kinds))
        ems = [c06.err_model(k) for k in kinds]
        pm = chi.PredictiveModel(mech, ems)
        n = pm.n_parameters()
        pop = chi.ComposedPopulationModel([chi.LogNormalModel(centered=False)] + [chi.PooledModel()] * (n - 1))
        ppm = chi.PopulationPredictiveModel(pm, pop)
        th = np.array([0.1, 0.25] + [0.5] * (n - 1))
        return {'pm': pm, 'ppm': ppm, 'p': np.array([1.0, 0.5] + [0.5] * (n - 2)), 'th': th, 'mech': mech, 'ems': ems,
                'pop': pop, 'times': np.array([2.0, 0.5, 1.0]), 'inputs': ['p', 'th', 'times']}
    ops = [('sample', lambda w: w['pm'].sample(w['p'], w['times'], n_samples=2, seed=3)),
           ('sample array', lambda w: w['pm'].sample(w['p'], w['times'], n_samples=2, seed=3, return_df=False)),
           ('population sample', lambda w: w['ppm'].sample(w['th'], w['times'], n_samples=3, seed=4, return_df=False))]

    def mutate(w):
        w['mech'].set_outputs(['out0'])
        w['mech'].set_parameter_names({'p0': 'renamed'})
    return Subject('predictive model %s' % '+'.join(kinds), build, ops, mutate)


def controller_subject(rng):
    case = c14.gen_case(rng)

    def build():
        df, keys = c14.frame(case)
        df0 = df.copy(deep=True)
        problem, observables, cov_map, fixed = c14.controller(case, df, keys)
        ps = c14.posteriors(case, problem)
        return {'problem': problem, 'ps': ps, 'df': df, 'df0': df0, 'inputs': []}

    def evaluate(w, k):
        p = w['ps'][k % len(w['ps'])]
        return c14.evaluate(p, c14.theta_for(p, case['seed']))
    ops = [('posterior 0', lambda w: evaluate(w, 0)), ('posterior last', lambda w: evaluate(w, -1)),
           ('rebuilt posterior', lambda w: c14.evaluate(c14.posteriors(case, w['problem'])[0],
                                                         c14.theta_for(c14.posteriors(case, w['problem'])[0], case['seed']))),
           ('invariant: the data frame passed to set_data is unchanged',
            lambda w: (list(w['df'].columns) == list(w['df0'].columns) and w['df'].equals(w['df0'])))]
    return Subject('problem controller', build, ops)


# ------------------------------------------------------------------------------------------------
# the check
# ------------------------------------------------------------------------------------------------

def snapshot(w):
    return {k: copy.deepcopy(w[k]) for k in w['inputs']}


def inputs_changed(w, snap):
    for k in w['inputs']:
        a, b = w[k], snap[k]
        same = a.equals(b) if hasattr(a, 'equals') else np.array_equal(np.asarray(a), np.asarray(b))
        if not same:
            return k
    return None


def check_subject(sub, rng, n_calls=14):
    refs, refs2 = {}, {}
    for label, fn in sub.ops:
        w = sub.build()
        refs[label] = freeze(fn(w))
        if sub.reconfigure is not None:
            w = sub.build()
            sub.reconfigure(w)
            refs2[label] = freeze(fn(w))
    w = sub.build()
    snap = snapshot(w)
    kept = []
    history = []
    for step in range(n_calls):
        if sub.mutate is not None and step == n_calls // 2:
            sub.mutate(w)
            history.append('<user models reconfigured>')
        forced = None
        if sub.reconfigure is not None and step == (2 * n_calls) // 3:
            # an evaluation with sensitivities right before and right after the reconfiguration (state that such an
            # evaluation leaves behind must not survive it)
            s1ops = [(la, f) for la, f in sub.ops if la.split()[-1] == 's1' or la.startswith('s1')]
            if s1ops:
                forced = rng.choice(s1ops)
                if freeze(forced[1](w)) != refs[forced[0]]:
                    return ('%s: "%s" after the calls %s returns a different result from the same call on a freshly '
                            'built object' % (sub.name, forced[0], history))
                history.append(forced[0])
            sub.reconfigure(w)
            refs = refs2
            kept = []
            history.append('<object reconfigured>')
        label, fn = forced if forced is not None else rng.choice(sub.ops)
        history.append(label)
        r = fn(w)
        if label.startswith('invariant:') and r is not True:
            return '%s: %s — violated after the calls %s' % (sub.name, label, history[:-1])
        if freeze(r) != refs[label]:
            return ('%s: "%s" after the calls %s returns a different result from the same call on a freshly built object'
                    % (sub.name, label, history[:-1]))
        k = inputs_changed(w, snap)
        if k:
            return '%s: "%s" modified its input %s' % (sub.name, label, k)
        for lab0, r0, f0 in kept:
            if freeze(r0) != f0:
                return '%s: the result returned by "%s" was changed by a later call of "%s"' % (sub.name, lab0, label)
        kept.append((label, r, refs[label]))
    return None


def parallel_check(rng):
    import pints
    case = c18.gen_case(rng, 1)
    post, lls, S, pop = c18.build(case)
    from harness import c17
    x = np.array(c17.valid_vector(S, case['n_ids']), dtype=float)
    xs = [x + 0.03125 * k for k in range(4)]
    seq = pints.SequentialEvaluator(post).evaluate(xs)
    par = pints.ParallelEvaluator(post, n_workers=2).evaluate(xs)
    again = pints.SequentialEvaluator(post).evaluate(xs)
    if [repr(float(a)) for a in seq] != [repr(float(a)) for a in par]:
        return 'pints.ParallelEvaluator returns %s, pints.SequentialEvaluator %s' % (list(par), list(seq))
    if [repr(float(a)) for a in seq] != [repr(float(a)) for a in again]:
        return 'sequential evaluation changed after a parallel evaluation'
    return None


def solver_history(spec, tmp, rng, exprs, label):
    """repeated simulations on one object through the recording solver: each simulate() must issue the model's calls
    whatever was issued before"""
    from harness import c11
    m = c11.fresh(spec, tmp)
    ds, dc, _, _ = c09.solver_view(m)
    sim = m._simulator
    n = m.n_parameters()
    for r in range(3):
        th = [rng.randint(8, 48) / 16 for _ in range(n)]
        ts = sorted(rng.sample(range(1, 49), rng.randint(1, 3)))
        ts = [t / 16 for t in ts]
        k0 = len(sim.calls)
        prev = [c for c in sim.calls[1:k0]]
        simsub.Simulation.dry = True
        try:
            m.simulate(np.array(th), ts)
        finally:
            simsub.Simulation.dry = False
        these = sim.calls[k0:]
        exprs.append((label, 'c19_history %s %s %s %s %s %s %s' % (
            coq_list(ds, coq_string), coq_list(dc, coq_string), coq_list(m._output_names, coq_string),
            coq_list(prev, lambda c: '(%s)' % c09.coq_call(c)),
            coq_list([c09.scaled(x) for x in th], coqZ), coq_list([c09.scaled(x) for x in ts], coqZ),
            coq_list(these, lambda c: '(%s)' % c09.coq_call(c)))))


MAKERS = [('error', error_subject), ('population', population_subject), ('likelihood', likelihood_subject),
          ('hierarchical', hierarchical_subject), ('filter', filter_subject), ('predictive', predictive_subject),
          ('controller', controller_subject)]


def oracle(case):
    rng = random.Random(case['seed'])
    tmp = tempfile.mkdtemp(prefix='c19_')
    try:
        c09.setup()
        if case['kind'] == 'mechanistic':
            sub, _ = mechanistic_subject(rng, tmp)
        elif case['kind'] == 'parallel':
            return parallel_check(rng)
        else:
            sub = dict(MAKERS)[case['kind']](rng)
        return check_subject(sub, rng)
    finally:
        shutil.rmtree(tmp, ignore_errors=True)


def key_of(case, what):
    return 'C19|%s' % case.get('kind', '')


def run(ck):
    c09.setup()
    tmp = tempfile.mkdtemp(prefix='c19_')
    exprs = []
    try:
        kinds = [k for k, _ in MAKERS] + ['mechanistic']
        for j in range(ck.n(8, 60)):
            for kind in kinds:
                seed = ck.rng.randrange(10 ** 9)
                case = {'kind': kind, 'seed': seed}
                rng = random.Random(seed)
                try:
                    if kind == 'mechanistic':
                        sub, spec = mechanistic_subject(rng, tmp)
                        solver_history(spec, tmp, random.Random(seed + 1), exprs, 'm%d' % j)
                    else:
                        sub = dict(MAKERS)[kind](rng)
                    d = check_subject(sub, rng)
                except Exception as e:
                    import traceback
                    d = '%s: raised %s: %s %s' % (kind, type(e).__name__, e, traceback.format_exc()[-300:])
                ck.count('subject ' + kind)
                ck.case(case)
                if d:
                    ck.violation(key_of(case, d), d, case)
        for j in range(ck.n(2, 6)):
            seed = ck.rng.randrange(10 ** 9)
            try:
                d = parallel_check(random.Random(seed))
            except Exception as e:
                d = 'parallel evaluation raised %s: %s' % (type(e).__name__, e)
            ck.count('parallel vs sequential evaluation')
            ck.case({'kind': 'parallel', 'seed': seed})
            if d:
                ck.violation('C19|parallel', d, {'kind': 'parallel', 'seed': seed})
        ck.cov['rule'] = ('8 kinds of subject (error / population models, log-likelihoods with fixed parameters and siblings, '
                          'hierarchical and filter posteriors, SBML models behind the solver substitute incl. reduced wrappers '
                          'and copies, predictive models, problem controller) x random configurations; 14 interleaved calls '
                          'per subject over all its evaluation entry points, user models reconfigured half-way; forked '
                          'pints.ParallelEvaluator vs sequential; distinct = distinct (kind, seed)')
        ck.log('exact route: %d simulate() histories' % len(exprs))
        bad = ck.exact('histories', HEADER, exprs, shard=60)
        wider = ({'kind': k, 'seed': ck.seed * 13 + j} for j in range(ck.n(4, 20)) for k in kinds)
        if bad:
            ck.settle('correspondence C19: Model/Mechanistic.v and the recorded solver calls differ on %s' % sorted(set(bad))[:5],
                      [], oracle, wider, key_of)
        elif ck.broken:
            ck.settle(ck.broken.pop(), [], oracle, wider, key_of)
    finally:
        shutil.rmtree(tmp, ignore_errors=True)


def replay(ck, body):
    r = oracle(body['replay'])
    print('oracle:', r)
    return r is None
