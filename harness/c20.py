"""C20 — figures faithfully render the supplied data and prediction bands.

Tie (exact, vm_compute): the plotly traces produced by chi's real plot classes (PD/PK time-series and
predictive plots) on generated long-format frames (string or integer IDs, several observables, interleaved dose
rows, missing values, custom column keys, duplicated / shuffled index) and on generated sample sets (unsorted
time grids, ties, 1-3 dyadic bulk probabilities) are compared with Model/Plots.v.  Frames must be unchanged.
Search / direct check: band limits are sample values at that time enclosing >= p of the samples, bands nested;
traces equal the hand-filtered rows."""
import math
import random

import numpy as np
import pandas as pd

from harness import core
from harness.core import coqZ, coq_list, coq_string

THEOREMS = ['C20_band_mass', 'C20_bands_nested', 'C20_polygon', 'C20_one_trace_per_individual', 'C20_trace_exact',
            'C20_dose_trace_exact', 'C20_polygon_values', 'C20_times_exact', 'C20_samples_exact',
            'C20_limits_order_free', 'C20_band_row_order_free']
HEADER = '''From Coq Require Import ZArith List Bool String.
From Chi Require Import Model.Plots Tie.C20Tie.
Import ListNotations.
Open Scope string_scope.
Open Scope Z_scope.
'''
VS, TS, DS, US = 8, 4, 2, 4    # scales of value, time, dose, duration
PROBS = [(1, 2), (3, 4), (1, 4), (7, 8), (1, 8), (5, 8), (15, 16)]


# ------------------------------------------------------------------------------------------------
# bands
# ------------------------------------------------------------------------------------------------

def gen_samples(rng):
    n_times = rng.choice([1, 2, 3, 4])
    times = rng.sample(range(0, 12), n_times)          # unsorted, unique
    rows = []
    heavy = rng.random() < 0.35          # censored data: a large share of the samples tied at one value
    for t in times:
        if heavy:
            n = rng.choice([8, 12, 16, 20])
            floor = rng.randint(-4, 4)
            k = rng.randint(n // 4, (3 * n) // 4)
            vals = [floor] * k + [floor + rng.randint(1, 30) for _ in range(n - k)]
            if rng.random() < 0.5:
                vals = [-v for v in vals]
            rng.shuffle(vals)
            rows += [(t, v) for v in vals]
            continue
        n = rng.choice([2, 3, 5, 8, 12])
        pool = [rng.randint(-16, 40) for _ in range(rng.choice([2, 3, n, n]))]
        for _ in range(n):
            rows.append((t, rng.choice(pool)))
    if rng.random() < 0.5:
        rng.shuffle(rows)      # interleave time points
    probs = rng.sample(PROBS, rng.choice([1, 2, 3]))
    return {'type': 'band', 'rows': rows, 'probs': probs, 'cls': rng.choice(['PD', 'PK']),
            'index': rng.choice(['range', 'dup', 'shuffled']), 'other_obs': rng.random() < 0.4}


def band_frame(case):
    rows = case['rows']
    df = pd.DataFrame({'ID': list(range(1, len(rows) + 1)), 'Time': [t / TS for t, _ in rows],
                       'Observable': ['obsA'] * len(rows), 'Value': [v / VS for _, v in rows]})
    if case['other_obs']:
        extra = pd.DataFrame({'ID': [1, 2], 'Time': [0.25, 99.0], 'Observable': ['zzz', 'zzz'],
                              'Value': [1000.0, -1000.0]})
        df = pd.concat([df.iloc[:1], extra, df.iloc[1:]])
    if case['cls'] == 'PK':
        df['Dose'] = np.nan
        df['Duration'] = np.nan
    return reindex(df, case['index'])


def reindex(df, mode):
    if mode == 'range':
        return df.reset_index(drop=True)
    if mode == 'dup':
        df = df.reset_index(drop=True)
        df.index = [i % 2 for i in range(len(df))]
        return df
    df = df.reset_index(drop=True)
    df.index = list(reversed(range(len(df))))
    return df


def run_band(case):
    import chi.plots as P
    df = band_frame(case)
    before = df.copy(deep=True)
    fig = P.PDPredictivePlot() if case['cls'] == 'PD' else P.PKPredictivePlot()
    fig.add_prediction(df, observable='obsA', bulk_probs=[a / b for a, b in case['probs']])
    if not df.equals(before) or list(df.index) != list(before.index):
        return {'mutated': True}
    out = {}
    for tr in fig._fig.data:
        if tr.text is not None and isinstance(tr.text, str) and tr.text.endswith(' Bulk'):
            p = float(tr.text.split()[0])
            out[p] = {'x': [float(v) for v in tr.x], 'y': [float(v) for v in tr.y]}
    return {'mutated': False, 'traces': out}


def band_exprs(case, res):
    rows = '[' + '; '.join('(%s, %s)' % (coqZ(t), coqZ(v)) for t, v in case['rows']) + ']'
    es = []
    for a, b in case['probs']:
        tr = res['traces'].get(a / b)
        if tr is None:
            return 'false'
        xs = coq_list([int(round(x * TS)) for x in tr['x']], coqZ)
        ys = coq_list(tr['y'], lambda y: 'None' if math.isnan(y) else '(Some %s)' % coqZ(int(round(y * VS))))
        es.append('(polygon_ok %s %d %d %s %s)' % (rows, a, b, xs, ys))
    return ' && '.join(es)


def band_oracle(case):
    """direct check of the property on the real figure"""
    res = run_band(case)
    if res.get('mutated'):
        return 'add_prediction modified the caller\'s data frame'
    times = []
    for t, _ in case['rows']:
        if t not in times:
            times.append(t)
    bands = {}
    for a, b in case['probs']:
        p = a / b
        tr = res['traces'].get(p)
        if tr is None:
            return 'no band trace for bulk probability %r' % p
        nt = len(times)
        if len(tr['x']) != 2 * nt or len(tr['y']) != 2 * nt:
            return 'band polygon for p=%r has %d/%d vertices for %d time points' % (p, len(tr['x']), len(tr['y']), nt)
        for k in range(nt):
            t = tr['x'][k]
            if tr['x'][2 * nt - 1 - k] != t:
                return 'polygon x-coordinates are not times followed by reversed times: %r' % tr['x']
            U, L = tr['y'][k], tr['y'][2 * nt - 1 - k]
            samples = [v / VS for tt, v in case['rows'] if tt / TS == t]
            if not samples:
                return 'band vertex at time %r where there are no samples' % t
            if math.isnan(U) or math.isnan(L):
                continue
            if U not in samples or L not in samples:
                return 'p=%r t=%r: band limits (%r, %r) are not sample values at that time' % (p, t, L, U)
            frac = sum(1 for s in samples if L <= s <= U) / len(samples)
            if frac < p - 1e-12:
                return 'p=%r t=%r: band [%r, %r] encloses only %r of the samples' % (p, t, L, U, frac)
            bands.setdefault(t, []).append((p, L, U))
        if sorted(set(tr['x'])) != sorted(t / TS for t in times):
            return 'band for p=%r is drawn over times %r, the samples have times %r' % (p, tr['x'], times)
    for t, bs in bands.items():
        bs.sort()
        for (p1, L1, U1), (p2, L2, U2) in zip(bs, bs[1:]):
            if not (L2 <= L1 and U1 <= U2):
                return 't=%r: bands for p=%r and p=%r are not nested: [%r,%r] vs [%r,%r]' % (t, p1, p2, L1, U1, L2, U2)
    return None


# ------------------------------------------------------------------------------------------------
# data traces
# ------------------------------------------------------------------------------------------------

def gen_frame(rng):
    str_ids = rng.random() < 0.5
    n_ids = rng.choice([1, 2, 3, 4])
    ids = rng.sample(['b7', 'a1', 'x 2', 'm', '10', '9'], n_ids) if str_ids else rng.sample([10, 9, 3, 1, 11], n_ids)
    observables = rng.sample(['obsA', 'obsB', 'cc'], rng.choice([1, 2, 3]))
    rows = []
    for i in ids:
        for o in observables:
            for _ in range(rng.choice([0, 1, 2, 3])):
                v = None if rng.random() < 0.12 else rng.randint(-8, 64)
                rows.append({'id': i, 't': rng.randint(0, 24), 'obs': o, 'v': v, 'dose': None, 'dur': None})
                if rng.random() < 0.15:
                    # a dose noted on a measurement row (of whichever observable): still a dose of this individual
                    rows[-1].update(dose=rng.randint(1, 20), dur=None if rng.random() < 0.4 else rng.randint(1, 8))
        for _ in range(rng.choice([0, 0, 1, 2])):
            rows.append({'id': i, 't': rng.randint(0, 24), 'obs': None, 'v': None, 'dose': rng.randint(1, 20),
                         'dur': None if rng.random() < 0.4 else rng.randint(1, 8)})
    rng.shuffle(rows)
    if not any(r['obs'] for r in rows):
        rows.append({'id': ids[0], 't': 1, 'obs': observables[0], 'v': 3, 'dose': None, 'dur': None})
    present = [o for o in observables if any(r['obs'] == o for r in rows)]
    keys = dict(zip(['id', 't', 'obs', 'v', 'dose', 'dur'],
                    ['ID', 'Time', 'Observable', 'Value', 'Dose', 'Duration'] if rng.random() < 0.5 else
                    ['subject', 'hours', 'what', 'conc', 'amt', 'len']))
    return {'type': 'frame', 'rows': rows, 'observable': rng.choice(present + [None]), 'keys': keys,
            'cls': rng.choice(['PDTimeSeriesPlot', 'PKTimeSeriesPlot', 'PDPredictivePlot', 'PKPredictivePlot']),
            'index': rng.choice(['range', 'dup', 'shuffled']), 'extra_col': rng.random() < 0.3}


def frame_of(case):
    k = case['keys']
    nan = float('nan')
    rows = case['rows']
    df = pd.DataFrame({
        k['id']: [r['id'] for r in rows],
        k['t']: [r['t'] / TS for r in rows],
        k['obs']: [r['obs'] if r['obs'] is not None else nan for r in rows],
        k['v']: [r['v'] / VS if r['v'] is not None else nan for r in rows],
        k['dose']: [r['dose'] / DS if r['dose'] is not None else nan for r in rows],
        k['dur']: [r['dur'] / US if r['dur'] is not None else nan for r in rows]})
    if case['extra_col']:
        df['note'] = ['n%d' % i for i in range(len(rows))]
    return reindex(df, case['index'])


def first_observable(case):
    for r in case['rows']:
        if r['obs'] is not None:
            return r['obs']


def run_frame(case):
    import chi.plots as P
    df = frame_of(case)
    before = df.copy(deep=True)
    k = case['keys']
    fig = getattr(P, case['cls'])()
    kw = dict(id_key=k['id'], time_key=k['t'], obs_key=k['obs'], value_key=k['v'])
    pk = case['cls'].startswith('PK')
    if pk:
        kw.update(dose_key=k['dose'], dose_duration_key=k['dur'])
    fig.add_data(df, observable=case['observable'], **kw)
    if not df.equals(before) or list(df.index) != list(before.index):
        return {'mutated': True}
    biom, dose = [], []
    for tr in fig._fig.data:
        name = tr.name or ''
        if not name.startswith('ID: '):
            continue
        xs = [float(v) for v in (tr.x if tr.x is not None else [])]
        ys = [float(v) for v in (tr.y if tr.y is not None else [])]
        if pk and tr.showlegend is False:
            txt = list(tr.text) if tr.text is not None else []
            dose.append((name[4:], xs, ys, txt))
        else:
            biom.append((name[4:], xs, ys))
    return {'mutated': False, 'biom': biom, 'dose': dose, 'pk': pk}


def zopt(v, scale):
    return 'None' if v is None or (isinstance(v, float) and math.isnan(v)) else '(Some %s)' % coqZ(int(round(v * scale)))


def frame_exprs(case, res):
    S = coq_string
    rows = '[' + '; '.join(
        '{| rid := %s; rtime := %s; robs := %s; rval := %s; rdose := %s; rdur := %s |}' % (
            S(str(r['id'])), coqZ(r['t']), 'None' if r['obs'] is None else '(Some %s)' % S(r['obs']),
            'None' if r['v'] is None else '(Some %s)' % coqZ(r['v']),
            'None' if r['dose'] is None else '(Some %s)' % coqZ(r['dose']),
            'None' if r['dur'] is None else '(Some %s)' % coqZ(r['dur'])) for r in case['rows']) + ']'
    obs = case['observable'] or first_observable(case)
    eb = '[' + '; '.join('(%s, [%s])' % (S(i), '; '.join(
        '(%s, %s)' % (coqZ(int(round(x * TS))), zopt(y, VS)) for x, y in zip(xs, ys))) for i, xs, ys in res['biom']) + ']'
    e = 'biom_ok %s %s %s' % (S(obs), rows, eb)
    if res['pk']:
        def dur_of(t):
            s = str(t).replace('Dose duration: ', '')
            return None if s == 'nan' else float(s)
        ed = '[' + '; '.join('(%s, [%s])' % (S(i), '; '.join(
            '(%s, %s, %s)' % (coqZ(int(round(x * TS))), zopt(y, DS), zopt(dur_of(t), US))
            for x, y, t in zip(xs, ys, txt))) for i, xs, ys, txt in res['dose']) + ']'
        e = '(%s) && (dose_ok %s %s %s)' % (e, S(obs), rows, ed)
    return e


def frame_oracle(case):
    res = run_frame(case)
    if res.get('mutated'):
        return 'add_data modified the caller\'s data frame'
    obs = case['observable'] or first_observable(case)
    ids = []
    for r in case['rows']:
        if r['obs'] == obs and str(r['id']) not in ids:
            ids.append(str(r['id']))
    got = {i: (xs, ys) for i, xs, ys in res['biom']}
    if sorted(got) != sorted(ids) or len(res['biom']) != len(ids):
        return 'marker traces for individuals %r, the observable %r has individuals %r' % (
            [i for i, _, _ in res['biom']], obs, ids)
    for i in ids:
        exp = [(r['t'] / TS, r['v'] / VS if r['v'] is not None else float('nan'))
               for r in case['rows'] if r['obs'] == obs and str(r['id']) == i]
        have = list(zip(*got[i]))
        if len(exp) != len(have) or any(a[0] != b[0] or not (a[1] == b[1] or (math.isnan(a[1]) and math.isnan(b[1])))
                                        for a, b in zip(exp, have)):
            return 'trace of individual %r holds %r, its (time, value) pairs of %r are %r' % (i, have, obs, exp)
    if res['pk']:
        gd = {i: (xs, ys) for i, xs, ys, _ in res['dose']}
        for i in ids:
            exp = [(r['t'] / TS, r['dose'] / DS) for r in case['rows'] if r['dose'] is not None and str(r['id']) == i]
            have = list(zip(*gd.get(i, ([], []))))
            if exp != have:
                return 'dose panel of individual %r holds %r, its dose rows are %r' % (i, have, exp)
    return None


def oracle(case):
    return band_oracle(case) if case['type'] == 'band' else frame_oracle(case)


def key_of(case, what):
    return 'C20|%s|%s' % (case['type'], case.get('cls'))


def run(ck):
    n_band, n_frame = ck.n(150, 2500), ck.n(150, 2500)
    exprs, payload = [], {}
    for i in range(n_band + n_frame):
        case = gen_samples(ck.rng) if i < n_band else gen_frame(ck.rng)
        label = 'p%d' % i
        try:
            res = run_band(case) if case['type'] == 'band' else run_frame(case)
        except Exception as e:
            ck.violation(key_of(case, ''), 'chi raised %s: %s' % (type(e).__name__, e), case)
            continue
        ck.count('type=%s/%s' % (case['type'], case['cls']))
        ck.count('index=%s' % case['index'])
        if case['type'] == 'band':
            ck.count('ties' if any(len(set(v for t, v in case['rows'] if t == tt)) <
                                   len([v for t, v in case['rows'] if t == tt]) for tt, _ in case['rows']) else 'no ties')
            ck.count('n_probs=%d' % len(case['probs']))
        if res.get('mutated'):
            ck.violation(key_of(case, ''), 'plotting modified the caller\'s data frame', case)
            continue
        ck.case(case)
        exprs.append((label, band_exprs(case, res) if case['type'] == 'band' else frame_exprs(case, res)))
        payload[label] = case
    ck.cov['rule'] = ('bands: 1-4 unsorted time points, 2-12 samples each drawn with ties from small pools, rows '
                      'optionally interleaved, 1-3 dyadic bulk probabilities, PD and PK predictive plots, frames with '
                      'range / duplicated / reversed index and rows of another observable; traces: 1-4 individuals '
                      '(string or integer IDs), 1-3 observables, interleaved dose rows, missing values, default or '
                      'custom column keys, four plot classes; distinct = distinct case')
    ck.log('exact route: %d figures' % len(exprs))
    bad = ck.exact('figures', HEADER, exprs, shard=100)
    wrng = random.Random(ck.seed + 3)
    wider = ((gen_samples(wrng) if j % 2 else gen_frame(wrng)) for j in range(ck.n(400, 4000)))
    if bad:
        ck.settle('correspondence C20: Model/Plots.v and chi differ on %s (first: %s)' % (bad[:5], payload[bad[0]]),
                  [payload[b] for b in bad], oracle, wider, key_of)
    elif ck.broken:
        ck.settle(ck.broken.pop(), [], oracle, wider, key_of)


def replay(ck, body):
    r = oracle(body['replay'])
    print('oracle:', r)
    return r is None
