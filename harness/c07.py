"""C07 — covariate models shift the selected population parameters linearly.

Tie (exact, vm_compute): the normalised selection and coefficient count of real CovariatePopulationModel objects
after set_population_parameters with reordered / duplicated selections vs Model/Covariate.v.
Tie (certified numeric): log-likelihood, individual parameters and sensitivities (separate and hierarchical form)
vs the term-level model with `cov_shift` (harness/popspec.py), by CoqInterval.
Direct checks: names identify (parameter, dimension, covariate); the model equals the underlying model evaluated
per individual at the shifted parameters; zero coefficients / covariates give the underlying model."""
import math
import random

import numpy as np

from harness import core, c05, popspec
from harness.core import coq_list
from harness.popspec import Sub

THEOREMS = ['C07_zero_coefficients', 'C07_zero_covariates', 'C07_dtheta0', 'C07_dbeta', 'C07_chain_dbeta',
            'C07_selection_canonical', 'C07_selection_exact', 'C07_selection_NoDup', 'C07_beta_position',
            'C07_beta_range']
HEADER_EXACT = '''From Coq Require Import ZArith List Bool Arith.
From Chi Require Import Model.Covariate Tie.C07Tie.
Import ListNotations.
'''


def gen_case(rng):
    kind = rng.choice(['G', 'G', 'LN', 'LN', 'P', 'H'])
    nd = rng.choice([1, 2, 2, 3])
    centered = rng.random() < 0.5
    n_ids = rng.choice([1, 2, 3])
    n_cov = rng.choice([1, 2, 2, 3])
    sub = Sub(kind, nd, centered, n_het=n_ids if kind == 'H' else None)
    rows = sub.n_rows()
    allp = [(p, d) for p in range(rows) for d in range(nd)]
    mode = rng.choice(['default', 'random', 'random', 'random'])
    sel = None
    if mode == 'random':
        k = rng.randint(1, min(3, len(allp)))
        sel = rng.sample(allp, k)
        if rng.random() < 0.4:
            sel = sel + [rng.choice(sel)]
        rng.shuffle(sel)
    subd = {'kind': kind, 'nd': nd, 'centered': centered, 'n_het': n_ids if kind == 'H' else None,
            'cov': {'n_cov': n_cov, 'sel': sel}}
    S = [Sub(**subd)]
    base = Sub(kind, nd, centered, n_het=subd['n_het'])
    theta, X, U = c05.gen_values(rng, [base], n_ids)
    betas = [core.dyadic(rng, -8, 8, 16) for _ in range(len(S[0].selection()) * n_cov)]
    zero = rng.choice(['none', 'none', 'none', 'beta', 'chi'])
    if zero == 'beta':
        betas = [0.0] * len(betas)
    chis = [[core.dyadic(rng, -8, 16, 8) for _ in range(n_cov)] for _ in range(n_ids)]
    if zero == 'chi':
        chis = [[0.0] * n_cov for _ in range(n_ids)]
    if kind in ('G', 'LN'):
        # stay inside the support: every shifted standard deviation must be positive
        for _ in range(12):
            if all(S[0].par_value(theta + betas, 1, d, i, chis[i]) >= 0.125 for i in range(n_ids) for d in range(nd)):
                break
            betas = [b / 2 for b in betas]
    if kind in ('P', 'H') and zero == 'none':
        # point masses: the bottom values must equal the shifted parameters
        for i in range(n_ids):
            for d in range(nd):
                X[i][d] = S[0].par_value(theta + betas, S[0].het_row(i), d, i, chis[i])
    return {'sub': subd, 'n_ids': n_ids, 'theta': theta + betas, 'X': X, 'U': U if rng.random() < 0.7 else None,
            'chis': chis, 'zero': zero}


def run_chi(case):
    s = Sub(**case['sub'])
    m = s.build()
    par = np.array(case['theta'], dtype=float)
    X = np.array(case['X'], dtype=float)
    C = np.array(case['chis'], dtype=float)
    U = None if case['U'] is None else np.array(case['U'], dtype=float)
    out = {'n_parameters': int(m.n_parameters()), 'names': list(m.get_parameter_names()),
           'cov_names': list(m.get_covariate_names())}
    pidx, didx = m._covariate_model.get_set_population_parameters()
    out['selection'] = [(int(p), int(d)) for p, d in zip(pidx, didx)]
    base = Sub(s.kind, s.nd, s.centered, n_het=s.n_het).build()
    out['base_names'] = list(base.get_parameter_names())
    if hasattr(m, 'set_n_ids'):
        m.set_n_ids(case['n_ids'])
    out['ll'] = float(m.compute_log_likelihood(par, X, C))
    out['psi'] = np.asarray(m.compute_individual_parameters(par, X, C), dtype=float).tolist()
    r = m.compute_sensitivities(par, X, C, dlogp_dpsi=None if U is None else U.copy())
    out['sens'] = (float(r[0]), np.asarray(r[1], dtype=float).tolist(), np.asarray(r[2], dtype=float).tolist())
    r = m.compute_sensitivities(par, X, C, dlogp_dpsi=None if U is None else U.copy(), reduce=True)
    out['reduce'] = (float(r[0]), np.asarray(r[1], dtype=float).tolist())
    return out


def sampling_check(case):
    """sampling: row k is drawn from the underlying model at the parameters shifted by covariate row k (rows of the
    individuals interleaved: A, B, C, A, B, C, ...)"""
    from scipy import stats
    s = Sub(**case['sub'])
    n, reps = case['n_ids'], 240
    theta = case['theta']
    for v in [s.par_value(theta, 1, d, i, case['chis'][i]) for i in range(n) for d in range(s.nd)] if s.kind in ('G', 'LN') else []:
        if v <= 0:
            return None
    m = s.build()
    if hasattr(m, 'set_n_ids'):
        m.set_n_ids(n)
    C = np.array([case['chis'][k % n] for k in range(reps * n)], dtype=float)
    x = np.asarray(m.sample(np.array(theta, dtype=float), n_samples=reps * n, seed=case.get('seed', 5), covariates=C),
                   dtype=float)
    if x.shape != (reps * n, s.nd):
        return 'sample(n_samples=%d) with one covariate row per sample has shape %s' % (reps * n, x.shape)
    for d in range(s.nd):
        if s.kind == 'P':
            want = np.array([s.par_value(theta, 0, d, k % n, case['chis'][k % n]) for k in range(reps * n)])
            if not np.allclose(x[:, d], want, rtol=1e-12, atol=1e-12):
                return 'samples of a pooled dimension are not the pooled value shifted by the covariates of their own row'
        elif s.kind == 'H':
            # sample k is the shifted value of SOME individual's row, every row about equally often
            rows = [[s.par_value(theta, r, d, k % n, case['chis'][k % n]) for r in range(n)] for k in range(reps * n)]
            which = [next((r for r in range(n) if abs(x[k, d] - rows[k][r]) <= 1e-12 * (1 + abs(rows[k][r]))), None)
                     for k in range(reps * n)]
            if any(w is None for w in which):
                return 'a sample of a heterogeneous dimension is none of the individuals\' values shifted by its own covariates'
            clear = [k for k in range(reps * n) if len(set(round(v, 9) for v in rows[k])) == n]
            if n > 1 and len(clear) >= 200:
                cnt = [sum(1 for k in clear if which[k] == r) for r in range(n)]
                tot = len(clear)
                if min(cnt) < tot / n - 6 * math.sqrt(tot * (1 / n) * (1 - 1 / n)):
                    return 'heterogeneous samples pick the individuals with frequencies %r out of %d' % (cnt, tot)
        elif s.centered:
            z = []
            for k in range(reps * n):
                mu = s.par_value(theta, 0, d, k % n, case['chis'][k % n])
                sg = s.par_value(theta, 1, d, k % n, case['chis'][k % n])
                if s.kind == 'LN' and x[k, d] <= 0:
                    return 'a log-normal sample is not positive'
                z.append(((math.log(x[k, d]) if s.kind == 'LN' else x[k, d]) - mu) / sg)
            if stats.kstest(z, 'norm').pvalue < 1e-6:
                return ('samples standardised with the parameters shifted by the covariates of their own row are not '
                        'standard normal (KS p = %.2e)' % stats.kstest(z, 'norm').pvalue)
        elif stats.kstest(x[:, d], 'norm').pvalue < 1e-6:
            return 'samples of a non-centred dimension are not standard normal'
    return None


def direct_checks(case, res):
    d = sampling_check(case)
    if d:
        return d
    s = Sub(**case['sub'])
    n_pop, n_cov = s.n_pop(), s.n_cov()
    sel = s.selection()
    if res['selection'] != sel:
        return 'selection %r is normalised to %r, expected %r' % (case['sub']['cov']['sel'], res['selection'], sel)
    if res['n_parameters'] != n_pop + len(sel) * n_cov or len(res['names']) != res['n_parameters']:
        return 'n_parameters()=%d with %d names; expected %d + %d x %d' % (
            res['n_parameters'], len(res['names']), n_pop, len(sel), n_cov)
    for k, (p, d) in enumerate(sel):
        for c in range(n_cov):
            name = res['names'][n_pop + k * n_cov + c]
            want = res['base_names'][p * s.nd + d] + ' ' + res['cov_names'][c]
            if name != want:
                return 'coefficient %d acts on parameter (%d, %d) and covariate %d but is named %r (expected %r)' % (
                    n_pop + k * n_cov + c, p, d, c, name, want)
    # the model = the underlying model evaluated per individual at the shifted parameters
    base = Sub(s.kind, s.nd, s.centered, n_het=s.n_het).build()
    base.set_n_ids(1) if s.kind != 'H' else None
    theta = case['theta']
    tot = 0.0
    for i in range(case['n_ids']):
        rows = s.n_rows()
        vt = np.array([[s.par_value(theta, p, d, i, case['chis'][i]) for d in range(s.nd)] for p in range(rows)])
        if s.kind == 'H':
            one = float(0.0 if all(case['X'][i][d] == vt[i][d] for d in range(s.nd)) else -math.inf)
        else:
            one = float(base.compute_log_likelihood(vt.flatten(), np.array([case['X'][i]], dtype=float)))
        tot += one
    if (tot == -math.inf) != (res['ll'] == -math.inf) or (tot != -math.inf and core.relerr(res['ll'], tot) > 1e-11):
        return 'log-likelihood %r; the underlying model evaluated per individual at the shifted parameters gives %r' % (
            res['ll'], tot)
    if case['zero'] != 'none':
        b = Sub(s.kind, s.nd, s.centered, n_het=s.n_het).build()
        b.set_n_ids(case['n_ids'])
        v = float(b.compute_log_likelihood(np.array(theta[:n_pop]), np.array(case['X'], dtype=float)))
        if (v == -math.inf) != (res['ll'] == -math.inf) or (v != -math.inf and core.relerr(res['ll'], v) > 1e-11):
            return 'with all %s zero the log-likelihood is %r, the underlying model gives %r' % (
                'coefficients' if case['zero'] == 'beta' else 'covariates', res['ll'], v)
        psi = np.asarray(b.compute_individual_parameters(np.array(theta[:n_pop]), np.array(case['X'], dtype=float)))
        if not np.allclose(psi, np.array(res['psi']), rtol=1e-12, atol=0):
            return 'with all %s zero the individual parameters are %r, the underlying model gives %r' % (
                case['zero'], res['psi'], psi.tolist())
    # individual parameters: every individual through ITS OWN shifted population parameters
    want = [[s.psi_value(theta, i, d, case['X'][i][d], case['chis'][i]) if (not s.centered or s.special())
             else case['X'][i][d] for d in range(s.nd)] for i in range(case['n_ids'])]
    if not np.allclose(np.array(res['psi'], dtype=float), np.array(want, dtype=float), rtol=1e-10, atol=1e-12):
        return ('individual parameters %r; transforming every individual with its own covariate-shifted population '
                'parameters gives %r' % (res['psi'], want))
    return None


def expected(case):
    s = Sub(**case['sub'])
    theta, X, U, n, chis = case['theta'], case['X'], case['U'], case['n_ids'], case['chis']
    score, ok = popspec.score_expr([s], theta, X, chis)
    us = None if U is None else [[core.coqR(v) for v in row] for row in U]
    dpsi = [[s.dbottom_expr(theta, i, d, X[i][d], us[i][d] if us else None, chis[i]) for d in range(s.nd)]
            for i in range(n)]
    psi = [[s.psi_expr(theta, i, d, X[i][d], chis[i]) if (not s.centered or s.special()) else core.coqR(X[i][d])
            for d in range(s.nd)] for i in range(n)]
    dtheta = None if s.special() else s.dtheta_flat_exprs(theta, X, us, chis)
    return {'score': score, 'ok': ok, 'dpsi': dpsi, 'psi': psi, 'dtheta': dtheta}


def props(case, res, exp):
    s = Sub(**case['sub'])
    flat = lambda a: [v for row in a for v in row]
    scores = [res['ll'], res['sens'][0], res['reduce'][0]]
    if not exp['ok']:
        return None if all(v == -math.inf for v in scores) else 'point mass violated but the score is %r' % scores
    if not all(math.isfinite(v) for v in scores):
        return 'all point masses are satisfied and the parameters are inside the support, but the scores are %r' % scores
    tol = lambda v: core.coqR(core.frac(1e-9) * (1 + abs(core.frac(v))))
    out = ['close %s %s %s' % (exp['score'], core.coqR(v), tol(v)) for v in scores]
    out.append(c05.vec_goal(flat(exp['psi']), flat(res['psi'])))
    out.append(c05.vec_goal(flat(exp['dpsi']), flat(res['sens'][1])))
    if exp['dtheta'] is not None:
        out.append(c05.vec_goal(exp['dtheta'], res['sens'][2]))
        out.append(c05.vec_goal(flat(exp['dpsi']) + exp['dtheta'], res['reduce'][1]))
    return out


def oracle(case):
    res = run_chi(case)
    d = direct_checks(case, res)
    if d:
        return d
    s = Sub(**case['sub'])
    if s.special() or res['ll'] == -math.inf:
        return None
    m = s.build()
    m.set_n_ids(case['n_ids'])
    theta0, X0, C = np.array(case['theta'], dtype=float), np.array(case['X'], dtype=float), np.array(case['chis'], dtype=float)
    U = np.zeros_like(X0) if case['U'] is None else np.array(case['U'], dtype=float)

    def total(theta, X):
        psi = np.asarray(m.compute_individual_parameters(theta, X, C), dtype=float)
        return float(m.compute_log_likelihood(theta, X, C)) + float(np.sum(U * psi))

    def fd(f):
        h = 1e-4
        return (4 * (f(h / 2) - f(-h / 2)) / h - (f(h) - f(-h)) / (2 * h)) / 3
    red = np.asarray(res['reduce'][1], dtype=float)
    n_b = X0.size
    if len(red) != n_b + len(theta0):
        return 'hierarchical sensitivities have length %d, expected %d' % (len(red), n_b + len(theta0))
    for k in range(len(red)):
        def f(e, k=k):
            X, th = X0.copy(), theta0.copy()
            if k < n_b:
                X[k // X0.shape[1], k % X0.shape[1]] += e
            else:
                th[k - n_b] += e
            return total(th, X)
        g = fd(f)
        if abs(g - red[k]) > 1e-5 * (1 + abs(g)):
            return 'sensitivity %d (%s) is %r, finite differences give %r' % (
                k, 'individual' if k < n_b else res['names'][k - n_b], float(red[k]), g)
    return None


def key_of(case, what):
    return 'C07|%s' % Sub(**case['sub']).describe()


def run(ck):
    exact, cases, payload = [], [], {}
    for i in range(ck.n(70, 900)):
        case = gen_case(ck.rng)
        label = 'v%d' % i
        s = Sub(**case['sub'])
        try:
            res = run_chi(case)
            d = direct_checks(case, res)
        except Exception as e:
            ck.violation(key_of(case, ''), 'chi raised %s: %s' % (type(e).__name__, e), case)
            continue
        ck.count('underlying=%s%s' % (s.kind, '' if s.centered else 'nc'))
        ck.count('n_cov=%d' % s.n_cov())
        ck.count('selection=%s' % ('default' if case['sub']['cov']['sel'] is None else 'custom'))
        ck.count('zero=%s' % case['zero'])
        if d:
            ck.violation(key_of(case, ''), d, case)
            continue
        ck.case({'sub': s.describe(), 'n_ids': case['n_ids'], 'theta': case['theta'], 'chis': case['chis']})
        sel_in = case['sub']['cov']['sel']
        if sel_in is None:
            sel_in = [(p, d) for d in range(s.nd) for p in range(s.n_rows())]     # chi's default enumeration
        P = lambda l: coq_list(l, lambda pd: '(%d, %d)%%nat' % (pd[0], pd[1]))
        exact.append((label, 'c07_case %d %d %s %s %d' % (s.nd, s.n_cov(), P(sel_in), P(res['selection']),
                                                          res['n_parameters'] - s.n_pop())))
        payload[label] = case
        exp = expected(case)
        pr = props(case, res, exp)
        if isinstance(pr, str):
            ck.violation(key_of(case, ''), pr, case)
        elif pr is not None and (i % 2 == 0 or not Sub(**case['sub']).centered):
            cases.append((label, pr))
    ck.cov['rule'] = ('covariate models over Gaussian / log-normal (centred and non-centred), pooled and heterogeneous '
                      'underlying models, n_dim 1-3, 1-3 covariates, default or random selections (reordered, with '
                      'duplicates), 1-3 individuals, zero coefficients / covariates in 40% of the cases; distinct = '
                      'distinct case')
    ck.log('exact route: %d selections; certifying %d cases' % (len(exact), len(cases)))
    bad = ck.exact('selection', HEADER_EXACT, exact, shard=200)
    badn = ck.numeric('covariate', c05.HEADER, c05.UNFOLD, cases, shard=4)
    wrng = random.Random(ck.seed + 17)
    wider = (gen_case(wrng) for _ in range(ck.n(200, 2000)))
    if bad or badn:
        fails = [payload[b] for b in bad + badn]
        ck.settle('correspondence C07: model and chi differ on %s (first: %s)' % ((bad + badn)[:5], fails[0]),
                  fails, oracle, wider, key_of)
    elif ck.broken:
        ck.settle(ck.broken.pop(), [], oracle, wider, key_of)


def replay(ck, body):
    r = oracle(body['replay'])
    print('oracle:', r)
    return r is None
