"""C17 — parameter counts, names, vector lengths and gradient lengths always agree.

Tie (exact, vm_compute): for compositions of population sub-models (all kinds, n_dim 1-2, covariate wrappers with
default / custom selections; exhaustive over pairs in the thorough tier) and 1-3 individuals, the counts, the
special-dimension ranges and the ID pattern of real ComposedPopulationModel / HierarchicalLogLikelihood /
HierarchicalLogPosterior objects are compared with Model/Layout.v.
Direct checks: names are pairwise distinct once prefixed by their ID and are the concatenation of the sub-model
names; the likelihood can be evaluated at a vector of the reported length and returns a gradient of that length;
after reconfiguration histories (set_n_ids, set_dim_names, set_parameter_names, fix_parameters,
set_population_parameters) number of names = n_parameters."""
import itertools
import math
import random

import numpy as np

from harness import core, popspec
from harness.core import coq_list
from harness.popspec import Sub

THEOREMS = ['C17_lengths', 'C17_ids_mark_bottom', 'C17_special_count', 'C17_names_unique',
            'C17_nested_reports', 'C17_nested_gradient', 'C17_nested_gradient_length', 'C17_nesting_is_flat',
            'C17_nested_old_code_refuted', 'C17_flat_old_code_agrees', 'C17_n_ids_uniform',
            'C17_n_ids_uniform_after_set', 'C17_old_constructor_refuted']
HEADER = '''From Coq Require Import List Arith Bool.
From Chi Require Import Model.Layout Model.Nested Tie.C17Tie.
Import ListNotations.
'''
KCOQ = {'G': 'KGauss', 'LN': 'KLogNormal', 'TG': 'KTrunc', 'P': 'KPooled', 'H': 'KHetero'}


def coq_sub(s):
    cov = 'None'
    if s.cov:
        cov = '(Some (%d, %s))' % (s.n_cov(), coq_list(s.selection(), lambda pd: '(%d, %d)' % pd))
    return '{| sk := %s; sdim := %d; scov := %s |}' % (KCOQ[s.kind], s.nd, cov)


def all_subs(n_ids, small=False):
    out = []
    for kind in ('G', 'LN', 'TG', 'P', 'H'):
        for nd in (1, 2):
            for centered in ((True, False) if kind in ('G', 'LN') else (True,)):
                for cov in (None, 'default', 'custom'):
                    if small and cov == 'custom' and nd == 2:
                        continue
                    d = {'kind': kind, 'nd': nd, 'centered': centered, 'n_het': n_ids if kind == 'H' else None}
                    if cov == 'default':
                        d['cov'] = {'n_cov': 1, 'sel': None}
                    elif cov == 'custom':
                        d['cov'] = {'n_cov': 2, 'sel': [[0, nd - 1], [0, 0], [0, nd - 1]]}
                    out.append(d)
    return out


def gen_comp(rng, n_ids):
    subs = rng.sample(all_subs(n_ids), rng.choice([1, 2, 2, 3, 4]))
    return subs


def build_hll(subs, n_ids, posterior=False, bare=False, nest=None):
    import chi, pints
    from harness.toy import PolyToyModel
    S = [Sub(**d) for d in subs]
    n_dim = popspec.total_dims(S)
    pop = S[0].build() if bare else popspec.compose(S, nest)
    lls = []
    for i in range(n_ids):
        ll = chi.LogLikelihood(PolyToyModel(max(n_dim - 1, 1) if n_dim > 1 else 1), chi.GaussianErrorModel(),
                               [1.0 + i, 2.0], [0.5, 1.5]) if n_dim > 1 else None
        lls.append(ll)
    if n_dim == 1:
        return None, pop, S
    n_cov = sum(s.n_cov() for s in S)
    cov = np.array([[0.25 * (i + 1) + 0.5 * c for c in range(n_cov)] for i in range(n_ids)]) if n_cov else None
    h = chi.HierarchicalLogLikelihood(lls, pop, cov)
    if posterior:
        n_top = h.n_parameters(exclude_bottom_level=True)
        prior = pints.ComposedLogPrior(*[pints.UniformLogPrior(0, 10) for _ in range(n_top)])
        h = chi.HierarchicalLogPosterior(h, prior)
    return h, pop, S


def valid_vector(S, n_ids):
    bottom = []
    for i in range(n_ids):
        for s in S:
            if not s.special():
                bottom += [0.5 + 0.125 * i + 0.25 * d if s.centered else 0.125 * (d - i) for d in range(s.nd)]
    top = []
    for s in S:
        if s.kind in ('G', 'LN', 'TG'):
            top += [0.75 + 0.125 * d for d in range(s.nd)] + [0.5 + 0.25 * d for d in range(s.nd)]
        elif s.kind == 'P':
            top += [0.625 + 0.125 * d for d in range(s.nd)]
        else:
            top += [0.5 + 0.125 * (i + d) for i in range(s.n_het) for d in range(s.nd)]
        top += [0.0625] * (len(s.selection()) * s.n_cov())
    return bottom + top


def observe(subs, n_ids, posterior, bare=False, nest=None):
    h, pop, S = build_hll(subs, n_ids, posterior, bare=bare, nest=nest)
    if h is None:
        return None
    ids = h.get_id()
    uniq = h.get_id(unique=True)
    pat = [None if x is None else uniq.index(x) for x in ids]
    names = h.get_parameter_names()
    names_id = h.get_parameter_names(include_ids=True)
    top_names = h.get_parameter_names(exclude_bottom_level=True)
    sp, n_pooled, n_het = pop.get_special_dims()
    out = {'n_parameters': int(h.n_parameters()), 'n_names': len(names), 'n_top': int(h.n_parameters(True)),
           'n_top_names': len(top_names), 'n_dim': int(pop.n_dim()), 'pattern': pat,
           'special': [(int(e[0]), int(e[1])) for e in sp], 'names_id': names_id,
           'pop_names': list(pop.get_parameter_names()), 'names': names}
    out['top_names'] = list(top_names)
    out['top_names_id'] = list(h.get_parameter_names(exclude_bottom_level=True, include_ids=True))
    v = np.array(valid_vector(S, n_ids))
    out['vector_len'] = len(v)
    if len(v) == out['n_parameters']:
        out['score'] = float(h(v))
        s1, g = h.evaluateS1(v)
        out['grad_len'] = len(np.asarray(g).ravel())
        out['s1'] = float(s1)
        if posterior:
            # a point the prior rejects (a population parameter outside its support): still one entry per parameter
            w = v.copy()
            w[-1] = -1.0
            s1, g = h.evaluateS1(w)
            out['rejected'] = (float(s1), len(np.asarray(g).ravel()))
    return out


def direct(subs, n_ids, obs):
    S = [Sub(**d) for d in subs]
    if obs['n_names'] != obs['n_parameters'] or len(obs['pattern']) != obs['n_parameters']:
        return 'n_parameters()=%d, %d names, %d IDs' % (obs['n_parameters'], obs['n_names'], len(obs['pattern']))
    if obs['n_top_names'] != obs['n_top']:
        return 'exclude_bottom_level: %d names for %d parameters' % (obs['n_top_names'], obs['n_top'])
    if obs['vector_len'] != obs['n_parameters']:
        return 'the documented layout (bottom entries of the non-special dimensions per individual, then the ' \
               'population parameters) has %d entries, n_parameters() reports %d' % (obs['vector_len'], obs['n_parameters'])
    if obs.get('grad_len') != obs['n_parameters']:
        return 'evaluateS1 returns a gradient of length %r for %d parameters' % (obs.get('grad_len'), obs['n_parameters'])
    if 'rejected' in obs and obs['rejected'][1] != obs['n_parameters']:
        return 'evaluateS1 at a point outside the support of the prior (score %r) returns a gradient of length %d for %d ' \
               'parameters' % (obs['rejected'][0], obs['rejected'][1], obs['n_parameters'])
    n_bottom = obs['n_parameters'] - obs['n_top']
    if obs['top_names'] != obs['names'][n_bottom:] or obs['top_names_id'] != obs['names_id'][n_bottom:]:
        return ('the names with exclude_bottom_level=True are %r (with include_ids: %r); the population-level part of '
                'the full lists is %r (%r)' % (obs['top_names'], obs['top_names_id'], obs['names'][n_bottom:],
                                               obs['names_id'][n_bottom:]))
    if len(set(obs['names_id'])) != len(obs['names_id']):
        dup = [n for n in obs['names_id'] if obs['names_id'].count(n) > 1]
        return 'names prefixed by their IDs are not distinct: %r' % dup[:4]
    if obs['names'][obs['n_parameters'] - obs['n_top']:] != obs['pop_names']:
        return 'top-level names %r are not the population model names %r' % (
            obs['names'][obs['n_parameters'] - obs['n_top']:], obs['pop_names'])
    exp = []
    for s in S:
        exp += list(s.build().get_parameter_names())
    if len(exp) != len(obs['pop_names']):
        return 'composite has %d names, its sub-models %d' % (len(obs['pop_names']), len(exp))
    return None


def reconfigure(rng):
    """random reconfiguration history on a population model; returns (description, failure or None)"""
    import chi
    n_ids = rng.choice([1, 2, 3])
    subs = gen_comp(rng, n_ids)
    S = [Sub(**d) for d in subs]
    pop = chi.ComposedPopulationModel([s.build() for s in S])
    pop.set_n_ids(n_ids)
    obj, ops = pop, []
    for _ in range(rng.choice([1, 2, 3, 4])):
        op = rng.choice(['set_n_ids', 'dim_names', 'dim_names_none', 'par_names_none', 'par_names', 'reduce_fix',
                         'release', 'selection'])
        try:
            if op == 'set_n_ids':
                n_ids = rng.choice([1, 2, 3, 4])
                obj.set_n_ids(n_ids)
            elif op == 'dim_names':
                obj.set_dim_names(['dn%d' % k for k in range(obj.n_dim())])
            elif op == 'dim_names_none':
                obj.set_dim_names(None)
            elif op == 'par_names_none':
                obj.set_parameter_names(None)
            elif op == 'par_names':
                obj.set_parameter_names(['pn%d' % k for k in range(obj.n_parameters())])
            elif op == 'reduce_fix':
                if not isinstance(obj, chi.ReducedPopulationModel):
                    obj = chi.ReducedPopulationModel(obj)
                names = obj.get_parameter_names()
                if names:
                    obj.fix_parameters({rng.choice(names): 0.5})
            elif op == 'release':
                if isinstance(obj, chi.ReducedPopulationModel):
                    full = obj.get_population_model().get_parameter_names()
                    obj.fix_parameters({rng.choice(full): None})
            elif op == 'selection':
                inner = obj.get_population_model() if isinstance(obj, chi.ReducedPopulationModel) else obj
                cands = [m for m in inner.get_population_models() if isinstance(m, chi.CovariatePopulationModel)]
                if cands and not isinstance(obj, chi.ReducedPopulationModel):
                    m = rng.choice(cands)
                    m.set_population_parameters([[0, 0]])
                    obj = chi.ComposedPopulationModel(inner.get_population_models())
                    obj.set_n_ids(n_ids)
        except Exception as e:
            return {'subs': subs, 'ops': ops + [op]}, 'operation %s raised %s: %s' % (op, type(e).__name__, e)
        ops.append(op)
        names = obj.get_parameter_names()
        if op == 'par_names_none' and not isinstance(obj, chi.ReducedPopulationModel):
            # default names = the names of a freshly built model with the same dimension names
            fresh = chi.ComposedPopulationModel([Sub(**d).build() for d in subs])
            fresh.set_n_ids(n_ids)
            try:
                fresh.set_dim_names(obj.get_dim_names())
                if 'selection' not in ops and fresh.get_parameter_names() != names:
                    return {'subs': subs, 'ops': ops}, 'after %r the default names are %r; a fresh model with ' \
                        'the same dimension names has %r' % (ops, names, fresh.get_parameter_names())
            except ValueError:
                pass
        if len(names) != obj.n_parameters():
            return {'subs': subs, 'ops': ops}, 'after %r: n_parameters()=%d but %d names' % (
                ops, obj.n_parameters(), len(names))
        nb, nt = obj.n_hierarchical_parameters(n_ids)
        if nt != obj.n_parameters():
            return {'subs': subs, 'ops': ops}, 'after %r: n_hierarchical_parameters reports %d population ' \
                                               'parameters, n_parameters() %d' % (ops, nt, obj.n_parameters())
    return {'subs': subs, 'ops': ops}, None


def reconfigure_mech(rng):
    """fix / release / sensitivity histories on a reduced mechanistic model and on a likelihood: the sensitivity
    width and gradient length must equal the reported number of parameters"""
    import chi
    from harness.toy import ToyModel
    on_ll = rng.random() < 0.5
    ops = []
    if on_ll:
        obj = chi.LogLikelihood(ToyModel(2), [chi.GaussianErrorModel(), chi.ConstantAndMultiplicativeGaussianErrorModel()],
                                [[1.0, 2.0], [1.5]], [[0.5, 1.0], [2.0]])
    else:
        obj = chi.ReducedMechanisticModel(ToyModel(2))
    for _ in range(rng.choice([1, 2, 3, 4])):
        names_all = obj.get_parameter_names() if on_ll else obj.parameters()
        op = rng.choice(['fix', 'fix', 'release_all', 'sens_on', 'sens_off', 'eval'])
        if op == 'fix' and names_all:
            obj.fix_parameters({rng.choice(names_all): 0.75})
        elif op == 'release_all':
            full = ['p0', 'p1', 'p2'] + (['out0 Sigma', 'out1 Sigma base', 'out1 Sigma rel.'] if on_ll else [])
            obj.fix_parameters({n: None for n in rng.sample(full, rng.randint(1, len(full)))})
        elif op == 'sens_on' and not on_ll:
            obj.enable_sensitivities(True)
        elif op == 'sens_off' and not on_ll:
            obj.enable_sensitivities(False)
        ops.append(op)
        n = obj.n_parameters()
        names = obj.get_parameter_names() if on_ll else obj.parameters()
        if len(names) != n:
            return {'mech': on_ll, 'ops': ops}, 'after %r: n_parameters()=%d, %d names' % (ops, n, len(names))
        v = [0.5 + 0.25 * k for k in range(n)]
        if on_ll:
            s, g = obj.evaluateS1(v)
            if len(g) != n:
                return {'mech': on_ll, 'ops': ops}, 'after %r: gradient of length %d for %d parameters' % (ops, len(g), n)
        elif obj.has_sensitivities():
            out, sens = obj.simulate(v, [0.5, 1.5])
            if sens.shape[2] != n:
                return {'mech': on_ll, 'ops': ops}, 'after %r: sensitivities of shape %r for %d parameters' % (
                    ops, sens.shape, n)
    return {'mech': on_ll, 'ops': ops}, None


def reconfigure_stack(rng):
    """a likelihood, predictive model or problem controller built on a reduced mechanistic model, queried repeatedly
    and reconfigured: number of parameters = number of names (all distinct) = length of the evaluated vector, for
    the object and for the mechanistic model underneath, and asking does not change the answer"""
    import chi
    from harness.toy import ToyModel
    kind = rng.choice(['ll', 'pred', 'ctrl'])
    red = chi.ReducedMechanisticModel(ToyModel(2))
    ops = []
    pre = rng.choice(['fresh', 'fresh', 'fixed and released', 'one fixed'])
    if pre != 'fresh':
        red.fix_parameters({'p1': 0.75})
        if pre == 'fixed and released':
            red.fix_parameters({'p1': None})
    ops.append(pre)
    ems = [chi.GaussianErrorModel(), chi.ConstantAndMultiplicativeGaussianErrorModel()]
    if rng.random() < 0.35:
        ems = [rng.choice(ems)] * 2          # one error model object for both outputs
        ops.append('shared error model object')
    if kind == 'll':
        obj = chi.LogLikelihood(red, ems, [[1.0, 2.0], [1.5]], [[0.5, 1.0], [2.0]])
    elif kind == 'pred':
        obj = chi.PredictiveModel(red, ems)
    else:
        obj = chi.ProblemModellingController(red, ems)
    count = (lambda: obj.get_n_parameters()) if kind == 'ctrl' else (lambda: obj.n_parameters())
    for step in range(rng.choice([2, 3, 4, 5])):
        op = rng.choice(['query', 'query', 'fix', 'release', 'evaluate'])
        names = list(obj.get_parameter_names())
        try:
            if op == 'fix' and len(names) > 1:
                obj.fix_parameters({rng.choice(names): 0.75})
            elif op == 'release':
                obj.fix_parameters({n: None for n in rng.sample(names, rng.randint(1, len(names)))})
        except Exception as e:
            return {'kind': kind, 'ops': ops + [op]}, 'after %r, %s raised %s: %s' % (ops, op, type(e).__name__, e)
        ops.append(op)
        first, second, n = list(obj.get_parameter_names()), list(obj.get_parameter_names()), count()
        if first != second:
            return {'kind': kind, 'ops': ops}, 'after %r two successive name queries give %r and %r' % (ops, first, second)
        if len(first) != n or len(set(first)) != n:
            return {'kind': kind, 'ops': ops}, 'after %r: %d parameters, names %r' % (ops, n, first)
        m = obj.get_submodels()['Mechanistic model'] if hasattr(obj, 'get_submodels') else None
        for mm in (m, red):
            if mm is not None and (len(mm.parameters()) != mm.n_parameters() or len(set(mm.parameters())) != mm.n_parameters()):
                return {'kind': kind, 'ops': ops}, 'after %r the mechanistic model reports %d parameters, names %r' % (
                    ops, mm.n_parameters(), mm.parameters())
        if op == 'evaluate' or step == 0:
            v = [0.5 + 0.25 * k for k in range(n)]
            try:
                if kind == 'll':
                    _, g = obj.evaluateS1(v)
                    if len(g) != n:
                        return {'kind': kind, 'ops': ops}, 'after %r: gradient of length %d for %d parameters' % (ops, len(g), n)
                elif kind == 'pred':
                    obj.sample(v, [0.5, 1.0], n_samples=2, seed=1)
            except Exception as e:
                return {'kind': kind, 'ops': ops}, 'after %r a vector of the reported length %d is refused: %s: %s' % (
                    ops, n, type(e).__name__, e)
    return {'kind': kind, 'ops': ops}, None


# ------------------------------------------------------------------------------------------------
# compositions of compositions (Model/Nested.v)
# ------------------------------------------------------------------------------------------------

def gen_recipe(rng, n_het, depth=0):
    """('L', kind, nd, n) or ('N', [children]); heterogeneous leaves are built with n_het or 1 individuals"""
    if depth >= 3 or (depth > 0 and rng.random() < 0.55):
        kind = rng.choice(['G', 'LN', 'P', 'H', 'H'])
        return ('L', kind, rng.choice([1, 1, 2]), rng.choice([1, n_het, n_het]) if kind == 'H' else 1)
    return ('N', [gen_recipe(rng, n_het, depth + 1) for _ in range(rng.choice([1, 2, 2, 3]))])


def build_recipe(r):
    import chi
    if r[0] == 'L':
        _, kind, nd, n = r
        if kind == 'H':
            return chi.HeterogeneousModel(n_dim=nd, n_ids=n)
        return {'G': chi.GaussianModel, 'LN': chi.LogNormalModel, 'P': chi.PooledModel}[kind](n_dim=nd)
    return chi.ComposedPopulationModel([build_recipe(c) for c in r[1]])


def coq_recipe(r):
    if r[0] == 'L':
        return '(RLeaf %s %d)' % (core.coq_bool(r[1] == 'H'), r[3])
    return '(RNode %s)' % coq_list(r[1], coq_recipe)


def coq_obj(m):
    import chi
    if isinstance(m, chi.ComposedPopulationModel):
        return '(ONode %d %s)' % (m.n_ids(), coq_list(m.get_population_models(), coq_obj))
    return '(OLeaf %s %d)' % (core.coq_bool(isinstance(m, chi.HeterogeneousModel)), m.n_ids())


def coq_tree(r):
    if r[0] == 'L':
        kind = {'G': 'KGauss', 'LN': 'KLogNormal', 'P': 'KPooled', 'H': 'KHetero'}[r[1]]
        return '(Leaf {| sk := %s; sdim := %d; scov := None |})' % (kind, r[2])
    return '(Node %s)' % coq_list(r[1], coq_tree)


def leaves(m):
    import chi
    if isinstance(m, chi.ComposedPopulationModel):
        return [x for c in m.get_population_models() for x in leaves(c)]
    return [m]


def nested_case(rng):
    """returns (description, [coq bool expressions]) for one random nesting"""
    import chi
    n_het = rng.choice([2, 3])
    r = gen_recipe(rng, n_het)
    m = build_recipe(r)
    after_build = coq_obj(m)
    k = rng.choice([1, 2, 3, 4, n_het])
    m.set_n_ids(k)
    after_set = coq_obj(m)
    exprs = ['c17_nids %s %s %d %s' % (coq_recipe(r), after_build, k, after_set)]
    sp = [(int(e[0]), int(e[1])) for e in m.get_special_dims()[0]]
    exprs.append('c17_nested %d %s %d %d %d %s' % (k, coq_tree(r), m.n_dim(), m.n_parameters(),
                                                   m.n_hierarchical_dim(), coq_list(sp, lambda x: '(%d, %d)' % x)))
    # hierarchical sensitivities: every leaf on its own slices, then the nested object; floats -> tags
    n_dim, n_par = m.n_dim(), m.n_parameters()
    theta = np.array([0.5 + 0.125 * j + 0.03125 * (j % 3) for j in range(n_par)])
    X = np.array([[0.75 + 0.25 * i + 0.0625 * d for d in range(n_dim)] for i in range(k)])
    # point masses must hold for finite sensitivities: copy pooled / heterogeneous values into X
    d0 = p0 = 0
    for leaf in leaves(m):
        nd, npar = leaf.n_dim(), leaf.n_parameters()
        if isinstance(leaf, chi.PooledModel):
            X[:, d0:d0 + nd] = theta[p0:p0 + npar]
        elif isinstance(leaf, chi.HeterogeneousModel):
            X[:, d0:d0 + nd] = theta[p0:p0 + npar].reshape(k, nd)
        d0, p0 = d0 + nd, p0 + npar
    U = np.array([[1.0 + 0.5 * i - 0.25 * d for d in range(n_dim)] for i in range(k)])
    tags = {}

    def tag(x):
        return tags.setdefault(float(x), len(tags))

    def dleaf(leaf, d0, p0):
        nd, npar = leaf.n_dim(), leaf.n_parameters()
        _, ds = leaf.compute_sensitivities(theta[p0:p0 + npar], X[:, d0:d0 + nd], dlogp_dpsi=U[:, d0:d0 + nd].copy(),
                                           reduce=True)
        ds = np.asarray(ds, dtype=float)
        nb, _ = leaf.n_hierarchical_parameters(k)
        rows = ds[:nb].reshape(k, nb // k) if nb else [[] for _ in range(k)]
        return '(DLeaf nat %d %s %s)' % (nd, coq_list(rows, lambda row: coq_list([tag(x) for x in row])),
                                         coq_list([tag(x) for x in ds[nb:]]))

    def dtree(obj, d0, p0):
        if isinstance(obj, chi.ComposedPopulationModel):
            parts = []
            for c in obj.get_population_models():
                parts.append(dtree(c, d0, p0))
                d0, p0 = d0 + c.n_dim(), p0 + c.n_parameters()
            return '(DNode nat %s)' % coq_list(parts)
        return dleaf(obj, d0, p0)
    t = dtree(m, 0, 0)
    score, ds = m.compute_sensitivities(theta, X, dlogp_dpsi=U.copy(), reduce=True)
    if math.isfinite(score):
        observed = [tags.get(float(x), 10 ** 6) for x in np.asarray(ds, dtype=float)]
        exprs.append('c17_red %d %s %s' % (k, t, coq_list(observed)))
        nb, nt = m.n_hierarchical_parameters(k)
        if len(ds) != nb + nt:
            exprs.append('false')
    return {'recipe': repr(r), 'k': k}, exprs


def oracle(case):
    if case.get('type') == 'nested':
        import chi
        r = eval(case['recipe'])
        flat_leaves = []

        def walk(x):
            if x[0] == 'L':
                flat_leaves.append(x)
            else:
                for c in x[1]:
                    walk(c)
        walk(r)
        k = case['k']
        m, f = build_recipe(r), chi.ComposedPopulationModel([build_recipe(x) for x in flat_leaves])
        m.set_n_ids(k)
        f.set_n_ids(k)
        if (m.n_dim(), m.n_parameters(), m.n_hierarchical_dim()) != (f.n_dim(), f.n_parameters(), f.n_hierarchical_dim()):
            return 'nested composition %s reports (n_dim, n_parameters, n_hierarchical_dim) = %r, the flat composition of ' \
                   'its leaves %r' % (r, (m.n_dim(), m.n_parameters(), m.n_hierarchical_dim()),
                                      (f.n_dim(), f.n_parameters(), f.n_hierarchical_dim()))
        bad = [x.n_ids() for x in leaves(m) if isinstance(x, chi.HeterogeneousModel) and x.n_ids() != k]
        if bad:
            return 'after set_n_ids(%d) on the nested composition %s heterogeneous leaves model %r individuals' % (k, r, bad)
        theta = np.array([0.5 + 0.125 * j for j in range(m.n_parameters())])
        X = np.array([[0.75 + 0.25 * i + 0.0625 * d for d in range(m.n_dim())] for i in range(k)])
        d0 = p0 = 0
        for leaf in leaves(m):
            nd, npar = leaf.n_dim(), leaf.n_parameters()
            if isinstance(leaf, chi.PooledModel):
                X[:, d0:d0 + nd] = theta[p0:p0 + npar]
            elif isinstance(leaf, chi.HeterogeneousModel):
                X[:, d0:d0 + nd] = theta[p0:p0 + npar].reshape(k, nd)
            d0, p0 = d0 + nd, p0 + npar
        try:
            a = m.compute_sensitivities(theta, X, reduce=True)
            b = f.compute_sensitivities(theta, X, reduce=True)
        except Exception as e:
            return 'hierarchical sensitivities of the nested composition %s for %d individuals: %s: %s' % (
                r, k, type(e).__name__, e)
        if abs(a[0] - b[0]) > 1e-12 * (1 + abs(b[0])) or not np.allclose(a[1], b[1], rtol=1e-12, atol=1e-12):
            return 'nested composition %s: hierarchical sensitivities %r, flat composition of its leaves %r' % (
                r, np.asarray(a[1]).tolist(), np.asarray(b[1]).tolist())
        return None
    if case.get('type') == 'reconf_stack':
        return reconfigure_stack(random.Random(case['seed']))[1]
    if case.get('type') == 'reconf':
        return reconfigure(random.Random(case['seed']))[1]
    if case.get('type') == 'reconf_mech':
        return reconfigure_mech(random.Random(case['seed']))[1]
    try:
        obs = observe(case['subs'], case['n_ids'], case.get('posterior', False), case.get('bare', False),
                      case.get('nest'))
    except Exception as e:
        return 'chi raised %s: %s' % (type(e).__name__, e)
    return None if obs is None else direct(case['subs'], case['n_ids'], obs)


def key_of(case, what):
    if case.get('type') == 'reconf':
        return 'C17|reconfiguration'
    if case.get('type') == 'nested':
        return 'C17|nested'
    return 'C17|%s' % '+'.join(Sub(**d).describe() for d in case['subs'])


def run(ck):
    comps = []
    if ck.thorough():
        for n_ids in (1, 2, 3):
            subs = all_subs(n_ids, small=True)
            for a in subs:
                for b in subs:
                    comps.append(([a, b], n_ids))
        ck.cov['exhaustive'] = True
    for _ in range(ck.n(140, 600)):
        n_ids = ck.rng.choice([1, 2, 3])
        comps.append((gen_comp(ck.rng, n_ids), n_ids))
    exprs, payload = [], {}
    for i, (subs, n_ids) in enumerate(comps):
        # a single model is also used on its own, not wrapped in a ComposedPopulationModel
        case = {'subs': subs, 'n_ids': n_ids, 'posterior': i % 3 == 0, 'bare': len(subs) == 1 and i % 2 == 0,
                'nest': [i % (len(subs) - 1), len(subs)] if len(subs) > 1 and i % 5 == 4 else None}
        S = [Sub(**d) for d in subs]
        try:
            obs = observe(subs, n_ids, case['posterior'], case['bare'], case['nest'])
        except Exception as e:
            ck.violation(key_of(case, ''), 'chi raised %s: %s' % (type(e).__name__, e), case)
            continue
        if obs is None:
            continue
        ck.count('n_sub=%d' % len(subs))
        ck.count('n_ids=%d' % n_ids)
        for s in S:
            ck.count('kind=%s%s' % (s.kind, '+cov' if s.cov else ''))
        d = direct(subs, n_ids, obs)
        if d:
            ck.violation(key_of(case, ''), d, case)
            continue
        ck.case({'comp': [s.describe() for s in S], 'n_ids': n_ids, 'n_parameters': obs['n_parameters']})
        label = 'l%d' % i
        pat = coq_list(obs['pattern'], lambda x: 'None' if x is None else '(Some %d)' % x)
        exprs.append((label, 'c17_case %d %s %d %d %d %d %s %s' % (
            n_ids, coq_list(S, coq_sub), obs['n_parameters'], obs['n_names'], obs['n_top'], obs['n_dim'], pat,
            coq_list(obs['special'], lambda r: '(%d, %d)' % r))))
        payload[label] = case
    for j in range(ck.n(80, 800)):
        seed = ck.seed * 31 + j
        desc, fail = reconfigure(random.Random(seed))
        ck.count('reconfiguration histories')
        ck.case({'reconfiguration': desc})
        if fail:
            ck.violation('C17|reconfiguration', fail, {'type': 'reconf', 'seed': seed})
    for j in range(ck.n(120, 800)):
        seed = ck.seed * 37 + j
        try:
            desc, fail = reconfigure_mech(random.Random(seed))
        except Exception as e:
            desc, fail = {'seed': seed}, 'chi raised %s: %s' % (type(e).__name__, e)
        ck.count('mechanistic/likelihood reconfiguration histories')
        ck.case({'reconfiguration_mech': desc})
        if fail:
            ck.violation('C17|reconfiguration_mech', fail, {'type': 'reconf_mech', 'seed': seed})
    for j in range(ck.n(120, 800)):
        seed = ck.seed * 41 + j
        try:
            desc, fail = reconfigure_stack(random.Random(seed))
        except Exception as e:
            desc, fail = {'seed': seed}, 'chi raised %s: %s' % (type(e).__name__, e)
        ck.count('likelihood / predictive model / controller on a reduced mechanistic model')
        ck.case({'reconfiguration_stack': desc})
        if fail:
            ck.violation('C17|reconfiguration_stack', fail, {'type': 'reconf_stack', 'seed': seed})
    nested, npayload = [], {}
    for j in range(ck.n(150, 1500)):
        seed = ck.seed * 43 + j
        case = {'type': 'nested', 'seed': seed}
        try:
            desc, ex = nested_case(random.Random(seed))
        except Exception as e:
            ck.violation('C17|nested', 'chi raised %s: %s' % (type(e).__name__, e), case)
            continue
        case.update(desc)
        ck.count('nested compositions')
        ck.case({'nested': desc})
        for q, e in enumerate(ex):
            nested.append(('n%d_%d' % (j, q), e))
            npayload['n%d_%d' % (j, q)] = case
    ck.log('exact route: %d nested-composition expressions' % len(nested))
    nbad = ck.exact('nested', HEADER, nested, shard=150)
    if nbad:
        nw = random.Random(ck.seed + 23)

        def wider_nested():
            for _ in range(ck.n(200, 1500)):
                sd = nw.randrange(10 ** 9)
                try:
                    d, _ = nested_case(random.Random(sd))
                except Exception:
                    d = None
                if d:
                    yield dict(d, type='nested', seed=sd)
        ck.settle('correspondence C17: Model/Nested.v and chi differ on %s (first: %s)' % (nbad[:5], npayload[nbad[0]]),
                  [npayload[b] for b in nbad], oracle, wider_nested(), key_of)
    ck.cov['rule'] = ('compositions of 1-4 sub-models drawn from 5 kinds x n_dim 1-2 x centred flag x {no covariates, '
                      'default selection, custom selection with duplicates} (thorough: all ordered pairs, exhaustive), '
                      '1-3 individuals, as HierarchicalLogLikelihood or HierarchicalLogPosterior, evaluated with '
                      'sensitivities; reconfiguration histories of 1-4 operations; distinct = distinct composition')
    ck.log('exact route: %d compositions' % len(exprs))
    bad = ck.exact('layout', HEADER, exprs, shard=150)
    wrng = random.Random(ck.seed + 19)
    wider = ({'subs': gen_comp(wrng, n), 'n_ids': n} for n in (wrng.choice([1, 2, 3]) for _ in range(ck.n(200, 1500))))
    if bad:
        ck.settle('correspondence C17: Model/Layout.v and chi differ on %s (first: %s)' % (bad[:5], payload[bad[0]]),
                  [payload[b] for b in bad], oracle, wider, key_of)
    elif ck.broken:
        ck.settle(ck.broken.pop(), [], oracle, wider, key_of)


def replay(ck, body):
    r = oracle(body['replay'])
    print('oracle:', r)
    return r is None
