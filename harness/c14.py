"""C14 — the problem controller builds exactly the posterior the dataset describes.

Tie (exact, vm_compute): random long-format datasets (1-4 individuals, integer or string IDs whose alphabetical and
first-appearance orders differ, 1-2 mapped observables, unbalanced sampling, interleaved dose / covariate / junk
rows, missing values, extra columns, custom keys) given to real ProblemModellingController objects.  What the
controller hands to chi.LogLikelihood / chi.HierarchicalLogLikelihood — per individual, in order: ID, (time, value)
pairs per output, the regimen of the mechanistic model, the covariate row — is captured by recording subclasses
installed by the harness and compared with Model/Problem.v's `routed` evaluated on the same rows.
Direct property check (also the search oracle): the controller's posterior must return the same value and gradient
as a posterior assembled by hand from an independent pass over the rows; and it must not change under unrelated
rows / columns / observables, missing-value rows, the ID data type, or any rearrangement of rows that keeps the
first-appearance order of IDs and every individual's own row order."""
import copy
import random

import numpy as np
import pandas as pd

from harness import core
from harness.core import coq_list, coq_string, coqQ, coq_option

THEOREMS = ['C14_measurements', 'C14_row_order_kept', 'C14_own_rows_only', 'C14_unrelated_rows',
            'C14_unrelated_rows_regimen', 'C14_regimen', 'C14_event_delivers_amount', 'C14_ids',
            'C14_ids_first_appearance', 'C14_ids_column_only', 'C14_rearranged',
            'C14_label_selection_with_unique_labels', 'C14_label_selection_refuted']
HEADER = '''From Coq Require Import ZArith QArith List Bool String.
From Chi Require Import Model.Problem Tie.C14Tie.
Import ListNotations.
Open Scope string_scope.
Open Scope Q_scope.
'''
_DOSED = {}


def dosed_toy():
    """PolyToyModel that supports dosing: every output gains the amount delivered so far by the regimen
    (C10's closed form); records (regimen events, parameters, times) of every simulate call in a class-level log."""
    if 'cls' in _DOSED:
        return _DOSED['cls']
    import myokit
    from harness.toy import PolyToyModel

    class DosedToy(PolyToyModel):
        shared = []

        def __init__(self, n_parameters=3, n_outputs=1):
            super().__init__(n_parameters, n_outputs)
            self._regimen = None

        def supports_dosing(self):
            return True

        def set_dosing_regimen(self, dose, start=0, duration=0.01, period=None, num=None):
            if isinstance(dose, myokit.Protocol):
                self._regimen = dose
                return
            self._regimen = myokit.pacing.blocktrain(period=period or 0, duration=duration, offset=start,
                                                     level=dose / duration, limit=(num or 0) if period else 0)

        def dosing_regimen(self):
            return self._regimen

        def events(self):
            return [] if self._regimen is None else [(e.level(), e.start(), e.duration()) for e in self._regimen.events()]

        def simulate(self, parameters, times):
            res = super().simulate(parameters, times)
            t = np.asarray(times, dtype=float)
            add = np.zeros(len(t))
            for lv, st, du in self.events():
                add += lv * np.clip(t - st, 0.0, du)
            DosedToy.shared.append((self.events(), tuple(float(x) for x in parameters), tuple(float(x) for x in t)))
            if isinstance(res, tuple):
                return res[0] + add, res[1]
            return res + add
    _DOSED['cls'] = DosedToy
    return DosedToy


class Capture(object):
    """Installs recording subclasses of chi.LogLikelihood / chi.HierarchicalLogLikelihood (harness side only)."""
    def __enter__(self):
        import chi
        cap = self
        self.lls, self.hll = [], []
        self.orig = (chi.LogLikelihood, chi.HierarchicalLogLikelihood)

        class RecLL(self.orig[0]):
            def __init__(self, mechanistic_model, error_models, observations, times, outputs=None):
                reg = None
                if mechanistic_model.supports_dosing():
                    p = mechanistic_model.dosing_regimen()
                    reg = [] if p is None else [(e.level(), e.start(), e.duration()) for e in p.events()]
                cap.lls.append({'self': self, 'regimen': reg,
                                'obs': [[float(x) for x in o] for o in observations],
                                'times': [[float(x) for x in t] for t in times]})
                super().__init__(mechanistic_model, error_models, observations, times, outputs)

        class RecHLL(self.orig[1]):
            def __init__(self, log_likelihoods, population_models, covariates=None):
                cap.hll.append({'lls': list(log_likelihoods),
                                'covariates': None if covariates is None else np.array(covariates, dtype=float)})
                super().__init__(log_likelihoods, population_models, covariates)
        chi.LogLikelihood, chi.HierarchicalLogLikelihood = RecLL, RecHLL
        return self

    def __exit__(self, *a):
        import chi
        chi.LogLikelihood, chi.HierarchicalLogLikelihood = self.orig


# ------------------------------------------------------------------------------------------------
# datasets
# ------------------------------------------------------------------------------------------------

ID_POOLS = [[10, 2, 33, 4], ['b', 'a10', 'a2', 'C'], [1, 2, 3, 4], ['id_1', 'id_10', 'id_2', 'x'], [7, 70, 8, 1]]


def gen_case(rng):
    n_ids = rng.choice([1, 2, 2, 3, 3, 4])
    ids = rng.sample(rng.choice(ID_POOLS), n_ids)
    n_out = rng.choice([1, 2])
    dosing = rng.random() < 0.7
    hier = rng.random() < 0.6
    n_cov = rng.choice([0, 0, 1, 2]) if hier else 0
    observables = ['Conc', 'Effect'][:n_out]
    cov_obs = ['Age', 'Weight'][:n_cov]
    rows = []
    for i in ids:
        mine = []
        for k, o in enumerate(observables):
            n_meas = rng.choice([1, 2, 3, 4]) if (k == 0 or i == ids[0]) else rng.choice([0, 1, 2, 3])
            for _ in range(n_meas):
                mine.append({'id': i, 'time': rng.randint(1, 64) / 8, 'obs': o, 'value': rng.randint(1, 64) / 8})
        if n_out == 2 and rng.random() < 0.25:
            # one observable with a replicate, the other without, and as many measurements of each as there are
            # distinct times: equal counts do not make the time grids equal
            a, b, c = sorted(rng.sample(range(1, 65), 3))
            ta, tb = ([a, b, b], [a, b, c]) if rng.random() < 0.5 else ([a, a, c], [a, b, c])
            if rng.random() < 0.5:
                ta, tb = tb, ta
            mine = [{'id': i, 'time': t / 8, 'obs': o, 'value': rng.randint(1, 64) / 8}
                    for o, ts in zip(observables, (ta, tb)) for t in ts]
        elif rng.random() < 0.4:       # duplicate time for the same observable
            src = rng.choice(mine)
            mine.append(dict(src, value=rng.randint(1, 64) / 8))
        if rng.random() < 0.5:
            mine.append({'id': i, 'time': rng.randint(1, 64) / 8, 'obs': observables[0], 'value': None})
        if rng.random() < 0.3:
            mine.append({'id': i, 'time': None, 'obs': observables[0], 'value': rng.randint(1, 64) / 8})
        if rng.random() < 0.5:
            mine.append({'id': i, 'time': rng.randint(1, 64) / 8, 'obs': 'Junk', 'value': rng.randint(1, 64) / 8})
        if dosing:
            for t8 in rng.sample(range(0, 33, 8), rng.choice([0, 0, 1, 2, 3])):    # >= 1 time unit apart
                mine.append({'id': i, 'time': t8 / 8, 'dose': rng.randint(1, 32) / 8,
                             'dur': rng.choice([None, 0.5, 0.25, 1.0])})
            if rng.random() < 0.2:
                mine.append({'id': i, 'time': None, 'dose': 1.0, 'dur': None})
        for c in cov_obs:
            mine.append({'id': i, 'time': rng.choice([None, 0.0]), 'obs': c, 'value': rng.randint(8, 80) / 8})
        rng.shuffle(mine)
        rows.append(mine)
    # interleave individuals at random
    flat = []
    cursors = [0] * n_ids
    while any(c < len(r) for c, r in zip(cursors, rows)):
        k = rng.choice([j for j in range(n_ids) if cursors[j] < len(rows[j])])
        flat.append(rows[k][cursors[k]])
        cursors[k] += 1
    # chi.LogLikelihood accepts only non-decreasing times per output: the rows of one individual and observable
    # appear in time order (interleaved arbitrarily with everything else)
    for i in ids:
        for o in observables:
            sel = [r for r in flat if r['id'] == i and r.get('obs') == o and r.get('time') is not None
                   and r.get('value') is not None]
            for r, t in zip(sel, sorted(r['time'] for r in sel)):
                r['time'] = t
    pkpd = dosing and n_out == 1 and rng.random() < 0.2
    case = {'pkpd': pkpd, 'rows': flat, 'n_out': n_out, 'dosing': dosing, 'hier': hier, 'n_cov': n_cov,
            'id_dtype': 'str' if isinstance(ids[0], str) else rng.choice(['int', 'int', 'str', 'object']),
            'reverse_dict': rng.random() < 0.5, 'custom_keys': rng.random() < 0.3,
            'dur_column': dosing and rng.random() < 0.7,
            'fix': rng.random() < 0.35, 'extra_column': rng.random() < 0.5,
            'pop': rng.choice(['gauss', 'mixed', 'pooled_first']), 'seed': rng.randrange(10 ** 6)}
    case['index'] = rng.choice(['range', 'range', 'per-individual', 'constant', 'reversed'])
    return case


def frame(case, rows=None, id_dtype=None):
    rows = case['rows'] if rows is None else rows
    keys = ({'id': 'Subject', 'time': 'T', 'obs': 'What', 'value': 'Y', 'dose': 'Amt', 'dur': 'Len'}
            if case['custom_keys'] else
            {'id': 'ID', 'time': 'Time', 'obs': 'Observable', 'value': 'Value', 'dose': 'Dose', 'dur': 'Duration'})
    dt = id_dtype or case['id_dtype']
    data = {keys['id']: [str(r['id']) if dt in ('str',) else r['id'] for r in rows],
            keys['time']: [np.nan if r.get('time') is None else r['time'] for r in rows],
            keys['obs']: [r.get('obs') if r.get('obs') is not None else np.nan for r in rows],
            keys['value']: [np.nan if r.get('value') is None else r['value'] for r in rows]}
    if case['dosing']:
        data[keys['dose']] = [np.nan if r.get('dose') is None else r['dose'] for r in rows]
        if case['dur_column']:
            data[keys['dur']] = [np.nan if r.get('dur') is None else r['dur'] for r in rows]
    if case['extra_column']:
        data['Comment'] = ['row %d' % k for k in range(len(rows))]
    df = pd.DataFrame(data)
    if dt == 'object':
        df[keys['id']] = df[keys['id']].astype(object)
    # row labels carry no meaning: frames glued together with pd.concat repeat them
    mode = case.get('index', 'range')
    if mode == 'per-individual':
        seen = {}
        labels = []
        for r in rows:
            labels.append(seen.get(str(r['id']), 0))
            seen[str(r['id'])] = labels[-1] + 1
        df.index = labels
    elif mode == 'constant':
        df.index = [0] * len(df)
    elif mode == 'reversed':
        df.index = list(range(len(df)))[::-1]
    return df, keys


def effective_rows(case):
    """rows as the controller is entitled to see them: no duration column -> durations missing"""
    out = []
    for r in case['rows']:
        r = dict(r)
        if not case['dosing']:
            r['dose'] = None
        if not case['dur_column']:
            r['dur'] = None
        out.append(r)
    return out


# ------------------------------------------------------------------------------------------------
# controller under test and the hand assembly
# ------------------------------------------------------------------------------------------------

def models(case):
    import chi
    from harness.toy import PolyToyModel
    n_par = 2
    if case.get('pkpd'):
        # the library one-compartment PK model behind the solver substitute (direct administration)
        from harness import simsub
        simsub.install()
        import chi.library
        mech = chi.library.ModelLibrary().one_compartment_pk_model()
        mech.set_administration('central', direct=True)
        return mech, [chi.GaussianErrorModel()]
    mech = (dosed_toy() if case['dosing'] else PolyToyModel)(n_parameters=n_par, n_outputs=case['n_out'])
    ems = [chi.GaussianErrorModel(), chi.ConstantAndMultiplicativeGaussianErrorModel()][:case['n_out']]
    return mech, ems


def population(case, n_bottom, names):
    import chi
    kinds = {'gauss': ['G'] * n_bottom, 'mixed': (['P', 'G', 'LN', 'G', 'P'] * 3)[:n_bottom],
             'pooled_first': (['P'] + ['G'] * n_bottom)[:n_bottom]}[case['pop']]
    subs = []
    for k, kind in enumerate(kinds):
        if kind == 'P':
            subs.append(chi.PooledModel())
        elif kind == 'LN':
            subs.append(chi.LogNormalModel())
        else:
            subs.append(chi.GaussianModel())
    if case['n_cov']:
        # the last Gaussian sub-model depends on the covariates
        j = max(k for k, kind in enumerate(kinds) if kind == 'G')
        subs[j] = chi.CovariatePopulationModel(chi.GaussianModel(), chi.LinearCovariateModel(n_cov=case['n_cov']))
        subs[j].set_covariate_names(['cov_a', 'cov_b'][:case['n_cov']])
    return chi.ComposedPopulationModel(subs)


def maps(case, mech):
    outs = mech.outputs()
    observables = ['Conc', 'Effect'][:case['n_out']]
    items = list(zip(outs, observables))
    if case['reverse_dict']:
        items = items[::-1]
    return dict(items), observables


def controller(case, df, keys):
    import chi
    import pints
    mech, ems = models(case)
    problem = chi.ProblemModellingController(mech, ems)
    omap, observables = maps(case, mech)
    fixed = {}
    if case['fix'] and not case['hier']:
        fixed = {mech.parameters()[1]: 0.75}
        problem.fix_parameters(fixed)
    cov_map = None
    if case['hier']:
        n_bottom = problem.get_n_parameters()
        pop = population(case, n_bottom, problem.get_parameter_names())
        problem.set_population_model(pop)
        cov_names = problem.get_covariate_names()
        cov_map = dict(zip(cov_names, ['Age', 'Weight'])) if cov_names else None
    problem.set_data(df, output_observable_dict=omap, covariate_dict=cov_map, id_key=keys['id'], time_key=keys['time'],
                     obs_key=keys['obs'], value_key=keys['value'],
                     dose_key=keys['dose'] if case['dosing'] else None,
                     dose_duration_key=keys['dur'] if (case['dosing'] and case['dur_column']) else None)
    if case['fix'] and case['hier']:
        name = problem.get_parameter_names()[0]
        fixed = {name: 1.25}
        problem.fix_parameters(fixed)
    n = problem.get_n_parameters()
    prior = pints.ComposedLogPrior(*[pints.GaussianLogPrior(1.0 + 0.25 * k, 2.0) for k in range(n)])
    problem.set_log_prior(prior)
    return problem, observables, cov_map, fixed


def theta_for(posterior, seed):
    rng = random.Random(seed)
    n = posterior.n_parameters()
    return np.array([rng.randint(8, 24) / 8 for _ in range(n)])


def hand_routing(case):
    """Independent pass over the rows: per individual (first-appearance order of str(ID)): measurements per
    observable in row order, dose events, covariate values."""
    rows = effective_rows(case)
    ids = []
    for r in rows:
        s = str(r['id'])
        if s not in ids:
            ids.append(s)
    observables = ['Conc', 'Effect'][:case['n_out']]
    cov_obs = ['Age', 'Weight'][:case['n_cov']]
    out = []
    for i in ids:
        mine = [r for r in rows if str(r['id']) == i]
        meas = [[(r['time'], r['value']) for r in mine if r.get('obs') == o and r.get('time') is not None
                 and r.get('value') is not None] for o in observables]
        reg = []
        for r in mine:
            if r.get('dose') is not None and r.get('time') is not None:
                du = r['dur'] if r.get('dur') is not None else 0.01
                reg.append((r['dose'] / du, r['time'], du))
        cov = [[r['value'] for r in mine if r.get('obs') == c and r.get('value') is not None] for c in cov_obs]
        out.append({'id': i, 'meas': meas, 'regimen': reg, 'cov': cov})
    return out


def hand_posterior(case, problem, routing):
    """Assemble the posterior by hand from the routing, with the controller's (configured) sub-models."""
    import chi
    import myokit
    mech, ems = models(case)
    if case['fix'] and not case['hier']:
        name = mech.parameters()[1]
        mech = chi.ReducedMechanisticModel(mech)
        mech.fix_parameters({name: 0.75})
    if case['n_out'] > 1:
        for o, em in zip(mech.outputs(), ems):
            em.set_parameter_names([o + ' ' + n for n in em.get_parameter_names()])
    lls = []
    for ind in routing:
        m = mech.copy()
        if case['dosing']:
            p = myokit.Protocol()
            for lv, st, du in ind['regimen']:
                p.add(myokit.ProtocolEvent(lv, st, du))
            m.set_dosing_regimen(p)
        ll = chi.LogLikelihood(m, [copy.copy(e) for e in ems], [[v for _, v in o] for o in ind['meas']],
                               [[t for t, _ in o] for o in ind['meas']])
        ll.set_id(ind['id'])
        lls.append(ll)
    prior = problem.get_log_prior()
    if not case['hier']:
        return [chi.LogPosterior(ll, prior) for ll in lls]
    pop = problem._population_model                  # the configured (possibly reduced) population model
    cov = None
    if case['n_cov']:
        cov = np.array([[c[0] for c in ind['cov']] for ind in routing])
    hll = chi.HierarchicalLogLikelihood(lls, pop, cov)
    return [chi.HierarchicalLogPosterior(hll, prior)]


def evaluate(p, theta):
    v = p(theta)
    try:
        s = p.evaluateS1(theta)
        return float(v), float(s[0]), np.asarray(s[1], dtype=float)
    except NotImplementedError:
        return float(v), None, None


def posteriors(case, problem):
    if case['hier']:
        return [problem.get_log_posterior()]
    return [problem.get_log_posterior(individual=i['id']) for i in hand_routing(case)]


def compare(a, b, what):
    if len(a) != len(b):
        return '%s: %d posteriors, expected %d' % (what, len(a), len(b))
    for k, (x, y) in enumerate(zip(a, b)):
        if x['names'] != y['names']:
            return '%s: parameter names %s, expected %s' % (what, x['names'], y['names'])
        if x['ids'] != y['ids']:
            return '%s: IDs %s, expected %s' % (what, x['ids'], y['ids'])
        for key in ('value', 'value_s1'):
            if x[key] is None or y[key] is None:
                continue
            if not (x[key] == y[key] or abs(x[key] - y[key]) <= 1e-10 * (1 + abs(y[key]))):
                return '%s: posterior %d has %s %.15g, expected %.15g' % (what, k, key, x[key], y[key])
        if x['grad'] is not None and y['grad'] is not None and not np.allclose(x['grad'], y['grad'], rtol=1e-9, atol=1e-11):
            return '%s: posterior %d gradient differs (max abs diff %.3g)' % (
                what, k, float(np.max(np.abs(x['grad'] - y['grad']))))
    return None


def summary(ps, seed):
    out = []
    for p in ps:
        th = theta_for(p, seed)
        v, vs, g = evaluate(p, th)
        ids = p.get_id()
        out.append({'names': list(p.get_parameter_names()), 'ids': ids if isinstance(ids, list) else [ids],
                    'value': v, 'value_s1': vs, 'grad': g})
    return out


def observe(case):
    """Build the controller on the case's dataset, capture what reaches the likelihood constructors."""
    df, keys = frame(case)
    with Capture() as cap:
        problem, observables, cov_map, fixed = controller(case, df, keys)
        ps = posteriors(case, problem)
    seen = []
    lls = cap.lls
    if case['hier']:
        order = cap.hll[-1]['lls']
        lls = [next(r for r in cap.lls if r['self'] is ll) for ll in order]
        cov = cap.hll[-1]['covariates']
    else:
        cov = None
    for k, r in enumerate(lls):
        seen.append({'id': r['self'].get_id(), 'meas': [list(zip(t, o)) for t, o in zip(r['times'], r['obs'])],
                     'regimen': sorted(r['regimen'] or [], key=lambda e: e[1]), 'cov': [] if cov is None else [[float(x)] for x in cov[k]]})
    return problem, ps, seen


def direct(case, problem=None, ps=None, seen=None):
    """Independent check of the property on one case.  Returns None or a description."""
    if problem is None:
        problem, ps, seen = observe(case)
    routing = hand_routing(case)
    ref = hand_posterior(case, problem, routing)
    a, b = summary(ps, case['seed']), summary(ref, case['seed'])
    d = compare(a, b, 'controller posterior vs hand-assembled posterior')
    if d:
        return d
    regs = problem.get_dosing_regimens()
    if case['dosing']:
        for ind in routing:
            got = [(e.level(), e.start(), e.duration()) for e in regs[ind['id']].events()] if ind['id'] in regs else None
            want = sorted(ind['regimen'], key=lambda e: e[1])
            if got is None or len(got) != len(want) or any(
                    abs(g[0] - w[0]) > 1e-9 * (1 + abs(w[0])) or g[1] != w[1] or g[2] != w[2]
                    for g, w in zip(sorted(got, key=lambda e: e[1]), want)):
                # simultaneous doses are merged by myokit only if identical; compare as sorted lists
                return 'get_dosing_regimens()[%s] = %s, the dose rows give %s' % (ind['id'], got, want)
    elif regs is not None:
        return 'a model without dosing support reports regimens %s' % regs
    # metamorphic: unrelated content and ID data type
    rng = random.Random(case['seed'] + 1)
    variants = []
    junk = [dict(r) for r in case['rows']]
    some_id = rng.choice(case['rows'])['id']
    first = next(k for k, r in enumerate(junk) if r['id'] == some_id)      # keeps the first-appearance order of IDs
    junk.insert(rng.randrange(first + 1, len(junk) + 1), {'id': some_id, 'time': 1.5, 'obs': 'Other', 'value': 3.0})
    junk.insert(rng.randrange(first + 1, len(junk) + 1), {'id': some_id, 'time': 2.5, 'obs': 'Conc', 'value': None})
    variants.append(('with unrelated and missing-value rows', dict(case, rows=junk), None))
    variants.append(('with an extra column', dict(case, extra_column=not case['extra_column']), None))
    if not isinstance(case['rows'][0]['id'], str):
        other = 'str' if case['id_dtype'] != 'str' else 'int'
        variants.append(('with IDs as %s' % other, dict(case, id_dtype=other), None))
    # rearrangement keeping first-appearance order and own row order: group rows by individual
    order = []
    for r in case['rows']:
        if str(r['id']) not in order:
            order.append(str(r['id']))
    firsts = [next(r for r in case['rows'] if str(r['id']) == i) for i in order]
    rest = [r for r in case['rows'] if not any(r is f for f in firsts)]
    grouped = firsts + [r for i in order for r in rest if str(r['id']) == i]
    # own row order: the first row of each individual stays first, the others keep their relative order
    variants.append(('with rows grouped by individual', dict(case, rows=grouped), None))
    for what, c2, _ in variants:
        df2, keys2 = frame(c2)
        problem2, _, _, _ = controller(c2, df2, keys2)
        s2 = summary(posteriors(c2, problem2), case['seed'])
        d = compare(s2, a, 'posterior ' + what + ' vs original')
        if d:
            return d
    return None


def oracle(case):
    return direct(case)


def key_of(case, what):
    return 'C14|%s|%s' % ('hierarchical' if case['hier'] else 'individual', 'dosing' if case['dosing'] else 'no dosing')


# ------------------------------------------------------------------------------------------------
# Coq encoding
# ------------------------------------------------------------------------------------------------

def oq(x):
    return 'None' if x is None else '(Some %s)' % coqQ(x)


def coq_row(r):
    return ('{| r_id := %s; r_time := %s; r_obs := %s; r_value := %s; r_dose := %s; r_dur := %s |}' % (
        coq_string(str(r['id'])), oq(r.get('time')), coq_option(r.get('obs'), coq_string), oq(r.get('value')),
        oq(r.get('dose')), oq(r.get('dur'))))


def coq_ind(s):
    return '(%s, %s, %s, %s)' % (
        coq_string(s['id']),
        coq_list(s['meas'], lambda m: coq_list(m, lambda tv: '(%s, %s)' % (coqQ(tv[0]), coqQ(tv[1])))),
        coq_list(s['regimen'], lambda e: '(%s, %s, %s)' % (coqQ(e[0]), coqQ(e[1]), coqQ(e[2]))),
        coq_list(s['cov'], lambda c: coq_list(c, coqQ)))


def run(ck):
    import chi  # noqa: F401
    exprs, payload = [], {}
    for k in range(ck.n(150, 1500)):
        case = gen_case(ck.rng)
        try:
            problem, ps, seen = observe(case)
        except Exception as e:
            ck.violation(key_of(case, ''), 'chi raised %s: %s' % (type(e).__name__, e), case)
            continue
        ck.count('individuals=%d' % len(seen))
        ck.count('hierarchical' if case['hier'] else 'individual posteriors')
        ck.count('dosing' if case['dosing'] else 'no dosing')
        ck.count('library PK model behind the solver substitute' if case.get('pkpd') else 'closed-form mechanistic model')
        ck.count('outputs=%d covariates=%d' % (case['n_out'], case['n_cov']))
        ck.count('id dtype=%s' % case['id_dtype'])
        order = [s['id'] for s in seen]
        ck.count('ID order %s alphabetical' % ('=' if order == sorted(order) else '!='))
        ck.count('individuals without dose rows', sum(1 for s in seen if case['dosing'] and not s['regimen']))
        ck.case({k2: v for k2, v in case.items()})
        try:
            d = direct(case, problem, ps, seen)
        except Exception as e:
            d = 'hand assembly / variants raised %s: %s' % (type(e).__name__, e)
        if d:
            ck.violation(key_of(case, d), d, case)
            continue
        label = 'd%d' % k
        payload[label] = case
        observables = ['Conc', 'Effect'][:case['n_out']]
        cov_obs = ['Age', 'Weight'][:case['n_cov']] if case['hier'] else []
        if not case['hier']:
            seen = [dict(s, cov=[]) for s in seen]
        exprs.append((label, 'c14_case %s %s %s %s' % (
            coq_list(effective_rows(case), coq_row), coq_list(observables, coq_string), coq_list(cov_obs, coq_string),
            coq_list(seen, coq_ind))))
    ck.cov['rule'] = ('datasets of 1-4 individuals (integer / string / object IDs, alphabetical != first-appearance order), '
                      '1-2 mapped observables with 0-4 measurements each, duplicate times, missing values and times, '
                      'junk observables, 0-3 dose rows per individual with or without duration column, 0-2 covariates, '
                      'extra columns, custom keys, reversed output-observable dict, fixed parameters, three population '
                      'model layouts; distinct = distinct (dataset, configuration)')
    ck.log('exact route: %d datasets' % len(exprs))
    bad = ck.exact('routing', HEADER, exprs, shard=60)
    wrng = random.Random(ck.seed + 31)
    wider = (gen_case(wrng) for _ in range(ck.n(200, 1500)))
    if bad:
        ck.settle('correspondence C14: Model/Problem.v and chi differ on %s (first: %s)' % (bad[:5], payload[bad[0]]),
                  [payload[b] for b in bad], oracle, wider, key_of)
    elif ck.broken:
        ck.settle(ck.broken.pop(), [], oracle, wider, key_of)


def replay(ck, body):
    r = oracle(body['replay'])
    print('oracle:', r)
    return r is None
