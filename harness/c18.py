"""C18 — inference I/O keeps parameters, individuals and draws aligned.

Tie (exact, vm_compute), on real posteriors (individual LogPosterior; HierarchicalLogPosterior over random population
compositions of every kind, 1-4 individuals whose ID labels are not in alphabetical order):
 * SamplingController.run with pints.MCMCController replaced by a stub that returns tagged integer chains: every
   variable of the returned dataset, draw by draw, against Model/Inference.v `format_draw`;
 * reading such a dataset back (compute_pointwise_loglikelihood with an individual's LogLikelihood,
   PosteriorPredictiveModel.sample with a recording predictive model) against `read_back`;
 * OptimisationController.run with a stub optimiser returning tagged estimates against `table_rows`;
 * sample_initial_parameters with a tagged prior and a tagged population sampler against `init_vector`.
Direct property checks (also the search oracle): each dataset entry equals the raw chain entry carrying the same
(name, ID) label, every vector position appears exactly once; table rows pair estimate k with name k and the ID of
the block it lies in; initial points have the posterior's dimension, are reproducible from the seed, differ
between seeds and give finite prior + population contributions with real priors and samplers."""
import random

import numpy as np

from harness import core, popspec, c17
from harness.popspec import Sub
from harness.core import coq_list, coq_string, coqZ, coq_bool, coq_option

THEOREMS = ['C18_positions', 'C18_dataset_bottom', 'C18_dataset_top', 'C18_ids_bottom', 'C18_ids_top',
            'C18_read_back', 'C18_init_length', 'C18_init_bottom', 'C18_init_top', 'C18_table_row',
            'C18_table_length']
HEADER = '''From Coq Require Import ZArith List Bool String.
From Chi Require Import Model.Mechanistic Model.Inference Tie.C18Tie.
Import ListNotations.
Open Scope string_scope.
'''
ID_POOLS = [['zed', 'alpha', 'm10', 'm2'], ['10', '2', '33', '4'], ['b', 'a', 'd', 'c'], ['id 2', 'id 1', 'id 3', 'id 0']]


# ------------------------------------------------------------------------------------------------
# subjects
# ------------------------------------------------------------------------------------------------

def build(case, recording_em=False):
    """Posterior of a case: {'subs': [...] or None (individual), 'n_ids', 'ids'}."""
    import chi
    import pints
    from harness.toy import PolyToyModel, RecordingErrorModel
    if case['subs'] is None:
        ll = chi.LogLikelihood(PolyToyModel(2), chi.GaussianErrorModel(), [1.0, 2.0, 1.5], [0.5, 1.5, 2.5])
        ll.set_id(case['ids'][0])
        prior = pints.ComposedLogPrior(*[pints.UniformLogPrior(0.5, 1.5) for _ in range(3)])
        return chi.LogPosterior(ll, prior), [ll], None, None
    S = [Sub(**d) for d in case['subs']]
    n_dim = popspec.total_dims(S)
    pop = chi.ComposedPopulationModel([s.build() for s in S])
    lls = []
    for i in range(case['n_ids']):
        em = RecordingErrorModel(1) if recording_em else chi.GaussianErrorModel()
        ll = chi.LogLikelihood(PolyToyModel(n_dim - 1), em, [1.0 + i, 2.0, 1.5][:2 + i % 2], [0.5, 1.5, 2.5][:2 + i % 2])
        ll.set_id(case['ids'][i])
        lls.append(ll)
    n_cov = sum(s.n_cov() for s in S)
    cov = np.array([[0.25 * (i + 1) + 0.5 * c for c in range(n_cov)] for i in range(case['n_ids'])]) if n_cov else None
    h = chi.HierarchicalLogLikelihood(lls, pop, cov)
    n_top = h.n_parameters(exclude_bottom_level=True)
    prior = pints.ComposedLogPrior(*[pints.UniformLogPrior(0.5, 1.5) for _ in range(n_top)])
    return chi.HierarchicalLogPosterior(h, prior), lls, S, pop


def gen_case(rng, k):
    if k % 6 == 0:
        return {'subs': None, 'n_ids': 1, 'ids': [rng.choice(['zed', '7', 'only one'])], 'seed': rng.randrange(10 ** 6)}
    n_ids = rng.choice([1, 2, 3, 3, 4])
    if k % 6 == 5:
        # no individual-level parameters at all: only pooled / heterogeneous dimensions
        subs = [{'kind': rng.choice(['P', 'P', 'H']), 'nd': rng.choice([1, 2]), 'centered': True, 'n_het': None}
                for _ in range(rng.choice([2, 3]))]
        for d in subs:
            d['n_het'] = n_ids if d['kind'] == 'H' else None
        return {'subs': subs, 'n_ids': n_ids, 'ids': rng.choice(ID_POOLS)[:n_ids], 'seed': rng.randrange(10 ** 6)}
    while True:
        subs = c17.gen_comp(rng, n_ids)
        S = [Sub(**d) for d in subs]
        if popspec.total_dims(S) >= 2:
            break
    return {'subs': subs, 'n_ids': n_ids, 'ids': rng.choice(ID_POOLS)[:n_ids], 'seed': rng.randrange(10 ** 6)}


def labels(posterior):
    names = list(posterior.get_parameter_names())
    ids = posterior.get_id()
    if not isinstance(ids, list):
        ids = [None] * len(names)
    return names, ids


def tagged_chains(n_chains, n_draws, n):
    c = np.empty((n_chains, n_draws, n))
    for a in range(n_chains):
        for b in range(n_draws):
            c[a, b] = [10000 * (a + 1) + 100 * b + k + 1 for k in range(n)]
    return c


class FakeMCMC(object):
    """stands in for pints.MCMCController: returns the tagged chains"""
    chains = None
    seen = {}

    def __init__(self, log_pdf, chains, x0, method=None, transformation=None):
        FakeMCMC.seen = {'n_chains': chains, 'x0': np.array(x0)}

    def set_log_to_screen(self, *a): pass
    def set_log_interval(self, **k): pass
    def set_max_iterations(self, iterations=None): pass
    def set_parallel(self, *a): pass
    def samplers(self): return []
    def run(self): return FakeMCMC.chains


class FakeOpt(object):
    """stands in for pints.OptimisationController: estimate = x0 + 1000, score = run-dependent tag"""
    runs = []

    def __init__(self, function, x0, method=None, transformation=None):
        self.x0 = np.array(x0)

    def set_log_to_screen(self, *a): pass
    def set_max_iterations(self, iterations=None): pass
    def set_parallel(self, *a): pass

    def run(self):
        k = len(FakeOpt.runs)
        est = [float(1000 * (k + 1) + j + 1) for j in range(len(self.x0))]
        FakeOpt.runs.append((self.x0.copy(), est, float(7 * (k + 1))))
        return est, float(7 * (k + 1))


def sample_dataset(posterior, n_chains, n_draws, seed):
    import chi
    import pints
    n = posterior.n_parameters()
    FakeMCMC.chains = tagged_chains(n_chains, n_draws, n)
    orig = pints.MCMCController
    pints.MCMCController = FakeMCMC
    try:
        c = chi.SamplingController(posterior, seed=seed)
        c.set_n_runs(n_chains)
        ds = c.run(n_iterations=n_draws)
    finally:
        pints.MCMCController = orig
    return FakeMCMC.chains, ds, FakeMCMC.seen


def dataset_entries(ds, a, b):
    """variables of the dataset at (chain a, draw b): {name: ('S', value) | ('I', [values in coordinate order])}"""
    out = {}
    for name in ds.data_vars:
        var = ds[name]
        if 'individual' in var.dims:
            out[str(name)] = ('I', [float(x) for x in var.values[a, b, :]])
        else:
            out[str(name)] = ('S', float(var.values[a, b]))
    return out


# ------------------------------------------------------------------------------------------------
# direct checks
# ------------------------------------------------------------------------------------------------

def direct_dataset(posterior, chains, ds, case):
    names, ids = labels(posterior)
    n_chains, n_draws, n = chains.shape
    if sorted(ds.sizes.get(k, 0) for k in ('chain', 'draw')) != sorted([n_chains, n_draws]):
        return 'dataset has %s chains x draws for raw chains of shape %s' % (dict(ds.sizes), chains.shape)
    covered = []
    uniq = [i for i in dict.fromkeys(ids) if i is not None]
    for name in ds.data_vars:
        var = ds[name]
        if 'individual' in var.dims:
            coords = [str(x) for x in var.coords['individual'].values]
            if coords != [str(u) for u in uniq]:
                return 'variable %s has individual coordinate %s, the individuals are %s' % (name, coords, uniq)
            for u in uniq:
                pos = [k for k in range(n) if names[k] == name and ids[k] == u]
                if len(pos) != 1:
                    return 'label (%s, %s) is carried by positions %s' % (name, u, pos)
                got = var.sel(individual=u).values
                if got.shape != (n_chains, n_draws) or not np.array_equal(got, chains[:, :, pos[0]]):
                    return ('dataset[%s].sel(individual=%s) is not raw chain column %d (the entry labelled with that '
                            'name and ID)' % (name, u, pos[0]))
                covered.append(pos[0])
        else:
            pos = [k for k in range(n) if names[k] == name and ids[k] is None]
            if len(pos) != 1:
                return 'population-level variable %s is carried by positions %s' % (name, pos)
            if var.values.shape != (n_chains, n_draws) or not np.array_equal(var.values, chains[:, :, pos[0]]):
                return 'dataset[%s] is not raw chain column %d' % (name, pos[0])
            covered.append(pos[0])
    if sorted(covered) != list(range(n)):
        return 'vector positions stored in the dataset: %s, expected every position 0..%d once' % (sorted(covered), n - 1)
    return None


def expected_individual_vector(posterior, lls, S, k, chains, a, b, param_map=None):
    """the vector an individual's log-likelihood must be evaluated at for draw (a, b): its own bottom-level entries"""
    names, ids = labels(posterior)
    own = list(lls[k].get_parameter_names())
    out = []
    for p in own:
        q = (param_map or {}).get(p, p)
        pos = [j for j in range(len(names)) if names[j] == q and ids[j] in (lls[k].get_id(), None)]
        pos = [j for j in pos if ids[j] == lls[k].get_id()] or pos
        out.append(chains[a, b, pos[0]])
    return np.array(out)


def direct_readback(posterior, lls, S, chains, ds, case, rng):
    import chi
    from harness.toy import PolyToyModel
    hier = S is not None
    if hier and any(s.kind == 'H' for s in S):
        return None            # heterogeneous dimensions have no variable of the individual's own to read back
    # pooled dimensions are population-level variables of the dataset: the individual's parameter is read from them
    # through param_map (a mix of (chain, draw, individual) and (chain, draw) variables in one parameter vector)
    pmap = {}
    if hier and any(s.kind == 'P' for s in S):
        own = list(lls[0].get_parameter_names())
        pop_names = list(posterior.get_log_likelihood().get_population_model().get_parameter_names())
        for s_, (d0, p0, c0) in zip(S, popspec.slices(S)):
            if s_.kind == 'P':
                for d in range(s_.nd):
                    pmap[own[d0 + d]] = pop_names[p0 + d]
    shared = {}
    for k in ([0] if not hier else range(len(lls))):
        ll = lls[k]
        kwargs = {'individual': ll.get_id()} if hier else {}
        if pmap:
            kwargs['param_map'] = dict(pmap)
        try:
            pw = chi.compute_pointwise_loglikelihood(ll, ds, **kwargs)
        except NotImplementedError:
            return None
        for a in range(chains.shape[0]):
            for b in range(chains.shape[1]):
                vec = expected_individual_vector(posterior, lls, S, k, chains, a, b, pmap)
                want = ll.compute_pointwise_ll(vec)
                got = np.asarray(pw.values[a, b])
                if got.shape != np.asarray(want).shape or not np.allclose(got, want, rtol=1e-12, atol=0, equal_nan=True):
                    return ('compute_pointwise_loglikelihood for individual %s at (chain %d, draw %d) is not the '
                            'pointwise log-likelihood at that individual\'s own entries %s' % (ll.get_id(), a, b, vec))
        # posterior predictive model: every parameter vector handed to the predictive model is one of the draws of
        # this individual
        if not shared:
            # ONE posterior predictive model is asked about every individual in turn
            mech = PolyToyModel(len(ll.get_parameter_names()) - 1)
            pm = chi.PredictiveModel(mech, [chi.GaussianErrorModel()])
            shared['seen'] = []
            orig = pm.sample

            def rec(parameters, *a, **kw):
                shared['seen'].append(np.array(parameters, dtype=float))
                return orig(parameters, *a, **kw)
            pm.sample = rec
            shared['ppm'] = chi.PosteriorPredictiveModel(pm, ds, param_map=dict(pmap)) if pmap else \
                chi.PosteriorPredictiveModel(pm, ds)
        seen = shared['seen']
        del seen[:]
        shared['ppm'].sample([1.0, 2.0], n_samples=3, seed=rng.randrange(10 ** 6),
                             **{k_: v_ for k_, v_ in kwargs.items() if k_ != 'param_map'})
        rows = [expected_individual_vector(posterior, lls, S, k, chains, a, b, pmap)
                for a in range(chains.shape[0]) for b in range(chains.shape[1])]
        for v in seen:
            if not any(np.array_equal(v, r) for r in rows):
                return ('PosteriorPredictiveModel.sample(individual=%s) simulated with %s, which is no draw of that '
                        'individual' % (ll.get_id(), v))
        if len(seen) != 3:
            return 'PosteriorPredictiveModel.sample drew %d parameter vectors for 3 samples' % len(seen)
        # the same draws stored under swapped variable names, read through the param_map that swaps them back
        own = list(ll.get_parameter_names())
        if not pmap and len(own) >= 2 and all(n in ds for n in own[:2]):
            a_, b_ = own[0], own[1]
            ds2 = ds.rename({a_: b_, b_: a_})
            swap = [(a_, b_), (b_, a_)]
            if rng.random() < 0.5:
                swap.reverse()
            mech2 = PolyToyModel(len(own) - 1)
            pm2 = chi.PredictiveModel(mech2, [chi.GaussianErrorModel()])
            seen2, orig2 = [], pm2.sample

            def rec2(parameters, *a, _o=orig2, _s=seen2, **kw):
                _s.append(np.array(parameters, dtype=float))
                return _o(parameters, *a, **kw)
            pm2.sample = rec2
            chi.PosteriorPredictiveModel(pm2, ds2, param_map=dict(swap)).sample(
                [1.0, 2.0], n_samples=3, seed=rng.randrange(10 ** 6),
                **{k_: v_ for k_, v_ in kwargs.items() if k_ != 'param_map'})
            for v in seen2:
                if not any(np.array_equal(v, r) for r in rows):
                    return ('PosteriorPredictiveModel with the variables %s and %s stored under each other\'s names and '
                            'param_map %s simulated with %s, which is no draw of individual %s' % (
                                a_, b_, dict(swap), v, ll.get_id()))
    return None


def optimisation_table(posterior, n_runs, seed):
    import chi
    import pints
    FakeOpt.runs = []
    orig = pints.OptimisationController
    pints.OptimisationController = FakeOpt
    try:
        c = chi.OptimisationController(posterior, seed=seed)
        c.set_n_runs(n_runs)
        table = c.run(n_max_iterations=3)
    finally:
        pints.OptimisationController = orig
    return table, list(FakeOpt.runs), c


def direct_table(posterior, table, runs, case, S):
    names, ids = labels(posterior)
    n = len(names)
    if list(table.columns) != ['ID', 'Parameter', 'Estimate', 'Score', 'Run']:
        return 'columns %s' % list(table.columns)
    if len(table) != n * len(runs):
        return 'the table has %d rows for %d runs of %d parameters' % (len(table), len(runs), n)
    if S is not None:
        nb = sum(s.n_hdim() for s in S)
        want_ids = [case['ids'][k // nb] for k in range(nb * case['n_ids'])] + [None] * (n - nb * case['n_ids'])
    else:
        want_ids = [case['ids'][0]] * n
    for r, (x0, est, score) in enumerate(runs):
        part = table.iloc[r * n:(r + 1) * n]
        for k in range(n):
            row = part.iloc[k]
            rid = None if row['ID'] is None or (isinstance(row['ID'], float) and np.isnan(row['ID'])) else row['ID']
            if (rid, row['Parameter'], float(row['Estimate']), float(row['Score']), int(row['Run'])) != (
                    want_ids[k], names[k], est[k], score, r + 1):
                return ('table row %d of run %d is %s, expected ID %s, parameter %s, estimate %s, score %s' % (
                    k, r + 1, list(row), want_ids[k], names[k], est[k], score))
    return None


def direct_init(case):
    posterior, lls, S, pop = build(case, recording_em=True)
    n = posterior.n_parameters()
    a = posterior.sample_initial_parameters(n_samples=3, seed=case['seed'] % 1000)
    np.random.seed(case['seed'] % 977 + 5)
    np.random.random(3)
    b = posterior.sample_initial_parameters(n_samples=3, seed=case['seed'] % 1000)
    c = posterior.sample_initial_parameters(n_samples=3, seed=case['seed'] % 1000 + 1)
    if a.shape != (3, n):
        return 'sample_initial_parameters(3) has shape %s for a posterior of dimension %d' % (a.shape, n)
    if not np.array_equal(a, b):
        return 'sample_initial_parameters is not reproducible from the seed'
    if np.array_equal(a, c):
        return 'sample_initial_parameters returns the same points for different seeds'
    if not np.all(np.isfinite(a)):
        return 'initial points contain non-finite entries: %s' % a
    for x in a:
        v = posterior(x)          # the data term of these likelihoods is identically 0
        if not np.isfinite(v):
            return ('the prior + population contribution at the initial point %s is %s' % (x, v))
    import chi
    for cls in (chi.OptimisationController, chi.SamplingController):
        ctl = cls(posterior, seed=case['seed'] % 1000)
        ctl.set_n_runs(2)
        if ctl._initial_params.shape != (2, n):
            return '%s holds initial parameters of shape %s' % (cls.__name__, ctl._initial_params.shape)
    return None


def tagged_init(case):
    """sample_initial_parameters with a tagged prior and a tagged population sampler"""
    import pints
    posterior, lls, S, pop = build(case, recording_em=True)
    if S is None or all(s.special() for s in S):
        return None
    n_top = posterior.n_parameters(exclude_bottom_level=True)
    n_ids = case['n_ids']
    n_dim = popspec.total_dims(S)
    calls = []

    class TagPrior(pints.LogPrior):
        def n_parameters(self): return n_top
        def __call__(self, x): return 0.0

        def sample(self, n=1):
            return np.array([[500.0 + 1000 * s + t for t in range(n_top)] for s in range(n)])
    posterior._log_prior = TagPrior()
    real = posterior.get_log_likelihood().get_population_model()
    cls = real.__class__

    def tagged_sample(self, parameters, n_samples=None, seed=None, covariates=None, *a, **k):
        s = len(calls)
        calls.append([float(x) for x in parameters])
        return np.array([[100000.0 * (s + 1) + 100 * i + dd for dd in range(n_dim)] for i in range(n_samples)])
    real.__class__ = type('Tagged' + cls.__name__, (cls,), {'sample': tagged_sample})
    try:
        x = posterior.sample_initial_parameters(n_samples=2, seed=3)
    finally:
        real.__class__ = cls
    keep = [not s.special() for s in S for _ in range(s.nd)]
    out = []
    for s in range(2):
        popm = [[int(100000 * (s + 1) + 100 * i + dd) for dd in range(n_dim)] for i in range(n_ids)]
        prior = [int(500 + 1000 * s + t) for t in range(n_top)]
        if calls[s] != [float(p) for p in prior]:
            return ('bad', 'the population model was sampled at %s, the prior draw is %s' % (calls[s], prior))
        if not np.all(x[s] == np.round(x[s])):
            return ('bad', 'initial point %s contains values that are neither prior nor population draws' % x[s])
        out.append((keep, popm, prior, [int(v) for v in x[s]]))
    return ('ok', out)


# ------------------------------------------------------------------------------------------------
# one case
# ------------------------------------------------------------------------------------------------

def check_case(case, exprs=None, label=''):
    """Returns the first failure description or None; appends Coq expressions to exprs."""
    rng = random.Random(case['seed'])
    posterior, lls, S, pop = build(case)
    names, ids = labels(posterior)
    top = list(posterior.get_parameter_names(exclude_bottom_level=True)) if S is not None else list(names)
    n_chains, n_draws = rng.choice([(1, 2), (2, 3), (3, 2)])
    chains, ds, seen = sample_dataset(posterior, n_chains, n_draws, case['seed'] % 1000)
    if seen['x0'].shape != (n_chains, len(names)):
        return 'the sampler was started from initial points of shape %s' % (seen['x0'].shape,)
    d = direct_dataset(posterior, chains, ds, case)
    if d:
        return d
    d = direct_readback(posterior, lls, S, chains, ds, case, rng)
    if d:
        return d
    table, runs, ctl = optimisation_table(posterior, rng.choice([1, 2, 3]), case['seed'] % 1000)
    d = direct_table(posterior, table, runs, case, S)
    if d:
        return d
    d = direct_init(case)
    if d:
        return d
    t = tagged_init(case)
    if t is not None and t[0] == 'bad':
        return t[1]
    if exprs is None:
        return None
    cs = lambda l: coq_list(l, coq_string)           # noqa: E731
    zs = lambda l: '%s%%Z' % coq_list([int(x) for x in l], coqZ)    # noqa: E731
    for (a, b) in [(0, 0), (n_chains - 1, n_draws - 1)]:
        ent = dataset_entries(ds, a, b)
        exp = coq_list(list(ent.items()), lambda kv: '(%s, %s)' % (
            coq_string(kv[0]), ('Scalar (%s)%%Z' % coqZ(int(kv[1][1]))) if kv[1][0] == 'S'
            else 'PerIndividual %s' % zs(kv[1][1])))
        exprs.append((label, 'c18_format %s %s %s %s' % (cs(names), cs(top), zs(chains[a, b]), exp)))
        if S is not None and not any(s.special() for s in S):
            for k in range(len(lls)):
                own = list(lls[k].get_parameter_names())
                vec = expected_individual_vector(posterior, lls, S, k, chains, a, b)
                exprs.append((label, 'c18_read %s %s %s %d %s %s' % (
                    cs(names), cs(top), zs(chains[a, b]), k, cs(own), zs(vec))))
    n = len(names)
    if S is not None:
        nb = sum(s.n_hdim() for s in S)
        uids, ntop = case['ids'][:case['n_ids']], n - nb * case['n_ids']
    else:
        nb, uids, ntop = n, [case['ids'][0]], 0
    for r, (x0, est, score) in enumerate(runs):
        part = table.iloc[r * n:(r + 1) * n]
        rows = []
        for k in range(n):
            row = part.iloc[k]
            rid = None if row['ID'] is None or (isinstance(row['ID'], float) and np.isnan(row['ID'])) else str(row['ID'])
            rows.append('(%s, %s, (%s)%%Z, (%s)%%Z, %d)' % (coq_option(rid, coq_string), coq_string(row['Parameter']),
                                                          coqZ(int(row['Estimate'])), coqZ(int(row['Score'])),
                                                          int(row['Run'])))
        exprs.append((label, 'c18_table %s %d %d %s %s (%s)%%Z %d [%s]' % (
            cs(uids), nb, ntop, cs(names), zs(est), coqZ(int(score)), r + 1, '; '.join(rows))))
    if t is not None:
        for keep, popm, prior, x in t[1]:
            exprs.append((label, 'c18_init %s %s %s %s' % (
                coq_list(keep, coq_bool), coq_list(popm, zs), zs(prior), zs(x))))
    return None


def oracle(case):
    return check_case(case)


def key_of(case, what):
    return 'C18|%s' % ('individual' if case['subs'] is None else 'hierarchical')


def run(ck):
    import chi  # noqa: F401
    exprs, payload = [], {}
    for k in range(ck.n(100, 900)):
        case = gen_case(ck.rng, k)
        label = 'i%d' % k
        mine = []
        try:
            d = check_case(case, mine, label)
        except Exception as e:
            import traceback
            d = 'chi raised %s: %s (%s)' % (type(e).__name__, e, traceback.format_exc()[-300:])
        if case['subs'] is None:
            ck.count('individual posterior')
        else:
            S = [Sub(**s) for s in case['subs']]
            ck.count('hierarchical, individuals=%d' % case['n_ids'])
            for s in S:
                ck.count('kind=%s%s' % (s.kind, '+cov' if s.cov else ''))
            ck.count('IDs %s alphabetical' % ('=' if case['ids'] == sorted(case['ids']) else '!='))
        ck.case(case)
        if d:
            ck.violation(key_of(case, d), d, case)
            continue
        payload[label] = case
        exprs += mine
    ck.cov['rule'] = ('individual posteriors and hierarchical posteriors over compositions of 1-4 sub-models (5 kinds x n_dim '
                      '1-2 x centred flag x covariate wrappers), 1-4 individuals with non-alphabetical ID labels; tagged '
                      'chains of 1-3 chains x 2-3 draws, 1-3 optimisation runs, 2-3 initial points; distinct = distinct '
                      '(composition, IDs, seed)')
    ck.log('exact route: %d expressions' % len(exprs))
    bad = ck.exact('inference_io', HEADER, exprs, shard=150)
    wrng = random.Random(ck.seed + 37)
    wider = (gen_case(wrng, 1 + j) for j in range(ck.n(150, 1200)))
    if bad:
        bad = sorted(set(bad))
        ck.settle('correspondence C18: Model/Inference.v and chi differ on %s (first: %s)' % (bad[:5], payload[bad[0]]),
                  [payload[b] for b in bad], oracle, wider, key_of)
    elif ck.broken:
        ck.settle(ck.broken.pop(), [], oracle, wider, key_of)


def replay(ck, body):
    r = oracle(body['replay'])
    print('oracle:', r)
    return r is None
