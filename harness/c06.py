"""C06 — samplers draw from the distribution their log-likelihood scores (partial: see DESIGN §7 C06).

Proof side: Properties/C06.v — each sampling transform pushes its primitive variate forward to exp(log-likelihood).
Tie, on every run:
 * the identities that reduce NumPy / SciPy samplers to primitive variates are re-checked (rng.normal = loc +
   scale * standard_normal bit for bit, rng.lognormal = exp(mean + sigma z) to 4 ulp, truncnorm.rvs = loc + scale *
   ppf(uniform));
 * plan replay: chi's sample(seed) of every error model (also Reduced) and population model (Gaussian, log-normal,
   truncated Gaussian, pooled, heterogeneous, covariate-wrapped, composed, reduced) equals the model's transform
   applied, in the plan's order, to the primitive stream of np.random.default_rng(seed);
 * certified (CoqInterval): sampled values equal the Coq transform of the primitive variate (Gaussian, log-normal,
   multiplicative, two-variate CMG), truncated-Gaussian samples y satisfy TG_cdf(y) = u, and get_mean_and_std
   equals LN_mean / LN_std / TG_mean / TG_std.
Direct property check (also the search oracle): fixed-seed Kolmogorov-Smirnov and moment tests of chi's samples
against SciPy's distribution functions with the parameters the log-likelihood uses.
Known finding: the constant-and-multiplicative error model samples two independent variates."""
import math
import random

import numpy as np

from harness import core, popspec, c05
from harness.popspec import Sub
from harness.core import coqR

THEOREMS = ['C06_gaussian_error', 'C06_multiplicative_error', 'C06_lognormal_error', 'C06_cmg_documented',
            'C06_cmg_code_is_two_variates', 'C06_cmg_code_refuted', 'C06_gaussian_population',
            'C06_lognormal_population', 'C06_noncentred', 'C06_noncentred_gaussian_psi',
            'C06_noncentred_lognormal_psi', 'C06_truncated_cdf_zero', 'C06_truncated_population',
            'C06_lognormal_raw_moment', 'C06_lognormal_mean', 'C06_lognormal_std', 'C06_truncated_mean',
            'C06_truncated_second_moment', 'C06_truncated_std']
HEADER = '''From Coq Require Import Reals Lra List.
From Coquelicot Require Import Coquelicot.
From Interval Require Import Tactic.
From Chi Require Import Base.RSum Base.Score Base.Tie Base.Normal Base.Phi Model.ErrorModels Model.PopModels Model.Samplers.
Import ListNotations.
Open Scope R_scope.
'''
UNFOLD = ('G_sample MG_sample CMG_sample_code LN_sample Gpop_sample LNpop_sample NC_sample TG_cdf LN_mean LN_std '
          'TG_mean TG_std Phi phi cov_shift Rsum map combine fst snd').split()
KNOWN_CMG = 'C06|CMG sampler adds two independent variates'
N_KS = 20000
KS_LIMIT = 3.4          # sqrt(N) * D: p < 2e-10 under the null


# ------------------------------------------------------------------------------------------------
# primitive identities
# ------------------------------------------------------------------------------------------------

def ulps(a, b):
    a, b = np.asarray(a, dtype=float), np.asarray(b, dtype=float)
    return float(np.max(np.abs(a - b) / np.spacing(np.maximum(np.abs(a), np.abs(b)))))


def primitive_identities():
    from scipy.stats import truncnorm
    for seed in (0, 1, 12345):
        g1, g2 = np.random.default_rng(seed), np.random.default_rng(seed)
        loc, scale = np.array([0.5, -1.25, 3.0]), np.array([0.75, 2.0, 0.125])
        if not np.array_equal(g1.normal(loc, scale, size=(5, 3)), loc + scale * g2.standard_normal((5, 3))):
            return 'rng.normal(loc, scale) is not loc + scale * standard_normal bit for bit'
        g1, g2 = np.random.default_rng(seed), np.random.default_rng(seed)
        if ulps(g1.lognormal(loc, scale, size=(5, 3)), np.exp(loc + scale * g2.standard_normal((5, 3)))) > 4:
            return 'rng.lognormal(mean, sigma) is not exp(mean + sigma * standard_normal) to 4 ulp'
        g = np.random.default_rng(seed)
        if np.random.default_rng(g) is not g:
            return 'default_rng(generator) does not return the generator itself'
        a = -loc / scale
        np.random.seed(seed)
        r = truncnorm.rvs(a=a, b=np.inf, loc=loc, scale=scale, size=(5, 3))
        np.random.seed(seed)
        u = np.random.uniform(size=(5, 3))
        if not np.allclose(r, loc + scale * truncnorm.ppf(u, a, np.inf), rtol=1e-12, atol=0):
            return 'truncnorm.rvs is not loc + scale * ppf(uniform)'
    return None


# ------------------------------------------------------------------------------------------------
# error models
# ------------------------------------------------------------------------------------------------

ERR = ['G', 'MG', 'CMG', 'LN']


def err_model(kind):
    import chi
    return {'G': chi.GaussianErrorModel, 'MG': chi.MultiplicativeGaussianErrorModel,
            'CMG': chi.ConstantAndMultiplicativeGaussianErrorModel, 'LN': chi.LogNormalErrorModel}[kind]()


def gen_err_case(rng):
    kind = rng.choice(ERR)
    npar = 2 if kind == 'CMG' else 1
    params = [core.dyadic(rng, 2, 16, 16) + 0.03125 * k for k in range(npar)]
    m = [core.dyadic(rng, 8, 64, 8) for _ in range(rng.randint(1, 4))]
    case = {'type': 'error', 'kind': kind, 'params': params, 'm': m, 'n_samples': rng.choice([1, 2, 3]),
            'seed': rng.randrange(10 ** 6), 'fixed': None}
    if rng.random() < 0.4:
        k = rng.randrange(npar)
        case['fixed'] = k              # index of the parameter fixed through ReducedErrorModel
    return case


def err_sample(case, n_samples=None, seed=None):
    import chi
    em = err_model(case['kind'])
    params = list(case['params'])
    if case['fixed'] is not None:
        names = em.get_parameter_names()
        em = chi.ReducedErrorModel(em)
        em.fix_parameters({names[case['fixed']]: params[case['fixed']]})
        params = [p for k, p in enumerate(params) if k != case['fixed']]
    return np.asarray(em.sample(params, case['m'], n_samples=n_samples or case['n_samples'],
                                seed=case['seed'] if seed is None else seed))


def err_replay(case):
    """(expected samples, primitive variates) from the plan"""
    rng = np.random.default_rng(case['seed'])
    M = np.asarray(case['m'], dtype=float)[:, None]
    shape = (len(case['m']), case['n_samples'])
    p = case['params']
    if case['kind'] == 'G':
        z = rng.standard_normal(shape)
        return M + (0 + p[0] * z), [z]
    if case['kind'] == 'MG':
        z = rng.standard_normal(shape)
        return M + M * (0 + p[0] * z), [z]
    if case['kind'] == 'CMG':
        z1 = rng.standard_normal(shape)
        z2 = rng.standard_normal(shape)
        return M + (0 + p[0] * z1) + M * (0 + p[1] * z2), [z1, z2]
    z = rng.standard_normal(shape)
    return M * np.exp(-p[0] ** 2 / 2 + p[0] * z), [z]


def err_props(case, got, zs):
    p, m = case['params'], case['m']
    props = []
    for (t, s) in [(0, 0), (len(m) - 1, case['n_samples'] - 1)]:
        v = float(got[t, s])
        if case['kind'] == 'G':
            e = 'G_sample %s %s %s' % (coqR(p[0]), coqR(m[t]), coqR(float(zs[0][t, s])))
        elif case['kind'] == 'MG':
            e = 'MG_sample %s %s %s' % (coqR(p[0]), coqR(m[t]), coqR(float(zs[0][t, s])))
        elif case['kind'] == 'CMG':
            e = 'CMG_sample_code %s %s %s %s %s' % (coqR(p[0]), coqR(p[1]), coqR(m[t]), coqR(float(zs[0][t, s])),
                                                     coqR(float(zs[1][t, s])))
        else:
            e = 'LN_sample %s %s %s' % (coqR(p[0]), coqR(m[t]), coqR(float(zs[0][t, s])))
        props.append('close (%s) %s %s' % (e, coqR(v), coqR(1e-11 * (1 + abs(v)))))
    return props


def err_stat(case):
    """KS test of chi's samples at the first model output against the density the log-likelihood scores."""
    from scipy import stats
    p, m = case['params'], case['m'][0]
    x = err_sample(dict(case, m=[m]), n_samples=N_KS, seed=case['seed'] % 1000 + 17)[0]
    if case['kind'] == 'G':
        cdf = lambda y: stats.norm.cdf(y, m, p[0])                      # noqa: E731
    elif case['kind'] == 'MG':
        cdf = lambda y: stats.norm.cdf(y, m, p[0] * m)                  # noqa: E731
    elif case['kind'] == 'CMG':
        cdf = lambda y: stats.norm.cdf(y, m, p[0] + p[1] * m)           # noqa: E731
    else:
        cdf = lambda y: stats.lognorm.cdf(y, s=p[0], scale=m * math.exp(-p[0] ** 2 / 2))   # noqa: E731
    d = stats.kstest(x, cdf).statistic * math.sqrt(len(x))
    if d > KS_LIMIT:
        return ('%d samples of %s at output %s, parameters %s: Kolmogorov-Smirnov distance sqrt(N) D = %.2f from the '
                'density of compute_log_likelihood (sample std %.4f)' % (len(x), case['kind'], m, p, d, float(np.std(x))))
    return None


# ------------------------------------------------------------------------------------------------
# population models
# ------------------------------------------------------------------------------------------------

def gen_pop_case(rng):
    n_sub = rng.choice([1, 1, 2, 3])
    subs = []
    n_het = rng.choice([2, 3])            # heterogeneous sub-models of one composition share the individuals
    for _ in range(n_sub):
        kind, nd, centered = c05.gen_sub(rng)
        nd = min(nd, 2)
        d = {'kind': kind, 'nd': nd, 'centered': centered, 'n_het': n_het if kind == 'H' else None}
        if rng.random() < 0.4:
            d['cov'] = {'n_cov': rng.choice([1, 2, 3]), 'sel': None if rng.random() < 0.5 else [[0, 0]]}
        subs.append(d)
    S = [Sub(**d) for d in subs]
    n = rng.choice([1, 2, 3, 4])
    theta = []
    for s in S:
        if s.kind in ('G', 'LN', 'TG'):
            theta += [core.dyadic(rng, 8, 24, 8) for _ in range(s.nd)] + [core.dyadic(rng, 4, 16, 8) for _ in range(s.nd)]
        elif s.kind == 'P':
            theta += [core.dyadic(rng, 1, 24, 8) for _ in range(s.nd)]
        else:
            theta += [core.dyadic(rng, 1, 24, 8) + 0.125 * k for k in range(s.n_het * s.nd)]
        theta += [core.dyadic(rng, -2, 2, 16) for _ in range(len(s.selection()) * s.n_cov())]
    n_cov = sum(s.n_cov() for s in S)
    chis = None
    if n_cov:
        rows = n if rng.random() < 0.6 else 1
        chis = [[core.dyadic(rng, -4, 8, 8) for _ in range(n_cov)] for _ in range(rows)]
    return {'type': 'pop', 'subs': subs, 'theta': theta, 'chis': chis, 'n': n, 'seed': rng.randrange(10 ** 6),
            'composed': n_sub > 1 or rng.random() < 0.3, 'fix_first': rng.random() < 0.25}


def pop_model(case):
    import chi
    S = [Sub(**d) for d in case['subs']]
    if case['composed']:
        m = chi.ComposedPopulationModel([s.build() for s in S])
    else:
        m = S[0].build()
    return m, S


def pop_sample(case, n=None, seed=None):
    import chi
    m, S = pop_model(case)
    theta = list(case['theta'])
    if case.get('fix_first'):
        name = m.get_parameter_names()[0]
        m = chi.ReducedPopulationModel(m)
        m.fix_parameters({name: theta[0]})
        theta = theta[1:]
    kw = {}
    if case['chis'] is not None:
        kw['covariates'] = np.array(case['chis'], dtype=float)
    return np.asarray(m.sample(theta, n_samples=n or case['n'], seed=case['seed'] if seed is None else seed, **kw))


def sub_params(s, th, chi_row):
    rows = s.n_rows()
    return [[s.par_value(th, p, d, 0, chi_row) for d in range(s.nd)] for p in range(rows)]


def base_draw(s, P, n, rng, log, int_seed=None):
    """n draws of the (unwrapped) sub-model with parameter rows P from generator rng"""
    from scipy.stats import truncnorm
    P = np.asarray(P, dtype=float)
    if s.kind in ('G', 'LN') and not s.centered:
        z = rng.standard_normal((n, s.nd))
        log.append(('nc', z, None))
        return 0 + 1 * z
    if s.kind == 'G':
        z = rng.standard_normal((n, s.nd))
        log.append(('G', z, P))
        return P[0] + P[1] * z
    if s.kind == 'LN':
        z = rng.standard_normal((n, s.nd))
        log.append(('LN', z, P))
        return np.exp(P[0] + P[1] * z)
    if s.kind == 'TG':
        k = rng.integers(low=0, high=1E6) if int_seed is None else int_seed     # an integer seed is used as it is
        np.random.seed(k)
        u = np.random.uniform(size=(n, s.nd))
        log.append(('TG', u, P))
        return P[0] + P[1] * truncnorm.ppf(u, -P[0] / P[1], np.inf)
    if s.kind == 'P':
        return np.broadcast_to(P, (n, s.nd))
    ids = np.arange(s.n_het)
    return P[rng.choice(ids, size=n, replace=True)]


def pop_replay(case, rng=None):
    S = [Sub(**d) for d in case['subs']]
    n = case['n']
    rng = np.random.default_rng(case['seed']) if rng is None else rng
    out = np.empty((n, popspec.total_dims(S)))
    logs = []
    for s, (d0, p0, c0) in zip(S, popspec.slices(S)):
        th = case['theta'][p0:p0 + s.n_par()]
        log = []
        if s.cov:
            chis = case['chis'] if len(case['chis']) == n else case['chis'] * n
            for i in range(n):
                ch = chis[i][c0:c0 + s.n_cov()]
                out[i, d0:d0 + s.nd] = base_draw(s, sub_params(s, th, ch), 1, rng, log)[0]
        else:
            out[:, d0:d0 + s.nd] = base_draw(s, sub_params(s, th, None), n, rng, log,
                                             int_seed=None if case['composed'] else case['seed'])
        logs.append((s, d0, log))
    return out, logs


def pop_props(case, got, logs):
    """certificates for a few sampled entries: (plain props, props that need the integral tactic)"""
    plain, integral = [], []
    for s, d0, log in logs:
        if not log:
            continue
        kind, prim, P = log[0]
        row = 0
        v = float(got[0, d0])
        x = float(prim[0, 0])
        tol = coqR(1e-10 * (1 + abs(v)))
        if kind == 'nc':
            plain.append('close (NC_sample %s) %s %s' % (coqR(x), coqR(v), tol))
        elif kind == 'G':
            plain.append('close (Gpop_sample %s %s %s) %s %s' % (coqR(P[0][0]), coqR(P[1][0]), coqR(x), coqR(v), tol))
        elif kind == 'LN':
            plain.append('close (LNpop_sample %s %s %s) %s %s' % (coqR(P[0][0]), coqR(P[1][0]), coqR(x), coqR(v), tol))
        elif kind == 'TG':
            integral.append('close (TG_cdf %s %s %s) %s %s' % (coqR(P[0][0]), coqR(P[1][0]), coqR(v), coqR(x), coqR(1e-9)))
        del row
    return plain, integral


def moments_props(case):
    """get_mean_and_std of LogNormalModel / TruncatedGaussianModel against the Coq formulas"""
    import chi
    plain, integral = [], []
    for d in case['subs']:
        s = Sub(**d)
        if s.cov or s.kind not in ('LN', 'TG') or not s.centered:
            continue
        m = chi.LogNormalModel(n_dim=s.nd) if s.kind == 'LN' else chi.TruncatedGaussianModel(n_dim=s.nd)
        mus = [0.5 + 0.25 * k for k in range(s.nd)]
        sgs = [0.75 - 0.125 * k for k in range(s.nd)]
        r = np.asarray(m.get_mean_and_std(mus + sgs), dtype=float)
        if r.shape != (2, s.nd):
            return None, None, 'get_mean_and_std returns shape %s for n_dim %d' % (r.shape, s.nd)
        for k in range(s.nd):
            a, b = coqR(mus[k]), coqR(sgs[k])
            for name, val in (('mean', r[0, k]), ('std', r[1, k])):
                pr = 'close (%s_%s %s %s) %s %s' % (s.kind, name, a, b, coqR(float(val)), coqR(1e-9))
                (plain if s.kind == 'LN' else integral).append(pr)
    return plain, integral, None


def moments_sweep(rng, n):
    """reported moments against quadrature-free references over the whole parameter range (means many standard
    deviations below the truncation point, tiny and large scales)"""
    import chi
    from scipy import stats
    for _ in range(n):
        nd = rng.choice([1, 2])
        tg = chi.TruncatedGaussianModel(n_dim=nd)
        ln = chi.LogNormalModel(n_dim=nd)
        sg = [rng.choice([0.05, 0.4, 1.0, 3.0]) for _ in range(nd)]
        ratio = [rng.choice([-40.0, -20.0, -12.0, -9.0, -8.0, -7.5, -7.0, -6.0, -3.0, -1.0, 0.0, 0.5, 2.0, 8.0, 40.0])
                 for _ in range(nd)]
        mu = [r * s_ for r, s_ in zip(ratio, sg)]
        r = np.asarray(tg.get_mean_and_std(mu + sg), dtype=float)
        for k in range(nd):
            ref = stats.truncnorm(a=-mu[k] / sg[k], b=np.inf, loc=mu[k], scale=sg[k])
            want = (float(ref.mean()), float(ref.std()))
            got = (float(r[0, k]), float(r[1, k]))
            if not all(math.isfinite(v) for v in got) or got[0] <= 0 or any(
                    abs(g - w) > 1e-6 * abs(w) for g, w in zip(got, want)):
                return {'mu': mu, 'sigma': sg}, ('TruncatedGaussianModel(mu=%r, sigma=%r).get_mean_and_std reports mean %r and '
                                                  'std %r; the density it scores has mean %r and std %r' % (
                                                      mu[k], sg[k], got[0], got[1], want[0], want[1]))
        lmu = [rng.uniform(-3, 3) for _ in range(nd)]
        lsg = [rng.choice([0.05, 0.5, 1.5]) for _ in range(nd)]
        r = np.asarray(ln.get_mean_and_std(lmu + lsg), dtype=float)
        for k in range(nd):
            want = (math.exp(lmu[k] + lsg[k] ** 2 / 2),
                    math.sqrt((math.exp(lsg[k] ** 2) - 1) * math.exp(2 * lmu[k] + lsg[k] ** 2)))
            if any(abs(float(g) - w) > 1e-9 * abs(w) for g, w in zip(r[:, k], want)):
                return {'mu': lmu, 'sigma': lsg}, ('LogNormalModel(mu=%r, sigma=%r).get_mean_and_std reports %r, the density '
                                                    'has mean %r and std %r' % (lmu[k], lsg[k], r[:, k].tolist(), want[0], want[1]))
    return None, None


def pop_stat(case):
    """KS / moment tests of every hierarchical dimension against the law compute_log_likelihood scores."""
    from scipy import stats
    S = [Sub(**d) for d in case['subs']]
    c1 = dict(case)
    if case['chis'] is not None:
        c1['chis'] = [case['chis'][0]]
    x = pop_sample(c1, n=N_KS, seed=case['seed'] % 1000 + 29)
    if x.shape != (N_KS, popspec.total_dims(S)):
        return 'sample(n_samples=%d) has shape %s' % (N_KS, x.shape)
    m, _ = pop_model(case)
    for s, (d0, p0, c0) in zip(S, popspec.slices(S)):
        th = case['theta'][p0:p0 + s.n_par()]
        ch = c1['chis'][0][c0:c0 + s.n_cov()] if s.cov else None
        P = sub_params(s, th, ch)
        for d in range(s.nd):
            col = x[:, d0 + d]
            if s.kind == 'P':
                if not np.all(col == P[0][d]):
                    return 'pooled dimension %d: samples are not the pooled value %s' % (d0 + d, P[0][d])
                continue
            if s.kind == 'H':
                vals = sorted(P[r][d] for r in range(s.n_het))
                if not set(np.unique(col)) <= set(vals):
                    return 'heterogeneous dimension %d: samples %s are not among the individuals\' values %s' % (
                        d0 + d, np.unique(col)[:5], vals)
                continue
            if not s.centered:
                cdf = stats.norm.cdf
            elif s.kind == 'G':
                cdf = lambda y, a=P[0][d], b=P[1][d]: stats.norm.cdf(y, a, b)                         # noqa: E731
            elif s.kind == 'LN':
                cdf = lambda y, a=P[0][d], b=P[1][d]: stats.lognorm.cdf(y, s=b, scale=math.exp(a))    # noqa: E731
            else:
                cdf = lambda y, a=P[0][d], b=P[1][d]: stats.truncnorm.cdf(y, -a / b, np.inf, loc=a, scale=b)   # noqa: E731
                if np.min(col) < 0:
                    return 'truncated Gaussian dimension %d: negative samples (min %.4g)' % (d0 + d, np.min(col))
            dist = stats.kstest(col, cdf).statistic * math.sqrt(len(col))
            if dist > KS_LIMIT:
                return ('dimension %d (%s, parameters %s): %d samples have Kolmogorov-Smirnov distance sqrt(N) D = %.2f '
                        'from the law scored by compute_log_likelihood' % (d0 + d, s.describe(), P, len(col), dist))
            if s.kind in ('LN', 'TG') and s.centered and not s.cov:
                base = s.build()
                ms = np.asarray(base.get_mean_and_std(th[:2 * s.nd]), dtype=float)
                se = ms[1, d] / math.sqrt(len(col))
                # (the sample standard deviation of a log-normal law converges too slowly to be tested here; the
                # reported value is certified against LN_std instead)
                if abs(np.mean(col) - ms[0, d]) > 7 * se or (
                        s.kind == 'TG' and abs(np.std(col) - ms[1, d]) > 0.05 * ms[1, d]):
                    return ('dimension %d (%s): sample mean %.5f / std %.5f, get_mean_and_std reports %.5f / %.5f' % (
                        d0 + d, s.describe(), np.mean(col), np.std(col), ms[0, d], ms[1, d]))
    return None


# ------------------------------------------------------------------------------------------------
# driver
# ------------------------------------------------------------------------------------------------

def replay_check(case):
    """plan replay (float level): returns (failure or None, got, logs/zs)"""
    if case['type'] == 'error':
        got = err_sample(case)
        want, zs = err_replay(case)
        if got.shape != want.shape:
            return 'sample has shape %s, expected %s' % (got.shape, want.shape), got, zs
        if ulps(got, want) > (4 if case['kind'] == 'LN' else 0):
            return ('%s.sample(%s, %s, seed=%d) is not the plan applied to the primitive stream of that seed '
                    '(max %.1f ulp)' % (case['kind'], case['params'], case['m'], case['seed'], ulps(got, want))), got, zs
        return None, got, zs
    got = pop_sample(case)
    want, logs = pop_replay(case)
    if got.shape != want.shape:
        return 'sample has shape %s, expected %s' % (got.shape, want.shape), got, logs
    if not np.allclose(got, want, rtol=1e-12, atol=0):
        bad = np.argwhere(~np.isclose(got, want, rtol=1e-12, atol=0))[0]
        return ('sample(seed=%d) of %s differs from the plan applied to the primitive stream at entry %s: %r vs %r' % (
            case['seed'], [Sub(**d).describe() for d in case['subs']], tuple(bad), got[tuple(bad)],
            want[tuple(bad)])), got, logs
    return None, got, logs


def oracle(case):
    if case.get('type') == 'moments':
        return moments_sweep(random.Random(case['seed']), case['n'])[1]
    d, _, _ = replay_check(case)
    if d:
        return d
    if case['type'] == 'error':
        r = err_stat(case)
        if r and case['kind'] == 'CMG':
            return None          # reported through the known finding
        return r
    return pop_stat(case)


def key_of(case, what):
    if case['type'] == 'error':
        return 'C06|error|%s' % case['kind']
    return 'C06|population|%s' % '+'.join(sorted({d['kind'] for d in case['subs']}))


def run(ck):
    import chi  # noqa: F401
    d = primitive_identities()
    if d:
        ck.broken.append('primitive identity no longer holds: ' + d)
        return
    plain, integral, payload = [], [], {}
    # stratified: every error model with and without a fixed parameter
    cases = []
    for kind in ERR:
        for fixed in ([None, 0] if kind != 'CMG' else [None, 0, 1]):
            c = gen_err_case(ck.rng)
            c.update(kind=kind, fixed=fixed)
            if kind == 'CMG':
                c['params'] = [0.75, 0.4375]
            else:
                c['params'] = c['params'][:1]
            cases.append(c)
    for _ in range(ck.n(40, 400)):
        cases.append(gen_err_case(ck.rng))
    for _ in range(ck.n(110, 900)):
        cases.append(gen_pop_case(ck.rng))
    sw_seed = ck.seed * 61
    wit, d = moments_sweep(random.Random(sw_seed), ck.n(60, 600))
    ck.count('reported moments over the whole parameter range')
    if d:
        ck.violation('C06|reported moments', d, {'type': 'moments', 'seed': sw_seed, 'n': ck.n(60, 600), 'witness': wit})
    n_stat = 0
    for k, case in enumerate(cases):
        label = 's%d' % k
        try:
            d, got, aux = replay_check(case)
        except Exception as e:
            d, got, aux = 'chi raised %s: %s' % (type(e).__name__, e), None, None
        if case['type'] == 'error':
            ck.count('error model %s%s' % (case['kind'], '' if case['fixed'] is None else ' (reduced)'))
        else:
            for s in case['subs']:
                ck.count('population %s%s' % (Sub(**s).kind, '+cov' if s.get('cov') else ''))
            ck.count('composed' if case['composed'] else 'single model')
        ck.case(case)
        if d:
            ck.violation(key_of(case, d), d, case)
            continue
        payload[label] = case
        # statistical check on a deterministic subset (every 3rd case; all in the thorough tier)
        if ck.thorough() or k % 3 == 0 or (case['type'] == 'error' and case['kind'] == 'CMG'):
            n_stat += 1
            try:
                r = err_stat(case) if case['type'] == 'error' else pop_stat(case)
            except Exception as e:
                r = 'chi raised %s: %s' % (type(e).__name__, e)
            if r:
                if case['type'] == 'error' and case['kind'] == 'CMG':
                    ck.violation(KNOWN_CMG, r, case)
                else:
                    ck.violation(key_of(case, r), r, case)
                    continue
        if case['type'] == 'error':
            plain.append((label, err_props(case, got, aux)))
        else:
            p1, p2 = pop_props(case, got, aux)
            m1, m2, bad = moments_props(case)
            if bad:
                ck.violation(key_of(case, bad), bad, case)
                continue
            if p1 + m1:
                plain.append((label, p1 + m1))
            if p2 + m2:
                integral.append((label, p2 + m2))
    ck.count('statistical tests (KS with %d samples per dimension)' % N_KS, n_stat)
    ck.cov['rule'] = ('4 error models (plain and reduced, every fixed position), population models of 5 kinds x n_dim 1-2 '
                      'x centred flag, covariate wrappers with 1-3 covariates and default / custom selections, compositions of '
                      '1-3 sub-models, reduced wrappers; 1-4 samples per call for the plan replay, %d for the statistical '
                      'tests; distinct = distinct (model, parameters, seed)' % N_KS)
    ck.log('certifying %d + %d cases with CoqInterval' % (len(plain), len(integral)))
    bad = ck.numeric('samplers', HEADER, UNFOLD, plain)
    bad += ck.numeric('samplers_cdf', HEADER, UNFOLD, integral, shard=8, integral=True)
    wrng = random.Random(ck.seed + 41)
    wider = ((gen_err_case(wrng) if j % 3 == 0 else gen_pop_case(wrng)) for j in range(ck.n(90, 600)))
    if bad:
        ck.settle('correspondence C06: Model/Samplers.v and chi differ on %s (first: %s)' % (bad[:5], payload[bad[0]]),
                  [payload[b] for b in bad], oracle, wider, key_of)
    elif ck.broken:
        ck.settle(ck.broken.pop(), [], oracle, wider, key_of)


def replay(ck, body):
    r = oracle(body['replay'])
    print('oracle:', r)
    return r is None
