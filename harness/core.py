"""Shared machinery of the chi verification checks (see /verif/DESIGN.md §2, §4, §5).

A property module `harness/cXX.py` defines

    THEOREMS   = ['C04_G_total_is_sum', ...]      # names stated in coq/theories/Properties/CXX.v
    def run(ck: Check) -> None                    # correspondence + search, using the helpers below

and `/verif/check CXX` drives it:  proof build -> correspondence -> (on a break) search -> verdict,
then writes evidence/CXX.json.

Nothing here imports chi: chi is imported by the property modules themselves (from the
current /repo working tree; PYTHONPATH is forced by /verif/check).
"""
import fractions
import hashlib
import json
import os
import random
import re
import subprocess
import sys
import time
from concurrent.futures import ThreadPoolExecutor

VERIF = os.path.dirname(os.path.dirname(os.path.abspath(__file__)))
COQ = os.path.join(VERIF, 'coq')
GEN = os.path.join(COQ, 'gen')
COQFLAGS = ['-Q', os.path.join(COQ, 'theories'), 'Chi', '-Q', GEN, 'ChiGen']

FORBIDDEN = re.compile(
    r'\b(Admitted|admit|Axiom|Axioms|Parameter|Parameters|Conjecture|Conjectures|'
    r'Admit\s+Obligations|bypass_check|Unset\s+Guard\s+Checking|Unset\s+Positivity\s+Checking|'
    r'Unset\s+Universe\s+Checking|native_compute)\b|-type-in-type|-impredicative-set')
TOPLEVEL_VAR = re.compile(r'^\s*(Variable|Variables|Hypothesis|Hypotheses|Context)\b')

# axioms declared by Coq's standard library that the development is allowed to depend on
ALLOWED_AXIOMS = {
    'ClassicalDedekindReals.sig_forall_dec',
    'ClassicalDedekindReals.sig_not_dec',
    'FunctionalExtensionality.functional_extensionality_dep',
    'Classical_Prop.classic',
    'ClassicalEpsilon.constructive_indefinite_description',
    'Eqdep.Eq_rect_eq.eq_rect_eq',
    'ProofIrrelevance.proof_irrelevance',
    'PropExtensionality.propositional_extensionality',
}

TRUSTED_BASE = [
    'Coq 8.16.1 kernel and coqc (full .vo builds; vm_compute used by the exact correspondence route and by '
    'CoqInterval; native_compute not used)',
    'Coq standard library, Coquelicot, CoqInterval (+Flocq, Bignums) as installed',
    'hand-written Gallina models under coq/theories/Model (models, not verified code); tied to /repo by the '
    'correspondence run of this check (differential: generated inputs evaluated by chi and by the model inside Coq)',
    'the Python harness (generators, doubles, float.as_integer_ratio conversion, case emitters, result parsers)',
    'NumPy/SciPy/pandas/pints/myokit as executed by chi',
]


class Broken(Exception):
    """The harness itself could not run (infrastructure error, not a verdict)."""


def sh(cmd, timeout, cwd=None, env=None):
    try:
        p = subprocess.run(cmd, cwd=cwd, env=env, stdout=subprocess.PIPE, stderr=subprocess.STDOUT,
                           text=True, timeout=timeout)
        return p.returncode, p.stdout
    except subprocess.TimeoutExpired as e:
        out = e.stdout.decode() if isinstance(e.stdout, bytes) else (e.stdout or '')
        return 124, out + '\nTIMEOUT after %ss' % timeout


# ----------------------------------------------------------------------------------------------
# number formatting
# ----------------------------------------------------------------------------------------------

def frac(x):
    """Exact fraction of a Python float / int / Fraction."""
    if isinstance(x, fractions.Fraction):
        return x
    if isinstance(x, int):
        return fractions.Fraction(x)
    return fractions.Fraction(*float(x).as_integer_ratio())


def coqR(x):
    """Coq term of type R denoting exactly the float/Fraction x."""
    f = frac(x)
    if f.denominator == 1:
        return '(%d)' % f.numerator if f.numerator >= 0 else '(-%d)' % -f.numerator
    s = '(%d/%d)' % (abs(f.numerator), f.denominator)
    return s if f.numerator >= 0 else '(-%s)' % s


def coqZ(n):
    n = int(n)
    return '%d' % n if n >= 0 else '(%d)' % n


def coqQ(x):
    f = frac(x)
    return '(%s # %d)' % (coqZ(f.numerator), f.denominator)


def coq_list(xs, f=str):
    return '[' + '; '.join(f(x) for x in xs) + ']'


def coq_string(s):
    return '"' + str(s).replace('"', '""') + '"'


def coq_bool(b):
    return 'true' if b else 'false'


def coq_option(x, f=str):
    return 'None' if x is None else '(Some %s)' % f(x)


def dyadic(rng, lo=-64, hi=64, den=16, nonzero=False):
    """Random dyadic rational n/den with lo <= n <= hi, as an exactly representable float."""
    while True:
        n = rng.randint(lo, hi)
        if n != 0 or not nonzero:
            return n / den


# ----------------------------------------------------------------------------------------------
# the check object
# ----------------------------------------------------------------------------------------------

class Check(object):
    def __init__(self, pid, tier, seed):
        self.pid = pid
        self.tier = tier
        self.seed = seed
        self.rng = random.Random(seed)
        self.t0 = time.time()
        self.cov = {
            'evaluations': 0, 'distinct_nontrivial': 0, 'rule': '', 'samples': [],
            'obligations': 0, 'discharged': 0, 'checker_cmd': '', 'trusted_base': list(TRUSTED_BASE),
            'correspondence': {}, 'histogram': {}, 'axioms': {},
        }
        self._distinct = set()
        self.violations = []       # (key, what, replay object)
        self.known_hits = []       # (finding, what)
        self.broken = []           # names of theorems / correspondence shards that no longer check
        self.assumptions = []
        self.findings = [f for f in load_findings() if f.get('property') == pid]
        os.makedirs(GEN, exist_ok=True)

    # ---------------- bookkeeping ----------------
    def thorough(self):
        return self.tier == 'thorough'

    def n(self, quick, thorough):
        return thorough if self.thorough() else quick

    def count(self, key, k=1):
        h = self.cov['histogram']
        h[key] = h.get(key, 0) + k

    def case(self, obj, nontrivial=True):
        """Register one explored case (JSON-able description) for the evidence counts."""
        self.cov['evaluations'] += 1
        if nontrivial:
            h = hashlib.sha1(json.dumps(obj, sort_keys=True, default=str).encode()).hexdigest()
            if h not in self._distinct:
                self._distinct.add(h)
                self.cov['distinct_nontrivial'] = len(self._distinct)
        if len(self.cov['samples']) < 4:
            self.cov['samples'].append(obj)

    def log(self, *a):
        print('[%s %6.1fs]' % (self.pid, time.time() - self.t0), *a, flush=True)

    # ---------------- proof side ----------------
    def build_proofs(self, theorems, timeout=3000, ties=()):
        """Compile Properties/<pid>.vo (and all it depends on), scan the sources of that closure for
        forbidden constructs, and run Print Assumptions on every property theorem."""
        tgt = 'theories/Properties/%s.vo' % self.pid
        if not os.path.exists(os.path.join(COQ, 'Makefile')):
            rc, out = sh(['coq_makefile', '-f', '_CoqProject', '-o', 'Makefile'], 120, cwd=COQ)
            if rc != 0:
                raise Broken('coq_makefile failed: ' + out)
        tie_tgts = ['theories/%s.vo' % t.replace('.', '/') for t in ['Tie.%sTie' % self.pid] + list(ties)
                    if os.path.exists(os.path.join(COQ, 'theories', t.replace('.', '/') + '.v'))]
        rc, out = sh(['make', '-j8', tgt] + tie_tgts, timeout, cwd=COQ)
        self.cov['checker_cmd'] = 'make -C /verif/coq %s  &&  coqc Print Assumptions on %d theorems' % (
            tgt, len(theorems))
        closure = self.closure(os.path.join(COQ, 'theories', 'Properties', self.pid + '.v'))
        n_qed = 0
        bad = []
        for f in closure:
            src = strip_comments(open(f).read())
            n_qed += len(re.findall(r'\b(Qed|Defined)\s*\.', src))
            for m in FORBIDDEN.finditer(src):
                bad.append('%s: %s' % (os.path.relpath(f, COQ), m.group(0)))
            bad += ['%s: %s' % (os.path.relpath(f, COQ), l.strip())
                    for l in toplevel_variables(src)]
        self.cov['obligations'] = n_qed
        self.cov['closure_files'] = [os.path.relpath(f, COQ) for f in closure]
        if rc != 0:
            self.cov['discharged'] = 0
            m = re.search(r'File "([^"]+)", line (\d+)[^\n]*\n(?:.*\n)*?Error:([^\n]*(?:\n[^\n]+){0,6})', out)
            where = ('%s line %s: %s' % (m.group(1), m.group(2), m.group(3).strip())) if m else out[-1500:]
            self.broken.append('proof build of %s failed: %s' % (tgt, where))
            return False
        if bad:
            self.cov['discharged'] = 0
            self.broken.append('forbidden construct in proof closure: ' + '; '.join(bad[:5]))
            return False
        # Print Assumptions
        chunk = max(1, (len(theorems) + 11) // 12)
        groups = [theorems[i:i + chunk] for i in range(0, len(theorems), chunk)]

        def pa(k):
            src = 'From Chi Require Import Properties.%s.\n' % self.pid
            for t in groups[k]:
                src += 'Print Assumptions %s.\n' % t
            return self.coqc_text('assume_%s_%d' % (self.pid, k), src, 600)

        with ThreadPoolExecutor(max_workers=12) as ex:
            outs = list(ex.map(pa, range(len(groups))))
        blocks = {}
        for g, (rc, out) in zip(groups, outs):
            if rc != 0:
                self.cov['discharged'] = 0
                self.broken.append('a property theorem is missing or Print Assumptions failed: ' + out[-600:])
                return False
            blocks.update(split_assumptions(out, g))
        ok = True
        for t in theorems:
            ax = blocks.get(t)
            if ax is None:
                self.broken.append('no Print Assumptions output for ' + t)
                ok = False
                continue
            self.cov['axioms'][t] = ax
            extra = [a for a in ax if a not in ALLOWED_AXIOMS]
            if extra:
                self.broken.append('theorem %s depends on non-stdlib assumptions %s' % (t, extra))
                ok = False
        # statements present in the Properties file
        psrc = strip_comments(open(os.path.join(COQ, 'theories', 'Properties', self.pid + '.v')).read())
        for t in theorems:
            if not re.search(r'\b(Theorem|Lemma|Corollary)\s+%s\b' % re.escape(t), psrc):
                self.broken.append('theorem %s is not stated in Properties/%s.v' % (t, self.pid))
                ok = False
        self.cov['discharged'] = n_qed if ok else 0
        self.cov['theorems'] = list(theorems)
        used = sorted({a for ax in self.cov['axioms'].values() for a in ax})
        self.assumptions.append('axioms (Print Assumptions, union over the property theorems): ' +
                                (', '.join(used) if used else 'none — closed under the global context'))
        return ok

    def closure(self, vfile):
        """Project-local transitive dependencies of a .v file (via coqdep)."""
        seen, todo = [], [vfile]
        while todo:
            f = todo.pop()
            if f in seen or not os.path.exists(f):
                continue
            seen.append(f)
            rc, out = sh(['coqdep'] + COQFLAGS + [f], 60, cwd=COQ)
            for dep in re.findall(r'(\S+)\.vo\b', out.split(':', 1)[1] if ':' in out else ''):
                d = dep + '.v'
                if not os.path.isabs(d):
                    d = os.path.join(COQ, d)
                d = os.path.normpath(d)
                if d.startswith(COQ) and d not in seen:
                    todo.append(d)
        return sorted(seen)

    def coqc_text(self, name, text, timeout):
        path = os.path.join(GEN, name + '.v')
        with open(path, 'w') as f:
            f.write(text)
        return sh(['coqc'] + COQFLAGS + [path], timeout, cwd=GEN)

    # ---------------- exact correspondence route ----------------
    def exact(self, tag, header, cases, shard=250, timeout=900):
        """cases: list of (label, coq_bool_expr).  Each expression is evaluated by vm_compute inside Coq and
        must reduce to `true` (it compares the model applied to the case's input with chi's observed,
        canonicalised output, embedded as a literal).  Returns the list of labels that evaluated to false;
        infrastructure failures are recorded in self.broken."""
        if not cases:
            return []
        shards = [cases[i:i + shard] for i in range(0, len(cases), shard)]

        def one(k):
            body = header + '\nDefinition results : list bool := [\n' + ';\n'.join(
                '  (%s)' % e for _, e in shards[k]) + '\n].\nEval vm_compute in results.\n'
            rc, out = self.coqc_text('cases_%s_%s_%d' % (self.pid, tag, k), body, timeout)
            return rc, out

        bad = []
        with ThreadPoolExecutor(max_workers=12) as ex:
            results = list(ex.map(one, range(len(shards))))
        n_ok = 0
        for k, (rc, out) in enumerate(results):
            if rc != 0:
                self.broken.append('correspondence shard %s/%d did not evaluate: %s' % (tag, k, out[-800:]))
                continue
            toks = re.findall(r'\b(true|false)\b', out[out.index('='):] if '=' in out else '')
            if len(toks) != len(shards[k]):
                self.broken.append('correspondence shard %s/%d: %d results for %d cases' % (
                    tag, k, len(toks), len(shards[k])))
                continue
            for (label, _), t in zip(shards[k], toks):
                if t == 'false':
                    bad.append(label)
                else:
                    n_ok += 1
        c = self.cov['correspondence'].setdefault(tag, {'route': 'exact (vm_compute)', 'cases': 0, 'agree': 0})
        c['cases'] += len(cases)
        c['agree'] += n_ok
        return bad

    def coq_show(self, header, expr, timeout=120):
        """Evaluate an expression in Coq and return the printed value (for replay files)."""
        rc, out = self.coqc_text('show_%s' % self.pid, header + '\nEval vm_compute in (%s).\n' % expr, timeout)
        return out.strip()[-2000:]

    # ---------------- certified numeric route ----------------
    def interval(self, tag, header, tactic, cases, shard=40, timeout=1500, max_rounds=4):
        """cases: list of (label, coq_R_expr, value, tol) — or (label, None, None, None, raw_goal).
        Each becomes a Qed-closed lemma
              Rabs (expr - value) <= tol
        proved by `tactic` (which ends in CoqInterval's interval/integral).  value is chi's float, converted
        exactly.  Returns the labels whose lemma could not be proved."""
        if not cases:
            return []
        shards = [cases[i:i + shard] for i in range(0, len(cases), shard)]

        def goal(c):
            if len(c) == 5:
                return c[4]
            _, expr, value, tol = c
            return 'Rabs (%s - %s) <= %s' % (expr, coqR(value), coqR(frac(tol)))

        def one(k):
            failed = []
            live = list(range(len(shards[k])))
            for _ in range(max_rounds + 1):
                lines = header.rstrip('\n').split('\n') + ['Ltac chi_tie := %s.' % tactic.replace('\n', ' ')]
                index = {}
                for i in live:
                    index[len(lines) + 1] = i
                    lines.append('Goal %s. Proof. chi_tie. Qed.' % goal(shards[k][i]).replace('\n', ' '))
                rc, out = self.coqc_text('ival_%s_%s_%d' % (self.pid, tag, k), '\n'.join(lines) + '\n', timeout)
                if rc == 0:
                    return failed, None
                ms = re.findall(r'File "[^"]*", line (\d+), characters [\d-]+:\s*\n\s*Error', out)
                m = re.match(r'(\d+)', ms[-1]) if ms else None
                if not m or int(m.group(1)) not in index:
                    return failed, out[-800:]
                i = index[int(m.group(1))]
                failed.append(i)
                live.remove(i)
                if len(failed) > max_rounds:
                    # give up enumerating; the rest is unknown
                    return failed, None
            return failed, None

        with ThreadPoolExecutor(max_workers=14) as ex:
            results = list(ex.map(one, range(len(shards))))
        bad = []
        n_fail = 0
        for k, (failed, err) in enumerate(results):
            if err is not None:
                self.broken.append('certified shard %s/%d did not compile: %s' % (tag, k, err))
            for i in failed:
                bad.append(shards[k][i][0])
                n_fail += 1
        c = self.cov['correspondence'].setdefault(
            tag, {'route': 'certified (CoqInterval lemma per case, Qed)', 'cases': 0, 'agree': 0})
        c['cases'] += len(cases)
        c['agree'] += len(cases) - n_fail
        return bad

    def numeric(self, tag, header, unfold, cases, shard=24, timeout=1500, prec=80, integral=False):
        """cases: list of (label, [coq Prop strings]).  All propositions of a case are proved in one file
        section; returns the set of case labels with at least one proposition that CoqInterval could not
        prove (= disagreement between chi's floats and the model)."""
        flat = []
        for label, props in cases:
            for j, pr in enumerate(props):
                flat.append(('%s#%d' % (label, j), None, None, None, pr))
        u = ' '.join(unfold)
        tactic = ('cbv [%s]; decide_guards; cbv [close sclose is_neginf lclose slclose %s]; '
                  'repeat match goal with |- _ /\\ _ => split end; '
                  'try exact I; %s' % (u, u, (
                      'rints; interval with (i_prec %d)' % prec
                      if integral else 'interval with (i_prec %d)' % prec)))
        bad = self.interval(tag, header, tactic, flat, shard=shard, timeout=timeout)
        self.cov['correspondence'][tag]['goals'] = len(flat)
        self.cov['correspondence'][tag]['cases'] = len(cases)
        badcases = sorted({b.split('#')[0] for b in bad})
        self.cov['correspondence'][tag]['agree'] = len(cases) - len(badcases)
        return badcases

    def settle(self, what, failing, oracle, wider=None, key_of=None):
        """A correspondence (or proof) break has been observed.  `failing`: list of case payloads on which
        model and implementation disagree.  `oracle(case)` -> None if the property holds for the
        implementation on that case according to an oracle independent of the Coq model, else a
        description.  `wider`: iterable of further cases to search.  Reports violations with replay or
        marks the correspondence as broken (-> no-failing-input-found)."""
        found = False
        for case in list(failing) + list(wider or []):
            try:
                r = oracle(case)
            except Exception as e:  # the implementation raising where it should not is a failure too
                r = 'implementation raised %s: %s' % (type(e).__name__, e)
            if r:
                key = key_of(case, r) if key_of else what
                self.violation(key, r, case)
                found = True
                if len(self.violations) >= 3:
                    break
        if not found:
            self.broken.append(what)
        return found

    # ---------------- verdicts ----------------
    def violation(self, key, what, replay):
        """Report a concrete failing input.  key identifies the failing site (for known findings)."""
        for f in self.findings:
            if f.get('status') == 'open' and f.get('key') == key:
                if not any(k is f for k, _ in self.known_hits):
                    self.known_hits.append((f, what))
                return
        self.violations.append((key, what, replay))

    def finish(self):
        wall = time.time() - self.t0
        lines = []
        for f, what in self.known_hits:
            lines.append('KNOWN-FINDING: property=%s %s' % (self.pid, f.get('what', what)))
        rdir = os.path.join(VERIF, 'replays', self.pid)
        n_viol = 0
        seen_keys = set()
        for key, what, replay in self.violations:
            if key in seen_keys or n_viol >= 5:
                continue
            seen_keys.add(key)
            os.makedirs(rdir, exist_ok=True)
            body = {'property': self.pid, 'key': key, 'what': what, 'replay': replay,
                    'seed': self.seed, 'tier': self.tier,
                    'rerun': './check %s --replay <this file>' % self.pid}
            h = hashlib.sha1(json.dumps(body, sort_keys=True, default=str).encode()).hexdigest()[:12]
            path = os.path.join(rdir, h + '.json')
            with open(path, 'w') as fh:
                json.dump(body, fh, indent=1, default=str)
            lines.append('VIOLATION property=%s replay=%s' % (self.pid, path))
            n_viol += 1
        if self.broken and n_viol == 0:
            os.makedirs(rdir, exist_ok=True)
            body = {'property': self.pid, 'no_longer_checks': self.broken,
                    'note': 'a proof obligation or the model/implementation correspondence broke and the '
                            'search found no concrete failing input', 'seed': self.seed, 'tier': self.tier}
            h = hashlib.sha1(json.dumps(body, sort_keys=True).encode()).hexdigest()[:12]
            path = os.path.join(rdir, 'broken_' + h + '.json')
            with open(path, 'w') as fh:
                json.dump(body, fh, indent=1)
            lines.append('VIOLATION property=%s replay=%s no-failing-input-found' % (self.pid, path))
            n_viol += 1
        ev = {
            'property_id': self.pid, 'tier': self.tier, 'seed': self.seed, 'level': 'proof',
            'coverage': self.cov, 'assumptions': self.assumptions, 'wall_s': round(wall, 2),
            'violations': n_viol,
        }
        ev['coverage']['known_findings_reproduced'] = [f.get('key') for f, _ in self.known_hits]
        ev['coverage']['broken'] = self.broken
        os.makedirs(os.path.join(VERIF, 'evidence'), exist_ok=True)
        with open(os.path.join(VERIF, 'evidence', self.pid + '.json'), 'w') as fh:
            json.dump(ev, fh, indent=1, default=str)
        for l in lines:
            print(l, flush=True)
        self.log('done: %d cases (%d distinct non-trivial), %d obligations, violations=%d, known=%d, %.1fs' % (
            self.cov['evaluations'], self.cov['distinct_nontrivial'], self.cov['obligations'], n_viol,
            len(self.known_hits), wall))
        return 1 if n_viol else 0


# ----------------------------------------------------------------------------------------------
# helpers
# ----------------------------------------------------------------------------------------------

def strip_comments(src):
    out, depth, i = [], 0, 0
    while i < len(src):
        if src.startswith('(*', i):
            depth += 1
            i += 2
        elif src.startswith('*)', i) and depth:
            depth -= 1
            i += 2
        else:
            if not depth:
                out.append(src[i])
            i += 1
    return ''.join(out)


def toplevel_variables(src):
    """Variable/Hypothesis/Context lines that are not inside a Section."""
    depth, bad = 0, []
    for line in src.splitlines():
        if re.match(r'^\s*Section\b', line):
            depth += 1
        elif re.match(r'^\s*End\b', line) and depth:
            depth -= 1
        elif depth == 0 and TOPLEVEL_VAR.match(line):
            bad.append(line)
    return bad


def split_assumptions(out, theorems):
    """Parse the concatenated outputs of `Print Assumptions t1. Print Assumptions t2. ...`."""
    blocks = re.split(r'(?m)^(?=Closed under the global context|Axioms:|Section Variables:)', out)
    blocks = [b for b in blocks if b.startswith(('Closed', 'Axioms', 'Section'))]
    res = {}
    merged = []
    for b in blocks:
        if b.startswith('Axioms:') and merged and merged[-1].startswith('Section Variables:') \
                and 'Axioms:' not in merged[-1]:
            merged[-1] += b
        else:
            merged.append(b)
    if len(merged) != len(theorems):
        return res
    for t, b in zip(theorems, merged):
        if b.startswith('Closed'):
            res[t] = []
        else:
            res[t] = re.findall(r'(?m)^([A-Za-z_][\w\.\']*)\s*(?::|$)', b.split('Axioms:', 1)[-1])
            res[t] = [a for a in res[t] if a not in ('Axioms',)]
    return res


def load_findings():
    p = os.path.join(VERIF, 'known_findings.json')
    if not os.path.exists(p):
        return []
    return json.load(open(p)).get('findings', [])


def typed_problem(evaluate, v, what):
    """the result depends on the numbers in the vector, not on the type they are stored with: the vector rounded to
    whole numbers (zeros replaced by one) is evaluated as a float array, as an integer array and as a list of Python
    ints.  `evaluate(arg)` returns a tuple of floats / arrays.  Returns None or a description."""
    import numpy as np
    w = np.round(np.asarray(v, dtype=float))
    w[w == 0] = 1.0
    try:
        ref = evaluate(w.copy())
    except Exception:
        return None          # float vectors are the business of the main comparison
    for typ, arg in (('an integer array', w.astype(np.int64)), ('a list of Python ints', [int(x) for x in w])):
        try:
            got = evaluate(arg)
        except Exception as e:
            return '%s at %s of the whole numbers %s raises %s: %s (fine as a float array)' % (
                what, typ, w.tolist(), type(e).__name__, e)
        if not np.all(np.isfinite(np.asarray(ref[0], dtype=float))):
            # no density there: only the fact is compared (sensitivities of a non-finite score mean nothing)
            if np.all(np.isfinite(np.asarray(got[0], dtype=float))):
                return '%s at the whole numbers %s is %s when they are passed as a float array and %s when they ' \
                       'are passed as %s' % (what, w.tolist(), ref[0], got[0], typ)
            continue
        for a, b in zip(ref, got):
            a, b = np.asarray(a, dtype=float), np.asarray(b, dtype=float)
            if a.shape != b.shape or not np.allclose(a, b, rtol=1e-12, atol=1e-12, equal_nan=True):
                return '%s at the whole numbers %s is %s when they are passed as a float array and %s when they ' \
                       'are passed as %s' % (what, w.tolist(), a.tolist(), b.tolist(), typ)
    return None


def relerr(a, b):
    return abs(a - b) / (1.0 + abs(b))
