"""C15 — predictive models sample the stated generative process, correctly labelled (partial: see DESIGN §7 C15).

Proof side: Properties/C15.v — table layouts, joint posterior rows, ID shifting.
Tie, on every run, with recording doubles (a closed-form mechanistic model and an error model whose `sample` returns
the model output plus a tag, both logging what they are called with in class-level logs):
 * PredictiveModel / PopulationPredictiveModel tables against `table_ots`, Prior- / PosteriorPredictiveModel tables
   against `table_sot` (exact, vm_compute, scaled integers);
 * directly: every table value is the tagged output of exactly the (sample, time, observable) its row is labelled
   with, times ascending whatever order was passed in; population predictive patients are the population model's
   own transform (non-centred, covariate-shifted, pooled) of the draws replayed from the seed's primitive stream, for
   sample sizes different from the model's stored n_ids; covariate rows repeat the covariates per ID; prior
   predictive samples use one complete prior draw per ID; posterior predictive parameter sets are joint draws of
   the selected individual (checked against `posterior_rows`, mixed individual- and population-level variables);
   the averaged model picks models with the stated weights, every ID belongs to one model and IDs are 1..n."""
import math
import random

import numpy as np

from harness import core, c06, popspec
from harness.popspec import Sub
from harness.core import coq_list, coq_string, coqZ

THEOREMS = ['C15_table_length', 'C15_table_row', 'C15_sample_major_table_length', 'C15_sample_major_table_row',
            'C15_patients', 'C15_posterior_rows_joint', 'C15_posterior_rows_length', 'C15_pam_ids',
            'C15_param_map_positionwise', 'C15_param_map_order_independent', 'C15_param_map_chained_refuted',
            'C15_pam_partition', 'C15_pam_unique_counts_refuted']
HEADER = '''From Coq Require Import ZArith List Bool String.
From Chi Require Import Model.Predictive Tie.C08Tie Tie.C09Tie.
Import ListNotations.
Open Scope string_scope.
Definition row_eqb (a b : nat * Z * string * Z) : bool :=
  match a, b with (i, t, o, v), (i', t', o', v') => Nat.eqb i i' && Z.eqb t t' && String.eqb o o' && Z.eqb v v' end.
Fixpoint rows_eqb (a b : list (nat * Z * string * Z)) : bool :=
  match a, b with [], [] => true | x :: a', y :: b' => row_eqb x y && rows_eqb a' b' | _, _ => false end.
Definition value_of (vals : list (list (list Z))) (o t s : nat) : Z := nth s (nth t (nth o vals []) []) 0%Z.
Definition c15_ots names times n vals expected : bool :=
  rows_eqb (table_ots Z Z 0%Z names times n (value_of vals)) expected.
Definition c15_sot names times n vals expected : bool :=
  rows_eqb (table_sot Z Z 0%Z names times n (value_of vals)) expected.
(* a parameter set handed to the predictive model must be one of the joint rows *)
Definition c15_joint (n_chains n_draws : nat) (cols : list (list (list Z))) (seen : list Z) : bool :=
  existsb (lZ_eqb seen)
          (posterior_rows Z n_chains n_draws (map (fun col => fun c d => nth d (nth c col []) 0%Z) cols)).
Fixpoint lstr_eqb (a b : list string) : bool :=
  match a, b with [], [] => true | x :: a', y :: b' => String.eqb x y && lstr_eqb a' b' | _, _ => false end.
(* the dataset variables a posterior predictive model reads for its parameters, given param_map *)
Definition c15_pmap (m : list (string * string)) (names observed : list string) : bool :=
  lstr_eqb (translate m names) observed.
Fixpoint ln_eqb (a b : list nat) : bool :=
  match a, b with [], [] => true | x :: a', y :: b' => Nat.eqb x y && ln_eqb a' b' | _, _ => false end.
(* the model that generated each sample ID of an averaged model, given the model drawn for each sample *)
Definition c15_pam (k : nat) (draws observed : list nat) : bool := ln_eqb (id_models (counts k draws)) observed.
'''
SCALE_T, SCALE_V = 8, 512
_D = {}


def doubles():
    if _D:
        return _D['toy'], _D['err']
    from harness.toy import PolyToyModel, RecordingErrorModel

    class LogToy(PolyToyModel):
        shared = []

        def simulate(self, parameters, times):
            LogToy.shared.append((tuple(float(x) for x in parameters), tuple(float(t) for t in times)))
            return super().simulate(parameters, times)

    class TagErr(RecordingErrorModel):
        """sample = model output + parameter / 64 + sample index / 512 (exact for the dyadic inputs used)"""
        shared = []

        def sample(self, parameters, model_output, n_samples=None, seed=None):
            n = 1 if n_samples is None else int(n_samples)
            m = np.asarray(model_output, dtype=float)
            TagErr.shared.append(([float(p) for p in parameters], [float(x) for x in m], n))
            return m[:, None] + float(parameters[0]) / 64 + np.arange(n)[None, :] / 512
    _D['toy'], _D['err'] = LogToy, TagErr
    return LogToy, TagErr


def reset_logs():
    toy, err = doubles()
    toy.shared.clear()
    err.shared.clear()


def out(o, t, p0, p1):
    return p0 * (1 + o) + p1 * (1 + t + o)


def predictive(n_out):
    import chi
    toy, err = doubles()
    return chi.PredictiveModel(toy(2, n_out), [err(1, tag=o) for o in range(n_out)])


def table_rows(df):
    rows = []
    for _, r in df.iterrows():
        rows.append((int(r['ID']), float(r['Time']), str(r['Observable']), float(r['Value'])))
    return rows


def scaled(x, s):
    v = x * s
    assert v == int(v), ('not on the grid', x)
    return int(v)


def coq_rows(rows):
    return coq_list(rows, lambda r: '(%d, (%s)%%Z, %s, (%s)%%Z)' % (
        r[0], coqZ(scaled(r[1], SCALE_T)), coq_string(r[2]), coqZ(scaled(r[3], SCALE_V))))


def coq_vals(vals):
    return coq_list(vals, lambda a: coq_list(a, lambda b: '%s%%Z' % coq_list([scaled(x, SCALE_V) for x in b], coqZ)))


# ------------------------------------------------------------------------------------------------
# the five models
# ------------------------------------------------------------------------------------------------

def check_predictive(rng, exprs, label):
    n_out = rng.choice([1, 2, 3])
    pm = predictive(n_out)
    names = pm.get_output_names()
    times = rng.sample([0.5, 1.0, 1.5, 2.0, 3.0, 4.0], rng.choice([1, 2, 3, 4]))
    n = rng.choice([1, 2, 3])
    p0, p1 = core.dyadic(rng, 4, 16, 8), core.dyadic(rng, 4, 16, 8)
    eps = [core.dyadic(rng, 1, 8, 8) for _ in range(n_out)]
    df = pm.sample([p0, p1] + eps, times, n_samples=n, seed=rng.randrange(1000))
    rows = table_rows(df)
    ts = sorted(times)
    vals = [[[out(o, t, p0, p1) + eps[o] / 64 + s / 512 for s in range(n)] for t in ts] for o in range(n_out)]
    if len(rows) != n_out * len(ts) * n:
        return 'PredictiveModel table has %d rows for %d outputs x %d times x %d samples' % (len(rows), n_out, len(ts), n)
    seen = set()
    for (i, t, o, v) in rows:
        if o not in names or t not in ts or not 1 <= i <= n:
            return 'PredictiveModel table row (%s, %s, %s) is outside the requested samples / times / outputs' % (i, t, o)
        if v != vals[names.index(o)][ts.index(t)][i - 1]:
            return ('PredictiveModel table: the value labelled (ID %d, time %s, %s) is %r; sample %d of that output at '
                    'that time is %r (times passed as %s)' % (i, t, o, v, i, vals[names.index(o)][ts.index(t)][i - 1], times))
        seen.add((i, t, o))
    if len(seen) != len(rows):
        return 'PredictiveModel table labels some (ID, time, observable) twice'
    for o in names:
        tt = [r[1] for r in rows if r[2] == o and r[0] == 1]
        if tt != sorted(tt):
            return 'PredictiveModel table: times of %s are not ascending: %s' % (o, tt)
    exprs.append((label, 'c15_ots %s %s%%Z %d %s %s' % (
        coq_list(names, coq_string), coq_list([scaled(t, SCALE_T) for t in ts], coqZ), n, coq_vals(vals), coq_rows(rows))))
    return None


def check_population(rng, exprs, label):
    import chi
    n_out = rng.choice([1, 2])
    pm = predictive(n_out)
    n_par = 2 + n_out
    subs = []
    left = n_par
    while left > 0:
        kind = rng.choice(['G', 'LN', 'LN', 'P', 'TG'])
        d = {'kind': kind, 'nd': 1, 'centered': rng.random() < 0.5, 'n_het': None}
        if rng.random() < 0.3:
            d['cov'] = {'n_cov': rng.choice([1, 2]), 'sel': None if rng.random() < 0.5 else [[0, 0]]}
        subs.append(d)
        left -= 1
    S = [Sub(**d) for d in subs]
    built = [s.build() for s in S]
    for k, (s, b) in enumerate(zip(S, built)):
        if s.cov:
            b.set_covariate_names(['cov %d.%d' % (k, c) for c in range(s.n_cov())])
    pop = chi.ComposedPopulationModel(built)
    stored = rng.choice([1, 2, 5])
    pop.set_n_ids(stored)                      # as left behind by a likelihood / controller
    n = rng.choice([1, 2, 3, 4])
    theta = []
    for s in S:
        if s.kind == 'P':
            theta += [core.dyadic(rng, 4, 12, 8)]
        else:
            theta += [core.dyadic(rng, 0, 4, 8), core.dyadic(rng, 8, 12, 16)]       # sigma >= 0.5 also after covariate shifts
        theta += [core.dyadic(rng, -2, 2, 16) for _ in range(len(s.selection()) * s.n_cov())]
    n_cov = sum(s.n_cov() for s in S)
    chis = None
    if n_cov:
        rows_c = n if rng.random() < 0.6 else 1
        chis = [[core.dyadic(rng, -4, 8, 8) for _ in range(n_cov)] for _ in range(rows_c)]     # |shift| <= 2 * 0.125 * 1
    seed = rng.randrange(10 ** 6)
    times = rng.sample([0.5, 1.0, 2.0, 4.0], rng.choice([2, 3]))
    ppm = chi.PopulationPredictiveModel(pm, pop)
    reset_logs()
    kw = {'covariates': np.array(chis, dtype=float)} if chis is not None else {}
    df = ppm.sample(theta, times, n_samples=n, seed=seed, **kw)
    toy, err = doubles()
    case = {'type': 'pop', 'subs': subs, 'theta': theta, 'chis': chis, 'n': n, 'seed': seed, 'composed': True,
            'fix_first': False}
    eta, logs = c06.pop_replay(case)
    # the population model's own transform to individual parameters, written out independently
    chis_n = None if chis is None else (chis if len(chis) == n else chis * n)
    psi = np.empty_like(eta)
    for s, (d0, p0_, c0) in zip(S, popspec.slices(S)):
        th = theta[p0_:p0_ + s.n_par()]
        for i in range(n):
            ch = chis_n[i][c0:c0 + s.n_cov()] if s.cov else None
            if s.kind == 'P':
                psi[i, d0] = s.par_value(th, 0, 0, i, ch)
            elif s.centered or s.kind == 'TG':
                psi[i, d0] = eta[i, d0]
            else:
                mu, sg = s.par_value(th, 0, 0, i, ch), s.par_value(th, 1, 0, i, ch)
                psi[i, d0] = mu + sg * eta[i, d0] if s.kind == 'G' else math.exp(mu + sg * eta[i, d0])
    if len(toy.shared) != n:
        return 'PopulationPredictiveModel simulated %d patients for %d samples' % (len(toy.shared), n)
    for p in range(n):
        got = list(toy.shared[p][0]) + [err.shared[p * n_out + o][0][0] for o in range(n_out)]
        if not np.allclose(got, psi[p], rtol=1e-12, atol=0):
            return ('PopulationPredictiveModel (%s, n_samples=%d, stored n_ids=%d): patient %d was simulated with %s; the '
                    'population model\'s transform of its draw is %s' % (
                        [s.describe() for s in S], n, stored, p + 1, got, psi[p].tolist()))
        if list(toy.shared[p][1]) != sorted(times):
            return 'PopulationPredictiveModel simulated patient %d at times %s' % (p + 1, toy.shared[p][1])
    rows = [r for r in table_rows(df) if not math.isnan(r[1])]
    names = pm.get_output_names()
    ts = sorted(times)
    for (i, t, o, v) in rows:
        pp = psi[i - 1]
        want = out(names.index(o), t, toy.shared[i - 1][0][0], toy.shared[i - 1][0][1]) + \
            err.shared[(i - 1) * n_out + names.index(o)][0][0] / 64
        if abs(v - want) > 1e-9 * (1 + abs(want)):
            return ('PopulationPredictiveModel table: the value labelled (ID %d, time %s, %s) is %r, patient %d gives %r'
                    % (i, t, o, v, i, want))
        del pp
    if len(rows) != n_out * len(ts) * n:
        return 'PopulationPredictiveModel table has %d measurement rows' % len(rows)
    if chis is not None:
        cov_names = pop.get_covariate_names()
        crow = df[df['Time'].isna()]
        for c, name in enumerate(cov_names):
            vals = crow[crow['Observable'] == name].sort_values('ID')
            want = [chis_n[i][c] for i in range(n)]
            if list(vals['ID']) != list(range(1, n + 1)) or [float(x) for x in vals['Value']] != want:
                return 'PopulationPredictiveModel table: covariate %s is tabulated as %s, the covariates are %s' % (
                    name, list(zip(vals['ID'], vals['Value'])), want)
    return None


def check_prior(rng, exprs, label):
    import chi
    import pints
    n_out = rng.choice([1, 2])
    pm = predictive(n_out)
    n_par = pm.n_parameters()
    calls = []

    class TagPrior(pints.LogPrior):
        def n_parameters(self): return n_par
        def __call__(self, x): return 0.0

        def sample(self, n=1):
            k = len(calls)
            calls.append(k)
            return np.array([[1.0 + k + j / 8 for j in range(n_par)] for _ in range(n)])
    pp = chi.PriorPredictiveModel(pm, TagPrior())
    times = rng.sample([0.5, 1.0, 2.0, 4.0], rng.choice([2, 3]))
    n = rng.choice([1, 2, 3])
    df = pp.sample(times, n_samples=n, seed=rng.randrange(1000))
    rows = table_rows(df)
    names = pm.get_output_names()
    ts = sorted(times)
    vals = [[[out(o, t, 1.0 + s, 1.0 + s + 1 / 8) + (1.0 + s + (2 + o) / 8) / 64 for s in range(n)] for t in ts]
            for o in range(n_out)]
    if len(rows) != n * n_out * len(ts):
        return 'PriorPredictiveModel table has %d rows' % len(rows)
    for (i, t, o, v) in rows:
        if t not in ts or o not in names or not 1 <= i <= n:
            return 'PriorPredictiveModel table row (%s, %s, %s) is outside the request' % (i, t, o)
        want = vals[names.index(o)][ts.index(t)][i - 1]
        if v != want:
            return ('PriorPredictiveModel table: the value labelled (ID %d, time %s, %s) is %r; with the %d-th prior draw '
                    'that output at that time is %r (times passed as %s)' % (i, t, o, v, i, want, times))
    exprs.append((label, 'c15_sot %s %s%%Z %d %s %s' % (
        coq_list(names, coq_string), coq_list([scaled(t, SCALE_T) for t in ts], coqZ), n, coq_vals(vals), coq_rows(rows))))
    return None


def tagged_dataset(rng, names, ids, pooled):
    """value of parameter j at (chain c, draw d, individual k) = 1 + c/2 + d/16 + k/128 + j/1024: rows are joint
    iff all entries carry the same (c, d) (and k)"""
    import xarray as xr
    n_chains, n_draws = rng.choice([(1, 3), (2, 2), (2, 3), (3, 2)])
    data = {}
    for j, name in enumerate(names):
        if name in pooled:
            arr = np.array([[1 + c / 2 + d / 16 + j / 1024 for d in range(n_draws)] for c in range(n_chains)])
            data[name] = xr.DataArray(arr, dims=['chain', 'draw'], coords={'chain': list(range(n_chains)),
                                                                           'draw': list(range(n_draws))})
        else:
            arr = np.array([[[1 + c / 2 + d / 16 + k / 128 + j / 1024 for k in range(len(ids))] for d in range(n_draws)]
                            for c in range(n_chains)])
            data[name] = xr.DataArray(arr, dims=['chain', 'draw', 'individual'],
                                      coords={'chain': list(range(n_chains)), 'draw': list(range(n_draws)),
                                              'individual': ids})
    return xr.Dataset(data), n_chains, n_draws


def check_posterior(rng, exprs, label):
    import chi
    n_out = rng.choice([1, 2])
    pm = predictive(n_out)
    names = pm.get_parameter_names()
    ids = rng.sample(['b', 'a', 'zz', 'c10'], rng.choice([1, 2, 3]))
    pooled = [n for n in names if rng.random() < 0.35]
    # the posterior may store the variables under other names (param_map: model name -> name in the dataset); those
    # may be new names or names of other model parameters (swapped, shifted along a chain), in any dictionary order
    dsname, pmap = list(names), None
    if rng.random() < 0.5:
        sub = rng.sample(range(len(names)), rng.randint(1, len(names)))
        mode = rng.choice(['fresh', 'cycle', 'chain'])
        if mode == 'fresh' or len(sub) == 1:
            targets = ['variable %d' % j for j in sub]
        elif mode == 'cycle':
            targets = [names[j] for j in sub[1:] + sub[:1]]
        else:
            targets = [names[j] for j in sub[1:]] + ['variable end']
        pairs = list(zip(sub, targets))
        rng.shuffle(pairs)
        pmap = {names[j]: t for j, t in pairs}
        for j, t in pairs:
            dsname[j] = t
    ds, n_chains, n_draws = tagged_dataset(rng, dsname, ids, [dsname[j] for j, n in enumerate(names) if n in pooled])
    pp = chi.PosteriorPredictiveModel(pm, ds) if pmap is None else chi.PosteriorPredictiveModel(pm, ds, param_map=pmap)
    if pmap is not None and hasattr(pp, '_parameter_names'):
        exprs.append((label, 'c15_pmap %s %s %s' % (
            coq_list(list(pmap.items()), lambda kv: '(%s, %s)' % (coq_string(kv[0]), coq_string(kv[1]))),
            coq_list(names, coq_string), coq_list(list(pp._parameter_names), coq_string))))
    # several requests to one model object, for different individuals
    inds = [rng.choice(ids)]
    if len(ids) > 1 and rng.random() < 0.7:
        inds.append(rng.choice([i for i in ids if i != inds[0]]))
        if rng.random() < 0.5:
            inds.append(inds[0])
    for ind in inds:
        r = posterior_request(rng, exprs, label, pp, pm, names, ids, pooled, ind, n_chains, n_draws, n_out, pmap)
        if r:
            return r
    return None


def posterior_request(rng, exprs, label, pp, pm, names, ids, pooled, ind, n_chains, n_draws, n_out, pmap):
    k = ids.index(ind)
    times = rng.sample([0.5, 1.0, 2.0, 4.0], rng.choice([2, 3]))
    n = rng.choice([1, 2, 4])
    reset_logs()
    df = pp.sample(times, n_samples=n, individual=ind, seed=rng.randrange(1000))
    toy, err = doubles()
    if len(toy.shared) != n:
        return 'PosteriorPredictiveModel simulated %d parameter sets for %d samples' % (len(toy.shared), n)
    cols = []
    for j, name in enumerate(names):
        if name in pooled:
            cols.append([[1 + c / 2 + d / 16 + j / 1024 for d in range(n_draws)] for c in range(n_chains)])
        else:
            cols.append([[1 + c / 2 + d / 16 + k / 128 + j / 1024 for d in range(n_draws)] for c in range(n_chains)])
    rows = table_rows(df)
    out_names = pm.get_output_names()
    ts = sorted(times)
    vals = [[[None] * n for _ in ts] for _ in range(n_out)]
    for s in range(n):
        got = list(toy.shared[s][0]) + [err.shared[s * n_out + o][0][0] for o in range(n_out)]
        joint = [(c, d) for c in range(n_chains) for d in range(n_draws)
                 if all(got[j] == cols[j][c][d] for j in range(len(names)))]
        if not joint:
            return ('PosteriorPredictiveModel(individual=%s): sample %d was simulated with %s, which is not one joint '
                    '(chain, draw) of that individual (pooled variables: %s, param_map: %s)' % (ind, s + 1, got, pooled, pmap))
        exprs.append((label, 'c15_joint %d %d %s %s%%Z' % (
            n_chains, n_draws, coq_list(cols, lambda col: coq_list(col, lambda r: '%s%%Z' % coq_list(
                [scaled(x, 1024) for x in r], coqZ))), coq_list([scaled(x, 1024) for x in got], coqZ))))
        for o in range(n_out):
            for ti, t in enumerate(ts):
                vals[o][ti][s] = out(o, t, got[0], got[1]) + got[2 + o] / 64
    for (i, t, o, v) in rows:
        if t not in ts or o not in out_names or not 1 <= i <= n:
            return 'PosteriorPredictiveModel table row (%s, %s, %s) is outside the request' % (i, t, o)
        want = vals[out_names.index(o)][ts.index(t)][i - 1]
        if abs(v - want) > 1e-12 * (1 + abs(want)):
            return 'PosteriorPredictiveModel table: the value labelled (ID %d, time %s, %s) is %r, expected %r' % (
                i, t, o, v, want)
    if len(rows) != n * n_out * len(ts):
        return 'PosteriorPredictiveModel table has %d rows' % len(rows)
    # every (chain, draw) of the individual is a possible parameter set, all equally likely
    big = 60 * n_chains * n_draws
    reset_logs()
    pp.sample([1.0], n_samples=big, individual=ind, seed=rng.randrange(1000))
    counts = {}
    for s in range(big):
        p0 = toy.shared[s][0][0]
        counts[p0] = counts.get(p0, 0) + 1
    want = {cols[0][c][d] for c in range(n_chains) for d in range(n_draws)}
    if set(counts) != want:
        return ('PosteriorPredictiveModel(individual=%s): %d samples used %d of the %d (chain, draw) parameter sets of the '
                'posterior' % (ind, big, len(set(counts) & want), len(want)))
    pr = 1.0 / len(want)
    for v, c in counts.items():
        if abs(c / big - pr) > 6 * math.sqrt(pr * (1 - pr) / big):
            return 'PosteriorPredictiveModel: one posterior draw was used with frequency %.3f, expected %.3f' % (c / big, pr)
    return None


def check_pam(rng):
    import chi
    pm = predictive(1)
    names = pm.get_parameter_names()
    models = []
    for m in range(3):
        ds, _, _ = tagged_dataset(random.Random(m), names, ['a', 'b'], [])
        ds = ds + 10.0 * m                       # the model is recognisable from the values
        models.append(chi.PosteriorPredictiveModel(pm, ds))

    def draw(w, n, seed):
        """model index of every sample ID (value = out_0(1.0; p0, p1) + eps/64 with parameters 10 m + (1 .. 2.6):
        model m gives values in a band of its own)"""
        pam = chi.PAMPredictiveModel(models, w)
        reset_logs()
        df = pam.sample([1.0], n_samples=n, individual='b', seed=seed)
        ids = sorted(int(x) for x in df['ID'])
        if ids != list(range(1, n + 1)):
            return None, 'PAMPredictiveModel(weights %s): the sample IDs are not 1..%d, each once (e.g. %s)' % (w, n, ids[:5])
        v = df.sort_values('ID')['Value'].to_numpy(dtype=float)
        return np.digitize(v, [25.0, 55.0]), None

    def compare(w, band, n):
        tot = sum(w)
        for m in range(3):
            pr = w[m] / tot
            f = float(np.mean(band == m))
            if (pr == 0 and f > 0) or abs(f - pr) > 5 * math.sqrt(pr * (1 - pr) / n):
                return 'PAMPredictiveModel(weights %s): model %d generated a fraction %.3f of %d samples, its weight ' \
                       'is %.3f' % (w, m, f, n, pr)
        return None
    # many samples in one request, also with models that must never be chosen
    for w, n in (([0.2, 0.5, 0.3], 3000), ([2, 0, 2], 400), ([0, 0, 1], 7), ([0, 1, 0], 3)):
        band, err = draw(w, n, rng.randrange(1000))
        err = err or compare(w, band, n)
        if err:
            return err
    # few samples per request (most models are not drawn at all), over many requests
    for w, n in (([0.2, 0.5, 0.3], 1), ([0.1, 0.3, 0.6], 2)):
        bands = []
        for rep in range(150):
            band, err = draw(w, n, 1000 * n + rep)
            if err:
                return err
            bands += list(band)
        err = compare(w, np.array(bands), len(bands))
        if err:
            return err + ' (requests of %d sample(s))' % n
    return None


def check_pam_ids(rng, exprs, label):
    """which model generated which sample ID: chi's table vs id_models (counts k draws), the draws replayed from the
    seeded generator"""
    import chi
    pm = predictive(1)
    names = pm.get_parameter_names()
    k = rng.choice([2, 3, 4])
    models = []
    for m in range(k):
        ds, _, _ = tagged_dataset(random.Random(m), names, ['a', 'b'], [])
        models.append(chi.PosteriorPredictiveModel(pm, ds + 10.0 * m))
    w = [rng.choice([0, 1, 1, 2, 5]) for _ in range(k)]
    if sum(w) == 0:
        w[rng.randrange(k)] = 1
    n = rng.choice([1, 2, 3, 5, 8])
    seed = rng.randrange(10 ** 6)
    pam = chi.PAMPredictiveModel(models, w)
    reset_logs()
    df = pam.sample([1.0], n_samples=n, individual='b', seed=seed)
    ids = sorted(int(x) for x in df['ID'])
    if ids != list(range(1, n + 1)):
        return 'PAMPredictiveModel(weights %s): the sample IDs of %d samples are %s' % (w, n, ids)
    v = df.sort_values('ID')['Value'].to_numpy(dtype=float)
    observed = [int(b) for b in np.digitize(v, [25.0 + 30.0 * j for j in range(k - 1)])]
    p = np.array(w, dtype=float) / sum(w)
    draws = [int(x) for x in np.random.default_rng(seed).choice(np.arange(k), p=p, size=n)]
    if any(w[m] == 0 for m in observed):
        return 'PAMPredictiveModel(weights %s): a sample was generated from a model of weight 0 (models per ID: %s)' % (
            w, observed)
    exprs.append((label, 'c15_pam %d %s %s' % (k, coq_list(draws), coq_list(observed))))
    return None


def check_regimen(rng, exprs, label):
    """include_regimen=True: every sample ID carries exactly the dose events scheduled up to the last requested time"""
    import chi
    from harness import c14
    toy = c14.dosed_toy()
    _, err = doubles()
    pm = chi.PredictiveModel(toy(2, 1), [err(1)])
    dose = rng.randint(1, 16) / 4
    start = rng.choice([0.0, 0.5, 1.0, 2.0])
    duration = rng.choice([0.25, 0.5])
    period = rng.choice([None, 1.0, 2.0])
    num = rng.choice([None, 2, 3]) if period else None
    pm.set_dosing_regimen(dose, start=start, duration=duration, period=period, num=num)
    k = rng.choice([0, 1, 2, 3])
    last = start + k * (period or 1.0) + rng.choice([0.0, 0.0, 0.25, -0.25])     # often exactly on a dose time
    last = max(last, 0.25)
    times = sorted({last, max(0.125, last / 2)}, reverse=True)
    n = rng.choice([1, 2])
    df = pm.sample([1.0, 0.5, 0.25], times, n_samples=n, seed=1, include_regimen=True)
    if period is None:
        sched = [start]
    elif num:
        sched = [start + j * period for j in range(num)]
    else:
        sched = [start + j * period for j in range(1000)]
    want = [(t, duration, dose) for t in sched if t <= last]
    has = 'Dose' in df.columns and 'Duration' in df.columns
    doses = df[df['Dose'].notna()] if has else df.iloc[0:0]
    for i in range(1, n + 1):
        mine = doses[doses['ID'] == i].sort_values('Time')
        got = [(float(a), float(b), float(c)) for a, b, c in zip(mine['Time'], mine['Duration'], mine['Dose'])] if has else []
        if len(got) != len(want) or any(abs(x - y) > 1e-9 for g, w in zip(got, want) for x, y in zip(g, w)):
            return ('table with include_regimen=True, times up to %s: sample ID %d carries the dose events %s; the regimen '
                    '(dose %s from %s every %s, %s times) schedules %s' % (last, i, got[:6], dose, start, period, num,
                                                                           want[:6]))
    meas = df[df['Dose'].isna()] if has else df
    if len(meas) != n * len(times):
        return 'table with include_regimen=True has %d measurement rows for %d samples x %d times' % (
            len(meas), n, len(times))
    return None


CHECKS = [('regimen', check_regimen), ('predictive', check_predictive), ('population', check_population), ('prior', check_prior),
          ('posterior', check_posterior), ('averaged', check_pam_ids)]


def oracle(case):
    rng = random.Random(case['seed'])
    for name, f in CHECKS:
        if case.get('kind') in (None, name):
            d = f(rng, [], 'x')
            if d:
                return d
    return check_pam(rng) if case.get('kind') in (None, 'pam') else None


def key_of(case, what):
    return 'C15|%s' % (what.split(' ')[0].split(':')[0])


def run(ck):
    import chi  # noqa: F401
    exprs, payload = [], {}
    for k in range(ck.n(50, 500)):
        for name, f in CHECKS:
            seed = ck.rng.randrange(10 ** 9)
            label = '%s%d' % (name[:3], k)
            mine = []
            try:
                d = f(random.Random(seed), mine, label)
            except Exception as e:
                import traceback
                d = '%s: chi raised %s: %s %s' % (name, type(e).__name__, e, traceback.format_exc()[-200:])
            ck.count(name + ' predictive model')
            ck.case({'kind': name, 'seed': seed})
            if d:
                ck.violation(key_of({}, d), d, {'kind': name, 'seed': seed})
                continue
            payload[label] = {'kind': name, 'seed': seed}
            exprs += mine
    for j in range(ck.n(2, 10)):
        seed = ck.rng.randrange(10 ** 9)
        d = check_pam(random.Random(seed))
        ck.count('averaged predictive model')
        ck.case({'kind': 'pam', 'seed': seed})
        if d:
            ck.violation(key_of({}, d), d, {'kind': 'pam', 'seed': seed})
    ck.cov['rule'] = ('PredictiveModel with 1-3 outputs, 1-4 unsorted times, 1-3 samples; PopulationPredictiveModel over '
                      'compositions of Gaussian / log-normal (centred and not) / pooled / truncated sub-models with and '
                      'without covariates, n_samples 1-4 with stored n_ids 1, 2 or 5; PriorPredictiveModel with a tagged '
                      'prior; PosteriorPredictiveModel on tagged datasets of 1-3 chains x 2-3 draws x 1-3 individuals with '
                      'mixed individual- and population-level variables; PAMPredictiveModel with 3 models: 3000 samples, zero weights, 300 requests of 1-2 samples; posterior predictive models with param_map (new, swapped and chained names) and repeated requests for different individuals; '
                      'distinct = distinct seed')
    ck.log('exact route: %d expressions' % len(exprs))
    bad = ck.exact('tables', HEADER, exprs, shard=120)
    wider = ({'seed': ck.seed * 7 + j} for j in range(ck.n(40, 300)))
    if bad:
        bad = sorted(set(bad))
        ck.settle('correspondence C15: Model/Predictive.v and chi differ on %s' % bad[:5],
                  [payload[b] for b in bad], oracle, wider, key_of)
    elif ck.broken:
        ck.settle(ck.broken.pop(), [], oracle, wider, key_of)


def replay(ck, body):
    r = oracle(body['replay'])
    print('oracle:', r)
    return r is None
