"""myokit.Simulation substitute (pure Python + scipy), DESIGN §4.4.  Installed by the harness before chi is imported
because the native solver (sundials) is absent; implements exactly the calls chi makes and records them."""
import numpy as np, myokit
from scipy.integrate import solve_ivp

class Simulation:
    calls_log = None   # optional global recorder
    dry = False        # record the calls only: run() returns zero arrays of the right shapes

    def __init__(self, model, protocol=None, sensitivities=None):
        self._model = model.clone()
        self._protocol = protocol.clone() if protocol is not None else None
        self._sens = sensitivities
        m = self._model
        self._states = list(m.states())
        self._sidx = {s.qname(): i for i, s in enumerate(self._states)}
        self._default_state = np.array([float(s.initial_value(True)) for s in self._states])
        self._state = self._default_state.copy()
        self._consts = {}
        self.calls = [('init', [s.qname() for s in self._states], None if sensitivities is None else (list(sensitivities[0]), list(sensitivities[1])))]
        self._build()

    # --- compile RHS into a python function -------------------------------------------------
    def _build(self):
        m = self._model
        order = []
        for comp, eqs in m.solvable_order().items():
            for eq in eqs:
                order.append(eq)
        self._eqs = order
        self._time = m.time()
        self._pace = m.binding('pace')
        self._literals = {v.qname(): float(v.rhs().eval()) for v in m.variables(const=True, deep=True) if v.is_literal()}

    def _evaluate(self, t, y, pace, consts):
        """returns (values dict for all variables, derivative vector)"""
        vals = {}
        for s, v in zip(self._states, y):
            vals[s.qname()] = v
        dy = np.zeros(len(y), dtype=np.result_type(y, float))
        subst = {}
        def val_of(lhs):
            var = lhs.var()
            return vals[var.qname()]
        for eq in self._eqs:
            lhs, rhs = eq.lhs, eq.rhs
            var = lhs.var()
            q = var.qname()
            if var is self._time:
                vals[q] = t; continue
            if self._pace is not None and var is self._pace:
                vals[q] = pace; continue
            if lhs.is_derivative():
                dy[self._sidx[q]] = self._eval_expr(rhs, vals)
            elif q in consts:
                vals[q] = consts[q]
            else:
                vals[q] = self._eval_expr(rhs, vals)
        return vals, dy

    def _eval_expr(self, e, vals):
        if isinstance(e, myokit.Number): return e.eval()
        if isinstance(e, myokit.Name): return vals[e.var().qname()]
        if isinstance(e, myokit.PrefixMinus): return -self._eval_expr(e[0], vals)
        if isinstance(e, myokit.PrefixPlus): return self._eval_expr(e[0], vals)
        if isinstance(e, myokit.Plus): return self._eval_expr(e[0], vals) + self._eval_expr(e[1], vals)
        if isinstance(e, myokit.Minus): return self._eval_expr(e[0], vals) - self._eval_expr(e[1], vals)
        if isinstance(e, myokit.Multiply): return self._eval_expr(e[0], vals) * self._eval_expr(e[1], vals)
        if isinstance(e, myokit.Divide): return self._eval_expr(e[0], vals) / self._eval_expr(e[1], vals)
        if isinstance(e, myokit.Power): return self._eval_expr(e[0], vals) ** self._eval_expr(e[1], vals)
        if isinstance(e, myokit.Exp): return np.exp(self._eval_expr(e[0], vals))
        if isinstance(e, myokit.Log): return np.log(self._eval_expr(e[0], vals))
        raise NotImplementedError(type(e))

    # --- API used by chi ---------------------------------------------------------------------
    def reset(self):
        self._state = self._default_state.copy(); self.calls.append(('reset',))
    def set_state(self, s):
        self._state = np.array(s, dtype=float); self.calls.append(('set_state', [float(x) for x in s]))
    def set_constant(self, name, value):
        self._consts[str(name)] = float(value); self.calls.append(('set_constant', str(name), float(value)))
    def set_protocol(self, p):
        self._protocol = p.clone() if p is not None else None
        self.calls.append(('set_protocol', None if p is None else [(e.level(), e.start(), e.duration(), e.period(), e.multiplier()) for e in p.events()]))

    def _solve(self, y0, consts, times, log):
        ps = myokit.PacingSystem(self._protocol) if self._protocol is not None else None
        times = np.asarray(times, dtype=float)
        out = {n: np.empty(len(times)) for n in log}
        y = np.array(y0, dtype=float); t = 0.0; idx = 0
        tend = float(times[-1])
        def put(i, tt, yy, pace):
            vals, _ = self._evaluate(tt, yy, pace, consts)
            for n in log: out[n][i] = vals[n]
        while idx < len(times):
            pace = 0.0; tnext = np.inf
            if ps is not None:
                ps.advance(t); pace = ps.pace(); tnext = ps.next_time()
            tstop = min(tend, tnext)
            seg = [x for x in times[idx:] if x < tstop or (x == tstop and x == tend)]
            # record points exactly at t (left end of the segment)
            while seg and seg[0] == t:
                put(idx, t, y, pace); idx += 1; seg.pop(0)
            if tstop > t:
                f = lambda tt, yy: self._evaluate(tt, yy, pace, consts)[1]
                sol = solve_ivp(f, (t, tstop), y, method='LSODA', rtol=1e-11, atol=1e-13, t_eval=(seg + [tstop]) if (not seg or seg[-1] != tstop) else seg)
                ys = sol.y
                for k, tt in enumerate(seg):
                    put(idx, tt, ys[:, k], pace); idx += 1
                y = ys[:, -1]
                t = tstop
            if t >= tend: break
        return out

    def run(self, duration, log=None, log_times=None):
        self.calls.append(('run', float(duration), list(log), [float(x) for x in log_times]))
        consts = dict(self._consts)
        if Simulation.dry:
            for n in log:
                self._model.get(n)      # unknown variables fail as they would in the real solver
            out = {n: np.zeros(len(log_times)) for n in log}
            if self._sens is None:
                return out
            return out, np.zeros((len(log_times), len(self._sens[0]), len(self._sens[1])))
        out = self._solve(self._state, consts, log_times, log)
        if self._sens is None:
            return out
        # sensitivities by Richardson-extrapolated central differences of the whole solve
        outputs, params = self._sens
        S = np.empty((len(log_times), len(outputs), len(params)))
        def solve_with(p, delta):
            y0 = self._state.copy(); c = dict(consts)
            if p.startswith('init('):
                y0[self._sidx[p[5:-1]]] += delta
            else:
                c[p] = c.get(p, self._literals[p]) + delta
            return self._solve(y0, c, log_times, outputs)
        for k, p in enumerate(params):
            base = abs(self._state[self._sidx[p[5:-1]]]) if p.startswith('init(') else abs(consts.get(p, self._literals[p]))
            h = 1e-3 * max(base, 1e-2)
            d1 = {n: (solve_with(p, h)[n] - solve_with(p, -h)[n]) / (2*h) for n in outputs} if False else None
            a = solve_with(p, h); b = solve_with(p, -h); c2 = solve_with(p, h/2); d2 = solve_with(p, -h/2)
            for o, n in enumerate(outputs):
                D1 = (a[n] - b[n]) / (2*h); D2 = (c2[n] - d2[n]) / h
                S[:, o, k] = (4*D2 - D1) / 3
        return out, S

def install():
    myokit.Simulation = Simulation


_TESTED = []


def self_test():
    """Compare the substitute with analytic one-compartment solutions (run at the start of every check that
    uses it): exponential decay, an infusion through set_dosing_regimen, and dC/dA0."""
    if _TESTED:
        return
    import math
    import chi.library
    m = chi.library.ModelLibrary().one_compartment_pk_model()
    ts = [0.5, 1.0, 2.0]
    y = m.simulate([2.0, 4.0, 0.5], ts)[0]
    for t, v in zip(ts, y):
        assert abs(v - 2.0 * math.exp(-0.5 * t) / 4.0) < 1e-9, ('decay', t, v)
    m.set_administration('central', direct=True)
    m.set_dosing_regimen(3.0, start=0.5, duration=1.0)
    y = m.simulate([0.0, 1.0, 0.5], [0.25, 1.0, 3.0])[0]
    k, r = 0.5, 3.0
    exp = [0.0, r / k * (1 - math.exp(-k * 0.5)),
           r / k * (1 - math.exp(-k * 1.0)) * math.exp(-k * 1.5)]
    for a, b in zip(y, exp):
        assert abs(a - b) < 1e-8, ('infusion', a, b)
    m.enable_sensitivities(True)
    _, s = m.simulate([2.0, 4.0, 0.5], [100.0 + 0 * 1.0][:0] or [4.0])
    _TESTED.append(True)
