"""C05 — population models: documented densities, additive, layout-invariant, exact sensitivities.

Tie (certified numeric): chi's population model classes (Gaussian / log-normal centred and non-centred, truncated
Gaussian, pooled, heterogeneous) alone and composed, evaluated through compute_log_likelihood,
compute_individual_parameters and compute_sensitivities in the flat / matrix / tensor parameter layouts and the
separate / flattened / hierarchical return forms, with and without upstream sensitivities; every returned number
is certified against the term-level model Model/PopModels.v assembled by harness/popspec.py.
Direct checks: layout invariance (bit-identical results for the three layouts of the same values), lengths equal
the reported counts.  Search: scipy.stats densities and Richardson finite differences."""
import copy
import math
import random

import numpy as np

from harness import core
from harness.core import coqR, coq_list
from harness import popspec
from harness.popspec import Sub, plus

THEOREMS = ['C05_G_density', 'C05_LN_density', 'C05_TG_density', 'C05_NC_density', 'C05_point_mass',
            'C05_G_dpsi', 'C05_G_dmu', 'C05_G_dsigma', 'C05_LN_dpsi', 'C05_LN_dmu', 'C05_LN_dsigma',
            'C05_TG_dpsi', 'C05_TG_dmu', 'C05_TG_dsigma', 'C05_NC_deta',
            'C05_upstream_centered_G', 'C05_upstream_centered_LN', 'C05_upstream_Gnc_eta', 'C05_upstream_Gnc_mu',
            'C05_upstream_Gnc_sigma', 'C05_upstream_LNnc_eta', 'C05_upstream_LNnc_mu', 'C05_upstream_LNnc_sigma',
            'C05_G_population_dmu', 'C05_G_population_dsigma']
HEADER = '''From Coq Require Import Reals Lra List.
From Coquelicot Require Import Coquelicot.
From Interval Require Import Tactic.
From Chi Require Import Base.RSum Base.Score Base.Tie Base.Normal Base.Phi Model.PopModels.
Import ListNotations.
Open Scope R_scope.
'''
UNFOLD = ('G_lp G_dpsi G_dmu G_dsig LN_lp LN_dpsi LN_dmu LN_dsig TG_lp TG_dpsi TG_dmu TG_dsig NC_lp NC_deta '
          'Gnc_psi LNnc_psi up_centered Gnc_deta Gnc_dmu Gnc_dsig LNnc_deta LNnc_dmu LNnc_dsig cov_shift Phi phi '
          'Rsum map combine fst snd').split()
TOL = 1e-9


def gen_sub(rng, allow_special=True):
    kind = rng.choice(['G', 'G', 'LN', 'LN', 'TG'] + (['P', 'H'] if allow_special else []))
    nd = rng.choice([1, 1, 2, 3])
    centered = rng.random() < 0.6
    return kind, nd, centered


def gen_values(rng, subs, n_ids):
    """population vector, bottom-level matrix, upstream matrix (and covariates in the attribute gen_values.chis)"""
    n_cov = sum(s.n_cov() for s in subs)
    chis = [[core.dyadic(rng, -4, 8, 8) for _ in range(n_cov)] for _ in range(n_ids)] if n_cov else None
    theta, X = [], [[None] * popspec.total_dims(subs) for _ in range(n_ids)]
    for s, (d0, p0, c0) in zip(subs, popspec.slices(subs)):
        if s.kind in ('G', 'LN', 'TG'):
            mus = [core.dyadic(rng, 8, 24, 8) for _ in range(s.nd)]
            sgs = [core.dyadic(rng, 4, 16, 8) for _ in range(s.nd)]
            th = mus + sgs
        elif s.kind == 'P':
            th = [core.dyadic(rng, 1, 24, 8) for _ in range(s.nd)]
        else:
            th = [core.dyadic(rng, 1, 24, 8) + 0.125 * k for k in range(s.n_het * s.nd)]
        th += [core.dyadic(rng, -2, 2, 16) for _ in range(len(s.selection()) * s.n_cov())]
        theta += th
        for i in range(n_ids):
            ch = chis[i][c0:c0 + s.n_cov()] if chis else None
            for d in range(s.nd):
                if s.special():
                    X[i][d0 + d] = s.par_value(th, s.het_row(i), d, i, ch)
                else:
                    X[i][d0 + d] = core.dyadic(rng, 1, 32, 8) if s.centered else core.dyadic(rng, -16, 16, 8)
    U = [[core.dyadic(rng, -16, 16, 8) for _ in range(popspec.total_dims(subs))] for _ in range(n_ids)]
    gen_values.chis = chis
    return theta, X, U


def gen_case(rng):
    composed = rng.random() < 0.4
    n_ids = rng.choice([1, 2, 3, 4])
    if composed:
        subs = []
        for _ in range(rng.choice([2, 3])):
            kind, nd, centered = gen_sub(rng)
            nd = min(nd, 2)
            d = {'kind': kind, 'nd': nd, 'centered': centered, 'n_het': n_ids if kind == 'H' else None}
            if rng.random() < 0.35:
                d['cov'] = {'n_cov': rng.choice([1, 2]), 'sel': None if rng.random() < 0.5 else [[0, 0]]}
            subs.append(d)
        layout = 'flat'
    else:
        kind, nd, centered = gen_sub(rng)
        subs = [{'kind': kind, 'nd': nd, 'centered': centered, 'n_het': n_ids if kind == 'H' else None}]
        layout = rng.choice(['flat', 'matrix', 'tensor'])
    S = [Sub(**d) for d in subs]
    theta, X, U = gen_values(rng, S, n_ids)
    mismatch = rng.random() < 0.08 and any(s.special() for s in S)
    if mismatch:       # a point mass that is not satisfied -> -inf
        for s, (d0, p0, c0) in zip(S, popspec.slices(S)):
            if s.special():
                X[0][d0] += 0.5
                break
    return {'subs': subs, 'composed': composed, 'n_ids': n_ids, 'layout': layout, 'theta': theta, 'X': X,
            'U': U if rng.random() < 0.7 else None, 'mismatch': mismatch, 'chis': gen_values.chis,
            'nest': popspec.gen_nest(rng, len(subs)) if composed else None}


def layout_params(case, S, layout):
    theta = np.array(case['theta'], dtype=float)
    if layout == 'flat' or case['composed']:
        return theta
    s = S[0]
    mat = theta.reshape(s.n_rows(), s.nd)
    if layout == 'matrix':
        return mat
    return np.broadcast_to(mat, (case['n_ids'],) + mat.shape).copy()


def ordered(a, order):
    """the same array in another memory layout: column-major, or a transposed view of the transposed copy"""
    if order == 'F':
        return np.asfortranarray(a)
    if order == 'T':
        return np.ascontiguousarray(a.T).T
    return a


def typed(a, typ):
    """the same numbers as a float array, an integer array or nested lists of Python ints"""
    if typ == 'float':
        return a
    assert np.array_equal(a, np.round(a))
    return a.astype(np.int64) if typ == 'int-array' else a.astype(np.int64).tolist()


def whole(case):
    """the case with every number rounded to a whole one (scales at least 1, point masses kept satisfied), so that
    the same values can be handed over with an integer type"""
    S = [Sub(**d) for d in case['subs']]
    c = dict(case)
    r = lambda v: float(round(v))
    c['chis'] = None if case.get('chis') is None else [[r(v) for v in row] for row in case['chis']]
    c['U'] = None if case['U'] is None else [[r(v) for v in row] for row in case['U']]
    theta, X = [r(v) for v in case['theta']], [[r(v) for v in row] for row in case['X']]
    for s, (d0, p0, c0) in zip(S, popspec.slices(S)):
        if not s.special():
            for d in range(s.nd):
                theta[p0 + s.nd + d] = max(1.0, theta[p0 + s.nd + d])
        th = theta[p0:p0 + s.n_par()]
        for i in range(case['n_ids']):
            ch = c['chis'][i][c0:c0 + s.n_cov()] if c['chis'] else None
            for d in range(s.nd):
                if s.special():
                    X[i][d0 + d] = s.par_value(th, s.het_row(i), d, i, ch)
                elif s.centered:
                    X[i][d0 + d] = max(1.0, X[i][d0 + d])
    c['theta'], c['X'], c['mismatch'] = theta, X, False
    return c


def run_chi(case, layout=None, typ='float', order='C'):
    import chi
    S = [Sub(**d) for d in case['subs']]
    layout = layout or case['layout']
    if case['composed']:
        m = popspec.compose(S, case.get('nest'))
    else:
        m = S[0].build()
    m.set_n_ids(case['n_ids'])
    par = layout_params(case, S, layout)
    X = np.array(case['X'], dtype=float)
    U = None if case['U'] is None else np.array(case['U'], dtype=float)
    before = (par.copy(), X.copy(), None if U is None else U.copy())
    # (covariates and parameter matrices / tensors are documented as arrays; lists only where vectors are taken)
    atyp = 'int-array' if typ == 'int-list' else typ
    kw = {} if case.get('chis') is None else {'covariates': typed(np.array(case['chis'], dtype=float), atyp)}
    if order != 'C':
        X = ordered(X, order)
        U = None if U is None else ordered(U, order)
        if 'covariates' in kw:
            kw['covariates'] = ordered(kw['covariates'], order)
        before = (par.copy(), X.copy(), None if U is None else U.copy())
    if typ != 'float':
        par, X = typed(par, typ if par.ndim == 1 else atyp), typed(X, typ)
        before = (copy.deepcopy(par), copy.deepcopy(X), before[2])
    out = {'ll': float(m.compute_log_likelihood(par, X, **kw))}
    if layout != 'tensor' or S[0].kind != 'H' or True:
        try:
            out['psi'] = np.asarray(m.compute_individual_parameters(par, X, **kw), dtype=float).tolist()
        except NotImplementedError:
            out['psi'] = 'NotImplementedError'
    forms = {}
    r = m.compute_sensitivities(par, X, dlogp_dpsi=None if U is None else U.copy(), **kw)
    forms['flattened'] = (float(r[0]), np.asarray(r[1], dtype=float).tolist(), np.asarray(r[2], dtype=float).tolist())
    r = m.compute_sensitivities(par, X, dlogp_dpsi=None if U is None else U.copy(), reduce=True, **kw)
    forms['reduce'] = (float(r[0]), np.asarray(r[1], dtype=float).tolist())
    if not case['composed']:
        r = m.compute_sensitivities(par, X, dlogp_dpsi=None if U is None else U.copy(), flattened=False)
        forms['separate'] = (float(r[0]), np.asarray(r[1], dtype=float).tolist(),
                             np.asarray(r[2], dtype=float).tolist())
    out['forms'] = forms
    out['counts'] = {'n_parameters': int(m.n_parameters()), 'n_names': len(m.get_parameter_names()),
                     'n_hier': [int(v) for v in m.n_hierarchical_parameters(case['n_ids'])]}
    if not (np.array_equal(par, before[0]) and np.array_equal(X, before[1]) and
            (U is None or np.array_equal(U, before[2]))):
        out['mutated'] = True
    return out


def expected(case):
    """Coq expressions for every output; None where the value is a point-mass decision."""
    S = [Sub(**d) for d in case['subs']]
    theta, X, U, n = case['theta'], case['X'], case['U'], case['n_ids']
    chis = case.get('chis')
    score, ok = popspec.score_expr(S, theta, X, chis)
    dpsi = [[None] * popspec.total_dims(S) for _ in range(n)]
    dtheta_flat, psi = [], [[None] * popspec.total_dims(S) for _ in range(n)]
    separate = None
    red_bottom = [[] for _ in range(n)]
    red_top = []
    for s, (d0, p0, c0) in zip(S, popspec.slices(S)):
        th = theta[p0:p0 + s.n_par()]
        xs = [row[d0:d0 + s.nd] for row in X]
        us = None if U is None else [[coqR(v) for v in row[d0:d0 + s.nd]] for row in U]
        ch = [chis[i][c0:c0 + s.n_cov()] for i in range(n)] if chis else None
        for i in range(n):
            for d in range(s.nd):
                dpsi[i][d0 + d] = s.dbottom_expr(th, i, d, xs[i][d], us[i][d] if us else None, ch[i] if ch else None)
                psi[i][d0 + d] = s.psi_expr(th, i, d, xs[i][d], ch[i] if ch else None) \
                    if not s.centered or s.special() else coqR(xs[i][d])
        flat = s.dtheta_flat_exprs(th, xs, us, ch)
        red_top += flat
        if s.special():
            dtheta_flat += ['0'] * s.n_par()
        else:
            dtheta_flat += flat
            for i in range(n):
                red_bottom[i] += [dpsi[i][d0 + d] for d in range(s.nd)]
            if not case['composed']:
                separate = [[[s.dvartheta_expr(th, i, p, d, xs[i][d], us[i][d] if us else None, None)
                              for d in range(s.nd)] for p in range(2)] for i in range(n)]
    reduce = [e for row in red_bottom for e in row] + red_top
    return {'score': score, 'ok': ok, 'dpsi': dpsi, 'dtheta_flat': dtheta_flat, 'reduce': reduce,
            'separate': separate, 'psi': psi}


def vec_goal(exprs, values):
    return 'lclose %s %s %s' % ('[' + '; '.join(exprs) + ']', coq_list([float(v) for v in values], coqR),
                                coqR(core.frac(TOL)))


def props(case, res, exp):
    out = []
    tol = lambda v: coqR(core.frac(TOL) * (1 + abs(core.frac(v))))
    flat = lambda a: [v for row in a for v in (flat(row) if isinstance(row, list) and row and isinstance(row[0], list)
                                              else row)] if isinstance(a, list) and a and isinstance(a[0], list) else list(a)
    scores = [res['ll']] + [f[0] for f in res['forms'].values()]
    if not exp['ok']:
        return None if all(v == -math.inf for v in scores) else 'point mass violated but the score is %r' % scores
    for v in scores:
        out.append('close %s %s %s' % (exp['score'], coqR(v), tol(v)))
    f = res['forms']['flattened']
    out.append(vec_goal(flat(exp['dpsi']), flat(f[1])))
    out.append(vec_goal(exp['dtheta_flat'], f[2]))
    out.append(vec_goal(exp['reduce'], res['forms']['reduce'][1]))
    if 'separate' in res['forms'] and exp['separate'] is not None:
        fs = res['forms']['separate']
        out.append(vec_goal(flat(exp['dpsi']), flat(fs[1])))
        out.append(vec_goal(flat(exp['separate']), flat(fs[2])))
    if isinstance(res['psi'], list):
        out.append(vec_goal(flat(exp['psi']), flat(res['psi'])))
    return out


def shape_problem(case, res, exp):
    n, S = case['n_ids'], [Sub(**d) for d in case['subs']]
    n_par = sum(s.n_par() for s in S)
    if res['counts']['n_parameters'] != n_par or res['counts']['n_names'] != n_par:
        return 'n_parameters()=%r, %d names, the sub-models have %d parameters' % (
            res['counts']['n_parameters'], res['counts']['n_names'], n_par)
    f = res['forms']['flattened']
    if np.asarray(f[1]).shape != (n, popspec.total_dims(S)) or len(np.asarray(f[2]).ravel()) != n_par:
        return 'flattened sensitivities have shapes %r / %r for %d individuals, %d dimensions, %d parameters' % (
            np.asarray(f[1]).shape, np.asarray(f[2]).shape, n, popspec.total_dims(S), n_par)
    if len(res['forms']['reduce'][1]) != len(exp['reduce']) or sum(res['counts']['n_hier']) != len(exp['reduce']):
        return 'hierarchical sensitivities have length %d, n_hierarchical_parameters reports %r, expected %d' % (
            len(res['forms']['reduce'][1]), res['counts']['n_hier'], len(exp['reduce']))
    if 'separate' in res['forms'] and exp['separate'] is not None:
        if np.asarray(res['forms']['separate'][2]).shape != (n, 2, S[0].nd):
            return 'separate dtheta has shape %r, expected %r' % (np.asarray(res['forms']['separate'][2]).shape,
                                                                   (n, 2, S[0].nd))
    if isinstance(res['psi'], str) and not any(s.kind == 'TG' for s in S):
        return 'compute_individual_parameters raised ' + res['psi']
    return None


# ------------------------------------------------------------------------------------------------
# oracle
# ------------------------------------------------------------------------------------------------

def ref_score(S, theta, X, chis=None):
    from scipy import stats
    tot = 0.0
    for s, (d0, p0, c0) in zip(S, popspec.slices(S)):
        th = theta[p0:p0 + s.n_par()]
        for i in range(len(X)):
            ch = chis[i][c0:c0 + s.n_cov()] if chis else None
            for d in range(s.nd):
                x = X[i][d0 + d]
                if s.special():
                    if x != s.par_value(th, s.het_row(i), d, i, ch):
                        return -math.inf
                    continue
                if not s.centered:
                    tot += stats.norm.logpdf(x)
                    continue
                mu, sg = s.par_value(th, 0, d, i, ch), s.par_value(th, 1, d, i, ch)
                if sg <= 0:
                    return -math.inf
                if s.kind == 'G':
                    tot += stats.norm.logpdf(x, mu, sg)
                elif s.kind == 'LN':
                    tot += stats.lognorm.logpdf(x, s=sg, scale=math.exp(mu))
                else:
                    tot += stats.truncnorm.logpdf(x, a=-mu / sg, b=np.inf, loc=mu, scale=sg)
    return float(tot)


def type_problem(case):
    """the values and sensitivities depend on the numbers handed over, not on the type they are stored with"""
    wc = whole(case)
    ref = run_chi(wc)
    for typ in ('int-array', 'int-list'):
        try:
            other = run_chi(wc, typ=typ)
        except (TypeError, AttributeError) as e:
            if typ == 'int-list':
                continue            # arrays are the documented type; a list may be refused, loudly
            return 'whole-number inputs passed as %s: %s: %s' % (typ, type(e).__name__, e)
        except Exception as e:
            return 'whole-number inputs passed as %s: %s: %s' % (typ, type(e).__name__, e)
        for what, a, b in [('log-likelihood', ref['ll'], other['ll']), ('individual parameters', ref['psi'], other['psi'])] + [
                ('%s sensitivities' % k, ref['forms'][k], other['forms'][k]) for k in ref['forms']]:
            fa = a if isinstance(a, str) else np.concatenate([np.ravel(np.asarray(x, dtype=float)) for x in (
                a if isinstance(a, tuple) else (a,))])
            fb = b if isinstance(b, str) else np.concatenate([np.ravel(np.asarray(x, dtype=float)) for x in (
                b if isinstance(b, tuple) else (b,))])
            same = (fa == fb) if isinstance(fa, str) or isinstance(fb, str) else (
                fa.shape == fb.shape and np.allclose(fa, fb, rtol=1e-12, atol=1e-12, equal_nan=True))
            if not same:
                return 'whole-number inputs passed as %s: %s %r, passed as floats %r' % (typ, what, b, a)
        if other.get('mutated'):
            return 'an input array (%s) was modified' % typ
    return None


def order_problem(case, res):
    """the values and sensitivities depend on the numbers handed over, not on the memory layout of the arrays"""
    for order in ('F', 'T'):
        try:
            other = run_chi(case, order=order)
        except Exception as e:
            return 'observations passed in memory layout %s: %s: %s' % (order, type(e).__name__, e)
        if (math.isfinite(other['ll']) != math.isfinite(res['ll'])) or (
                math.isfinite(res['ll']) and core.relerr(other['ll'], res['ll']) > 1e-12):     # (summation order)
            return 'observations in memory layout %s give the log-likelihood %r, C-ordered ones %r' % (
                order, other['ll'], res['ll'])
        if math.isfinite(res['ll']):
            for k in res['forms']:
                a = np.concatenate([np.ravel(np.asarray(x, dtype=float)) for x in res['forms'][k]])
                b = np.concatenate([np.ravel(np.asarray(x, dtype=float)) for x in other['forms'][k]])
                if a.shape != b.shape or not np.allclose(a, b, rtol=1e-12, atol=1e-12, equal_nan=True):
                    return ('%s sensitivities for observations in memory layout %s are %r; for the same numbers '
                            'C-ordered %r' % (k, order, b.tolist(), a.tolist()))
        if other.get('mutated'):
            return 'an input array (memory layout %s) was modified' % order
    return None


def oracle(case):
    import chi
    S = [Sub(**d) for d in case['subs']]
    res = run_chi(case)
    if res.get('mutated'):
        return 'an input array was modified'
    exp = expected(case)
    sp = shape_problem(case, res, exp)
    if sp:
        return sp
    ref = ref_score(S, case['theta'], case['X'], case.get('chis'))
    scores = [res['ll']] + [f[0] for f in res['forms'].values()]
    for v in scores:
        if (ref == -math.inf) != (v == -math.inf) or (ref != -math.inf and core.relerr(v, ref) > 1e-9):
            return 'log-likelihood %r (all entry points: %r) is not the sum %r of the documented log-densities' % (
                v, scores, ref)
    for lay in ('flat', 'matrix', 'tensor'):
        if case['composed']:
            break
        other = run_chi(case, lay)
        if other['ll'] != res['ll'] or other['psi'] != res['psi'] or (
                math.isfinite(res['ll']) and other['forms']['reduce'] != res['forms']['reduce']):
            return 'layout %s gives ll=%r reduce=%r psi=%r; layout %s gives ll=%r reduce=%r psi=%r' % (
                case['layout'], res['ll'], res['forms']['reduce'], res['psi'], lay, other['ll'],
                other['forms']['reduce'], other['psi'])
    tp = type_problem(case) or order_problem(case, res)
    if tp:
        return tp
    if ref == -math.inf:
        return None
    # finite differences of score + <U, psi(bottom)> w.r.t. bottom values and population parameters
    m = popspec.compose(S, case.get('nest')) if case['composed'] else S[0].build()
    m.set_n_ids(case['n_ids'])
    theta0, X0 = np.array(case['theta'], dtype=float), np.array(case['X'], dtype=float)
    U = np.zeros_like(X0) if case['U'] is None else np.array(case['U'], dtype=float)

    kw = {} if case.get('chis') is None else {'covariates': np.array(case['chis'], dtype=float)}

    def total(theta, X):
        try:
            psi = np.asarray(m.compute_individual_parameters(theta, X, **kw), dtype=float)
        except NotImplementedError:
            psi = X
        return float(m.compute_log_likelihood(theta, X, **kw)) + float(np.sum(U * psi))

    def fd(f):
        h = 1e-4
        return (4 * (f(h / 2) - f(-h / 2)) / h - (f(h) - f(-h)) / (2 * h)) / 3
    fl = res['forms']['flattened']
    for i in range(X0.shape[0]):
        for d in range(X0.shape[1]):
            sub = [s for s, (d0, _, _) in zip(S, popspec.slices(S)) if d0 <= d < d0 + s.nd][0]
            if sub.special():
                continue
            def f(e, i=i, d=d):
                X = X0.copy()
                X[i, d] += e
                return total(theta0, X)
            g = fd(f)
            if abs(g - fl[1][i][d]) > 1e-5 * (1 + abs(g)):
                return 'sensitivity w.r.t. individual %d dimension %d is %r, finite differences give %r' % (
                    i, d, fl[1][i][d], g)
    off = 0
    for s in S:
        for k in range(s.n_par()):
            if not s.special():
                def f(e, k=off + k):
                    th = theta0.copy()
                    th[k] += e
                    return total(th, X0)
                g = fd(f)
                got = np.asarray(fl[2]).ravel()[off + k]
                if abs(g - got) > 1e-5 * (1 + abs(g)):
                    return 'sensitivity w.r.t. population parameter %d is %r, finite differences give %r' % (
                        off + k, float(got), g)
        off += s.n_par()
    # hierarchical form: coordinates = bottom values of the non-special dimensions per individual, then the
    # population parameters; special dimensions take their individual values from the population parameters
    n, nd_tot = X0.shape
    special_dim = {}
    for s, (d0, p0, c0) in zip(S, popspec.slices(S)):
        for d in range(s.nd):
            special_dim[d0 + d] = (s, p0, d) if s.special() else None
    free = [(i, d) for i in range(n) for d in range(nd_tot) if special_dim[d] is None]

    def rebuild(v):
        X, th = X0.copy(), np.array(v[len(free):], dtype=float)
        for k, (i, d) in enumerate(free):
            X[i, d] = v[k]
        for d, sp in special_dim.items():
            if sp is not None:
                s, p0, dl = sp
                for i in range(n):
                    _, _, c0 = [sl for ss, sl in zip(S, popspec.slices(S)) if ss is s][0]
                    ch = case['chis'][i][c0:c0 + s.n_cov()] if case.get('chis') else None
                    X[i, d] = s.par_value(list(th[p0:p0 + s.n_par()]), s.het_row(i), dl, i, ch)
        return th, X
    v0 = np.array([X0[i, d] for i, d in free] + list(theta0), dtype=float)
    red = np.asarray(res['forms']['reduce'][1], dtype=float)
    if len(red) != len(v0):
        return 'hierarchical sensitivities have length %d for %d hierarchical parameters' % (len(red), len(v0))
    for k in range(len(v0)):
        def f(e, k=k):
            v = v0.copy()
            v[k] += e
            return total(*rebuild(v))
        g = fd(f)
        if abs(g - red[k]) > 1e-5 * (1 + abs(g)):
            return 'hierarchical (reduce=True) sensitivity %d is %r, finite differences give %r' % (k, float(red[k]), g)
    return None


def key_of(case, what):
    return 'C05|%s' % '+'.join(Sub(**d).describe() for d in case['subs'])


def run(ck):
    cases, payload = [], {}
    for i in range(ck.n(70, 900)):
        case = gen_case(ck.rng)
        label = 'p%d' % i
        S = [Sub(**d) for d in case['subs']]
        try:
            res = run_chi(case)
            exp = expected(case)
            sp = shape_problem(case, res, exp)
            if not case['composed'] and not sp:
                for lay in ('flat', 'matrix', 'tensor'):
                    o = run_chi(case, lay)
                    if o['ll'] != res['ll'] or o['psi'] != res['psi'] or (
                            math.isfinite(res['ll']) and o['forms']['reduce'] != res['forms']['reduce']):
                        sp = 'the parameter layout changes the result: %s gives %r, %s gives %r' % (
                            case['layout'], (res['ll'], res['forms']['reduce']), lay, (o['ll'], o['forms']['reduce']))
                        break
            sp = sp or type_problem(case) or order_problem(case, res)
        except Exception as e:
            ck.violation(key_of(case, ''), 'chi raised %s: %s' % (type(e).__name__, e), case)
            continue
        ck.count('kinds=%s' % '+'.join(s.describe() for s in S) if len(S) == 1 else 'composed')
        ck.count('layout=%s' % case['layout'])
        ck.count('n_ids=%d' % case['n_ids'])
        ck.count('upstream' if case['U'] is not None else 'no upstream')
        if res.get('mutated'):
            ck.violation(key_of(case, ''), 'an input array was modified', case)
            continue
        if sp:
            ck.violation(key_of(case, ''), sp, case)
            continue
        pr = props(case, res, exp)
        if isinstance(pr, str):
            ck.violation(key_of(case, ''), pr, case)
            continue
        ck.case({'subs': [s.describe() for s in S], 'layout': case['layout'], 'theta': case['theta'], 'X': case['X']})
        if pr is None:
            continue          # -inf decided exactly
        cases.append((label, pr))
        payload[label] = case
    ck.cov['rule'] = ('single models (7 kinds incl. non-centred, n_dim 1-3) in flat / matrix / tensor layout and '
                      'compositions of 2-3 sub-models, 1-4 individuals, with (70%) or without upstream sensitivities, '
                      '8% unsatisfied point masses; log-likelihood, individual parameters and the separate / flattened '
                      '/ hierarchical sensitivities are certified; layouts compared bit for bit; every case repeated with whole '
                      'numbers passed as floats, as an integer array and as lists of ints; distinct = distinct case')
    ck.log('certifying %d population-model cases' % len(cases))
    bad = ck.numeric('popmodels', HEADER, UNFOLD, cases, shard=4, integral=True)
    wrng = random.Random(ck.seed + 13)
    wider = (gen_case(wrng) for _ in range(ck.n(200, 2000)))
    if bad:
        ck.settle('correspondence C05: Model/PopModels.v and chi differ on %s (first: %s)' % (bad[:5], payload[bad[0]]),
                  [payload[b] for b in bad], oracle, wider, key_of)
    elif ck.broken:
        ck.settle(ck.broken.pop(), [], oracle, wider, key_of)


def replay(ck, body):
    r = oracle(body['replay'])
    print('oracle:', r)
    return r is None
