"""C01 — the individual log-likelihood sums each observation's density exactly once.

Tie (exact, vm_compute): real chi.LogLikelihood objects over ToyModel and RecordingErrorModels; the calls the
error models receive (parameter slice, predictions, observations) in __call__, compute_pointwise_ll and
evaluateS1, the construction verdict and n_observations are compared with Model/TimeGrid.v.
Tie (certified numeric): the same likelihoods with chi's four real error models; score, pointwise values and
S1 score certified against Model/LogLik.v `ll_spec` / `pointwise_spec` by CoqInterval.
Search (after a break): brute-force sum of scipy log-densities at the toy model's closed-form predictions."""
import math
import random

import numpy as np

from harness import core, c04
from harness.core import coqR, coqQ, coqZ, coq_list, coq_bool

THEOREMS = ['C01_pairs', 'C01_each_measurement_once', 'C01_slices_partition', 'C01_total', 'C01_pointwise',
            'C01_pointwise_sum', 'C01_constructed_evaluates', 'C01_n_observations']
DEN = 4
KINDS = ['G', 'MG', 'CMG', 'LN']
KCOQ = {'G': 'KG', 'MG': 'KMG', 'CMG': 'KCMG', 'LN': 'KLN'}

HEADER_EXACT = '''From Coq Require Import ZArith QArith List Bool.
From Chi Require Import Model.TimeGrid Tie.C01Tie.
Import ListNotations.
Open Scope Q_scope.
'''
HEADER_NUM = '''From Coq Require Import Reals ZArith Lra List.
From Interval Require Import Tactic.
From Chi Require Import Base.RSum Base.Score Base.Tie Model.ErrorModels Model.TimeGrid Model.LogLik.
Import ListNotations.
Open Scope R_scope.
'''
UNFOLD_NUM = c04.UNFOLD + ('ll_spec pointwise_spec calls_spec paired_spec slices firstn skipn nth seq concat '
                           'apply_em em_ll em_pointwise n_err ssum splus toy_out').split()


# ------------------------------------------------------------------------------------------------
# generation
# ------------------------------------------------------------------------------------------------

def gen_grids(rng, n_out, pattern):
    pool = sorted(rng.sample(range(0, 13), 6))
    grids = []
    for o in range(n_out):
        n = rng.choice([1, 2, 3, 3, 4, 5])
        if pattern == 'distinct':
            g = sorted(rng.sample(pool, min(n, len(pool))))
        else:
            g = sorted(rng.choice(pool) for _ in range(n))
        grids.append(g)
    if pattern == 'identical' and n_out > 1:
        grids = [list(grids[0]) for _ in grids]
    if pattern == 'nested' and n_out > 1:
        grids[0] = sorted(set(pool))
        for o in range(1, n_out):
            grids[o] = sorted(rng.sample(grids[0], rng.randint(1, 4)))
    if pattern == 'disjoint' and n_out > 1:
        rng.shuffle(pool)
        cut = [pool[i::n_out] for i in range(n_out)]
        grids = [sorted(rng.choice(c) for _ in range(rng.randint(1, 4))) for c in cut]
    if pattern == 'coincidence' and n_out > 1:
        # output 0: a tie, and as many measurements as there are distinct times overall
        a, b, c = sorted(rng.sample(pool, 3))
        grids[0] = [a, b, b]
        grids[1] = sorted([a, c][:rng.randint(1, 2)] + [c])
        grids[1] = sorted(set(grids[1])) if rng.random() < 0.5 else grids[1]
        for o in range(2, n_out):
            grids[o] = sorted(rng.choice([a, b, c]) for _ in range(rng.randint(1, 3)))
    if n_out > 1 and rng.random() < 0.15:
        # an output without any measurement (anywhere but preferably not last)
        grids[rng.choice(list(range(n_out - 1)) * 2 + [n_out - 1])] = []
    return grids


def gen_case(rng, numeric=False):
    n_out = rng.choice([1, 1, 2, 2, 3, 4]) if not numeric else rng.choice([1, 2, 2, 3])
    pattern = rng.choice(['random', 'random', 'distinct', 'identical', 'nested', 'disjoint', 'coincidence', 'tied'])
    grids = gen_grids(rng, n_out, pattern)
    if numeric:
        grids = [g[:3] for g in grids]
    obs = [[core.dyadic(rng, 1, 80, 8) for _ in g] for g in grids]
    n_em = n_out
    invalid = None
    if not numeric and rng.random() < 0.18:
        invalid = rng.choice(['negative', 'unsorted', 'shape', 'n_em'] +
                             (['n_obs_lists', 'n_time_lists'] if n_out > 1 else []))
        o = rng.choice([k for k in range(n_out) if grids[k]])
        if invalid == 'negative':
            grids[o][0] = -rng.randint(1, 3)
        elif invalid == 'unsorted':
            if len(grids[o]) < 2:
                grids[o] = [5, 2]
                obs[o] = [1.0, 2.0]
            else:
                grids[o][0], grids[o][-1] = grids[o][-1] + 1, grids[o][0]
        elif invalid == 'shape':
            obs[o] = obs[o] + [1.5]
        elif invalid == 'n_em':
            n_em = n_out + 1
        elif invalid == 'n_obs_lists':
            obs = obs + [[1.0]]
        elif invalid == 'n_time_lists':
            grids = grids + [[1]]
    if numeric:
        kinds = [rng.choice(KINDS) for _ in range(n_out)]
        counts = [2 if k == 'CMG' else 1 for k in kinds]
    else:
        kinds = None
        counts = [rng.choice([1, 1, 2, 3]) for _ in range(n_em)]
    mech = [core.dyadic(rng, 4, 40, 8), core.dyadic(rng, 0, 16, 8), core.dyadic(rng, 0, 8, 8)]
    if numeric:
        err = [core.dyadic(rng, 2, 24, 16) for _ in range(sum(counts))]
        if rng.random() < 0.1:
            err[rng.randrange(len(err))] = rng.choice([0.0, -0.5])
    else:
        err = [(k + 1) / 16.0 + 100 * (k + 1) for k in range(sum(counts))]
    return {'n_out': n_out, 'n_em': n_em, 'grids': grids, 'obs': obs, 'counts': counts, 'kinds': kinds,
            'theta': mech + err, 'pattern': pattern, 'invalid': invalid}


# ------------------------------------------------------------------------------------------------
# running chi
# ------------------------------------------------------------------------------------------------

def build(case, ems):
    import chi
    from harness.toy import ToyModel
    times = [[z / case.get('den', DEN) for z in g] for g in case['grids']]
    obs = [list(o) for o in case['obs']]
    if case['n_out'] == 1 and len(times) == 1 and len(obs) == 1 and case.get('flat'):
        times, obs = times[0], obs[0]
    return chi.LogLikelihood(ToyModel(case['n_out']), ems, obs, times)


def run_exact(case):
    """returns ('raise', type) or dict(built=True, rec={ll:[calls], pw:[...], s1:[...]}, nobs=[...])"""
    from harness.toy import RecordingErrorModel
    ems = [RecordingErrorModel(n_par=c, tag=i) for i, c in enumerate(case['counts'])]
    try:
        ll = build(case, ems)
    except ValueError as e:
        return {'built': False, 'error': 'ValueError: %s' % e}
    theta = np.array(case['theta'], dtype=float)
    ll(list(case['theta']))
    ll.compute_pointwise_ll(theta)
    ll.evaluateS1(theta.copy())
    rec = {'ll': [], 'pw': [], 's1': []}
    for em in ll.get_submodels()['Error models']:
        for kind in rec:
            es = [e for e in em.log if e['kind'] == kind]
            if len(es) != 1:
                raise AssertionError('error model called %d times for one %s evaluation' % (len(es), kind))
            rec[kind].append(es[0])
    if not np.array_equal(theta, np.array(case['theta'], dtype=float)):
        raise AssertionError('the parameter vector passed in was modified')
    return {'built': True, 'rec': rec, 'nobs': [int(n) for n in ll.n_observations()],
            'n_parameters': ll.n_parameters(), 'n_names': len(ll.get_parameter_names())}


def coq_calls(recs):
    Q = lambda xs: coq_list(xs, coqQ)
    return '[' + '; '.join('(%s, %s, %s)' % (Q(r['par']), Q(r['out']), Q(r['obs'])) for r in recs) + ']'


def exact_exprs(case, res):
    Q = lambda xs: coq_list(xs, coqQ)
    ts = '[' + '; '.join(coq_list(g, coqZ) for g in case['grids']) + ']%Z'
    obs = '[' + '; '.join(Q(o) for o in case['obs']) + ']'
    out = []
    kinds = ['ll', 'pw', 's1'] if res['built'] else ['ll']
    for kind in kinds:
        rec = coq_calls(res['rec'][kind]) if res['built'] else '[]'
        nobs = coq_list(res['nobs'], lambda n: '%d%%nat' % n) if res['built'] else '[]'
        out.append('c01_case %d %d %s %d %s %s %s %s %s %s %s' % (
            case['n_out'], case['n_em'], Q(case['theta'][:3]), DEN,
            coq_list(case['counts'], lambda n: '%d%%nat' % n), ts, obs, Q(case['theta']),
            coq_bool(res['built']), rec, nobs))
    return ' && '.join('(%s)' % e for e in out)


def make_real(case):
    return [c04.chi_model(k) for k in case['kinds']]


def run_numeric(case, shared=None):
    theta = np.array(case['theta'], dtype=float)
    if shared is None:
        ll = build(case, make_real(case))
        arg = list(case['theta'])
    else:
        ll, buf = shared
        # history on the same object and the same parameter buffer (mutated in place)
        buf[:] = theta * 1.25 + 0.125
        buf[3:] = np.abs(buf[3:]) + 0.25
        ll(buf)
        ll.evaluateS1(buf)
        ll.compute_pointwise_ll(buf)
        buf[:] = theta
        arg = buf
    v = float(ll(arg))
    pw = [float(x) for x in ll.compute_pointwise_ll(arg)]
    s1, grad = ll.evaluateS1(arg)
    v2 = float(ll(arg))
    return {'ll': v, 'pw': pw, 's1': float(s1), 'grad': [float(g) for g in grad], 'll_again': v2,
            'nobs': [int(n) for n in ll.n_observations()]}


def num_props(case, res):
    R = lambda xs: coq_list(xs, coqR)
    ts = '[' + '; '.join(coq_list(g, coqZ) for g in case['grids']) + ']%Z'
    obs = '[' + '; '.join(R(o) for o in case['obs']) + ']'
    ks = coq_list([KCOQ[k] for k in case['kinds']])
    args = '(toy_out %s %d) 3 %s %s %s %s' % (R(case['theta'][:3]), DEN, ks, ts, obs, R(case['theta']))
    tol = lambda v: coqR(core.frac(1e-9) * (1 + abs(core.frac(v))))
    out = []
    for key in ('ll', 's1'):
        v = res[key]
        if v == -math.inf:
            out.append('is_neginf (ll_spec %s)' % args)
        else:
            out.append('sclose (ll_spec %s) %s %s' % (args, coqR(v), tol(v)))
    exp = coq_list(res['pw'], lambda v: 'None' if v == -math.inf else '(Some %s)' % coqR(v))
    out.append('slclose (pointwise_spec %s) %s %s' % (args, exp, coqR(core.frac(1e-9))))
    return out


# ------------------------------------------------------------------------------------------------
# independent oracle
# ------------------------------------------------------------------------------------------------

def oracle(case):
    """None if chi satisfies C01 on this (numeric) case."""
    if case.get('kinds') is None:
        case = dict(case)
        rng = random.Random(len(str(case)))
        case['kinds'] = [rng.choice(KINDS) for _ in range(case['n_out'])]
        case['counts'] = [2 if k == 'CMG' else 1 for k in case['kinds']]
        case['theta'] = case['theta'][:3] + [0.5 + 0.125 * i for i in range(sum(case['counts']))]
        case['n_em'] = case['n_out']
    th = case['theta']
    try:
        res = run_numeric(case)
    except ValueError as e:
        from harness.toy import RecordingErrorModel
        try:
            build(case, make_real(case))
        except ValueError:
            return None   # rejected at construction: allowed
        return 'a LogLikelihood that was constructed without error raises on evaluation: %s' % e
    ref_pw, start, groups = [], 3, []
    for o, (g, ys, k) in enumerate(zip(case['grids'], case['obs'], case['kinds'])):
        npar = 2 if k == 'CMG' else 1
        par = th[start:start + npar]
        start += npar
        for z, y in zip(g, ys):
            t = z / case.get('den', DEN)
            m = th[0] * (1 + o) + th[1] * t + th[2] * t * t * o
            ref_pw.append(c04.ref_logpdf(k, par, m, y))
            groups.append((o, z))
    # "output by output in time order": replicate measurements at one time point may be listed in any order
    canon = lambda vals: [v for _, v in sorted(zip(groups, vals), key=lambda gv: (gv[0], gv[1]))] \
        if len(vals) == len(groups) else list(vals)
    ref = sum(ref_pw)
    if ref == -math.inf:
        if res['ll'] != -math.inf:
            return 'outside the support the score is %r, not -inf' % res['ll']
        return None
    if res['nobs'] != [len(g) for g in case['grids']]:
        return 'n_observations() = %r for grids %r' % (res['nobs'], case['grids'])
    if core.relerr(res['ll'], ref) > 1e-8:
        return 'log-likelihood %r is not the sum %r of the log-densities of all measurements given the ' \
               'prediction for the same output and time' % (res['ll'], ref)
    if len(res['pw']) != len(ref_pw) or any(core.relerr(a, b) > 1e-8 for a, b in zip(canon(res['pw']), canon(ref_pw))):
        return 'pointwise log-likelihoods %r differ from the per-measurement log-densities %r' % (res['pw'], ref_pw)
    if core.relerr(sum(res['pw']), res['ll']) > 1e-9:
        return 'pointwise values sum to %r, total is %r' % (sum(res['pw']), res['ll'])
    if core.relerr(res['s1'], res['ll']) > 1e-10 or res['ll_again'] != res['ll']:
        return 'score differs between evaluations: __call__ %r, evaluateS1 %r, __call__ again %r' % (
            res['ll'], res['s1'], res['ll_again'])
    return None


def long_case(rng):
    n_out = rng.choice([1, 2])
    kinds = [rng.choice(KINDS) for _ in range(n_out)]
    th = [rng.uniform(2.0, 6.0), rng.uniform(0.0, 0.5), rng.uniform(0.0, 0.05)]
    grids, obs, err = [], [], []
    big = rng.random() < 0.5
    for o, k in enumerate(kinds):
        n = rng.choice([300, 600, 1200])
        g = sorted(rng.randint(0, 160) for _ in range(n))
        grids.append(g)
        obs.append([(th[0] * (1 + o) + th[1] * (z / DEN) + th[2] * (z / DEN) ** 2 * o) * rng.uniform(0.9, 1.1) for z in g])
        scale = rng.uniform(40.0, 100.0) if big else rng.uniform(0.02, 0.2)
        err += [scale, scale / 10] if k == 'CMG' else [scale]
    return {'n_out': n_out, 'n_em': n_out, 'grids': grids, 'obs': obs, 'counts': [2 if k == 'CMG' else 1 for k in kinds],
            'kinds': kinds, 'theta': th + err, 'pattern': 'long', 'invalid': None}


def odd_times_case(rng):
    """measurement times that are not short decimals (hours expressed in days, thirds of a unit)"""
    n_out = rng.choice([1, 2, 3])
    den = rng.choice([24, 24, 3, 7])
    kinds = [rng.choice(KINDS) for _ in range(n_out)]
    th = [rng.uniform(2.0, 6.0), rng.uniform(0.0, 0.5), rng.uniform(0.0, 0.05)]
    pool = sorted(rng.sample(range(1, 200), 6))
    grids, obs, err = [], [], []
    for o, k in enumerate(kinds):
        g = sorted(rng.choice(pool) for _ in range(rng.randint(1, 5)))
        grids.append(g)
        obs.append([(th[0] * (1 + o) + th[1] * (z / den) + th[2] * (z / den) ** 2 * o) * rng.uniform(0.9, 1.1) for z in g])
        err += [0.5, 0.1] if k == 'CMG' else [0.5]
    return {'n_out': n_out, 'n_em': n_out, 'grids': grids, 'obs': obs, 'counts': [2 if k == 'CMG' else 1 for k in kinds],
            'kinds': kinds, 'theta': th + err, 'pattern': 'odd times', 'invalid': None, 'den': den}


def key_of(case, what):
    return 'C01|%s|%s' % ('ties' if any(len(set(g)) < len(g) for g in case['grids']) else 'no-ties',
                          'multi' if case['n_out'] > 1 else 'single')


# ------------------------------------------------------------------------------------------------

def run(ck):
    n_exact = ck.n(300, 4000)
    n_num = ck.n(36, 400)
    exact_cases, payload = [], {}
    for i in range(n_exact):
        case = gen_case(ck.rng)
        if case['n_out'] == 1 and case['invalid'] is None and i % 3 == 0:
            case['flat'] = True
        label = 'e%d' % i
        try:
            res = run_exact(case)
        except Exception as e:
            ck.settle('exact case %s: chi raised %s: %s' % (label, type(e).__name__, e), [case], oracle,
                      key_of=key_of)
            continue
        ck.count('pattern=%s' % case['pattern'])
        ck.count('n_out=%d' % case['n_out'])
        ck.count('invalid=%s' % case['invalid'])
        ck.count('ties' if any(len(set(g)) < len(g) for g in case['grids']) else 'no ties')
        if res['built'] and (res['n_parameters'] != len(case['theta']) or res['n_names'] != len(case['theta'])):
            ck.violation('C01|n_parameters', 'n_parameters()=%r, %r names, vector of length %d' % (
                res['n_parameters'], res['n_names'], len(case['theta'])), case)
        ck.case({'case': case, 'built': res['built']}, nontrivial=True)
        exact_cases.append((label, exact_exprs(case, res)))
        payload[label] = case
    ck.log('exact route: %d cases' % len(exact_cases))
    bad = ck.exact('pairing', HEADER_EXACT, exact_cases, shard=150)
    # numeric
    num_cases = []
    for i in range(n_num):
        case = gen_case(ck.rng, numeric=True)
        label = 'n%d' % i
        try:
            res = run_numeric(case)
            obj = build(case, make_real(case))
            res2 = run_numeric(case, shared=(obj, np.zeros(len(case['theta']))))
        except Exception as e:
            ck.settle('numeric case %s: chi raised %s: %s' % (label, type(e).__name__, e), [case], oracle,
                      key_of=key_of)
            continue
        f = lambda r: [r['ll'], r['s1'], r['ll_again']] + r['pw'] + (r['grad'] if r['s1'] != -math.inf else [])
        if len(f(res)) != len(f(res2)) or any(not c04.same(a, b) for a, b in zip(f(res), f(res2))) \
                or res['ll_again'] != res['ll']:
            ck.violation('C01|history', 'evaluation depends on history: a fresh likelihood gives %r; the same '
                         'likelihood after evaluations at other parameters passed through the same (in-place '
                         'modified) array gives %r' % (res, res2), case)
            continue
        if any(math.isnan(v) or v == math.inf for v in [res['ll'], res['s1']] + res['pw']):
            ck.settle('numeric case %s: nan/+inf' % label, [case], oracle, key_of=key_of)
            continue
        ck.count('kinds=%s' % '+'.join(case['kinds']))
        ck.case({'case': case, 'chi': {'ll': res['ll'], 'pw': res['pw']}})
        num_cases.append((label, num_props(case, res)))
        payload[label] = case
    # long series (hundreds of measurements per output, scales far from 1): too long for the certified route, checked
    # directly against the summed documented log-densities and the pointwise values
    for j in range(ck.n(8, 40)):
        case = long_case(random.Random(ck.seed * 47 + j))
        ck.count('long series')
        ck.case({'long': {'n': [len(g) for g in case['grids']], 'kinds': case['kinds'], 'theta': case['theta']}})
        try:
            d = oracle(case)
        except Exception as e:
            d = 'chi raised %s: %s' % (type(e).__name__, e)
        if d:
            ck.violation(key_of(case, ''), d, case)
    for j in range(ck.n(40, 300)):
        case = odd_times_case(random.Random(ck.seed * 59 + j))
        ck.count('times that are no short decimals')
        ck.case({'odd times': {'grids': case['grids'], 'den': case['den'], 'kinds': case['kinds']}})
        try:
            d = oracle(case)
        except Exception as e:
            d = 'chi raised %s: %s' % (type(e).__name__, e)
        if d:
            ck.violation(key_of(case, ''), d, case)
    ck.cov['rule'] = ('exact: 1-4 outputs, grids drawn with repetition from a pool of 6 dyadic times in the '
                      'patterns random/distinct/identical/nested/disjoint/coincidence/tied, 18% invalid '
                      'constructions (negative, unsorted, shape, counts), 1-3 parameters per recording error '
                      'model; numeric: 1-3 outputs, the four real error models assigned at random, 10% outside '
                      'the support, each evaluated fresh and after a history through a shared in-place buffer; long series of '
                      '300-1200 measurements per output at small and large scales, and grids of times k/24, k/3, k/7, checked '
                      'directly; '
                      'distinct = distinct case description; all cases exercise a real chi.LogLikelihood')
    ck.log('certifying %d numeric cases' % len(num_cases))
    badn = ck.numeric('score', HEADER_NUM, UNFOLD_NUM, num_cases, shard=6)
    wider_rng = random.Random(ck.seed + 7)
    wider = (gen_case(wider_rng, numeric=True) for _ in range(ck.n(400, 4000)))
    if bad or badn:
        ck.log('disagreements: exact %s numeric %s' % (bad[:5], badn[:5]))
        fails = [payload[b] for b in (bad + badn)]
        ck.settle('correspondence C01: model and chi differ on %s (first: %s)' % ((bad + badn)[:6], fails[0]),
                  fails, oracle, wider, key_of)
    elif ck.broken:
        ck.settle(ck.broken.pop(), [], oracle, wider, key_of)


def replay(ck, body):
    r = oracle(body['replay'])
    print('oracle:', r)
    return r is None
