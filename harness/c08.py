"""C08 — fixing parameters is exact substitution, reversible and order-independent.

Tie (exact, vm_compute): random fix / re-fix / release histories (interleaved with renaming and sensitivity
switches) on real chi objects — ReducedErrorModel, ReducedMechanisticModel, ReducedPopulationModel,
LogLikelihood — whose wrapped models record the full parameter vector they receive; reported names, number of
fixed parameters and that full vector are compared with Model/Fixing.v's code-level state machine.
Direct property check (also the search oracle): every evaluation of the reduced object (value, pointwise values,
restricted sensitivities, seeded samples) must be bit-identical to the unfixed object at the substituted vector,
where the substitution is computed from the net name->value map."""
import copy
import math
import random

import numpy as np

from harness import core, c04
from harness.core import coqQ, coq_list, coq_string

THEOREMS = ['C08_substitution', 'C08_accepts', 'C08_names_counts', 'C08_names_order', 'C08_state_is_net',
            'C08_history_independent', 'C08_fix_then_release', 'C08_nothing_fixed_is_identity',
            'C08_rename_free_only', 'C08_rename_keeps_fixed_names', 'C08_rename_old_code_refuted',
            'C08_sensitivities_follow_free', 'C08_refresh_on_count_refuted', 'C08_early_return_refuted',
            'C08_buffers_refine_spec', 'C08_buffers_observe']
HEADER = '''From Coq Require Import ZArith QArith List Bool String.
From Chi Require Import Model.Fixing Tie.C08Tie.
Import ListNotations.
Open Scope string_scope.
'''
TIMES = [0.5, 1.0, 2.5]


# ------------------------------------------------------------------------------------------------
# subjects
# ------------------------------------------------------------------------------------------------

def recording(pop):
    """Make a population model record the parameter vectors it is evaluated with (top level only)."""
    cls = pop.__class__
    log = []

    def cll(self, parameters, observations, *a, **k):
        log.append([float(x) for x in np.asarray(parameters).flatten()])
        return cls.compute_log_likelihood(self, parameters, observations, *a, **k)
    pop.__class__ = type('Rec' + cls.__name__, (cls,), {'compute_log_likelihood': cll})
    pop._verif_log = log
    return pop


POP_KINDS = ['gauss1', 'gauss2', 'lognorm1', 'lognorm_nc', 'pooled2', 'hetero', 'trunc', 'composed', 'covariate']


def make_pop(kind):
    import chi
    if kind == 'gauss1':
        return chi.GaussianModel()
    if kind == 'gauss2':
        return chi.GaussianModel(n_dim=2)
    if kind == 'lognorm1':
        return chi.LogNormalModel()
    if kind == 'lognorm_nc':
        return chi.LogNormalModel(n_dim=2, centered=False)
    if kind == 'pooled2':
        return chi.PooledModel(n_dim=2)
    if kind == 'hetero':
        return chi.HeterogeneousModel(n_dim=1, n_ids=3)
    if kind == 'trunc':
        return chi.TruncatedGaussianModel()
    if kind == 'composed':
        return chi.ComposedPopulationModel([chi.GaussianModel(), chi.PooledModel(), chi.LogNormalModel()])
    if kind == 'covariate':
        return chi.CovariatePopulationModel(chi.GaussianModel(), chi.LinearCovariateModel(n_cov=1))
    raise ValueError(kind)


class Subject(object):
    """Uniform view of a reducible object: red = the object with fix_parameters, ref() = an unfixed twin."""
    def __init__(self, kind, sub, rng):
        import chi
        from harness.toy import ToyModel, RecordingErrorModel
        self.kind, self.sub = kind, sub
        self.sens = False
        if kind == 'rec_em':
            self.inner = RecordingErrorModel(n_par=sub, tag=0)
            self.red = chi.ReducedErrorModel(self.inner)
        elif kind == 'real_em':
            self.inner = c04.chi_model(sub)
            self.red = chi.ReducedErrorModel(self.inner)
        elif kind == 'mech':
            self.inner = ToyModel(2)
            self.red = chi.ReducedMechanisticModel(self.inner)
        elif kind == 'pop':
            self.inner = recording(make_pop(sub))
            self.red = chi.ReducedPopulationModel(self.inner)
        elif kind == 'loglik_rec':
            ems = [RecordingErrorModel(n_par=c, tag=i) for i, c in enumerate(sub)]
            self.red = chi.LogLikelihood(ToyModel(len(sub)), ems, [[1.0, 2.0]] * len(sub), [[0.5, 1.5]] * len(sub))
        elif kind == 'loglik_real':
            ems = [c04.chi_model(k) for k in sub]
            self.obs = [[1.5, 2.25, 3.0][:2 + (i % 2)] for i in range(len(sub))]
            self.tms = [[0.5, 1.0, 2.0][:2 + (i % 2)] for i in range(len(sub))]
            self.red = chi.LogLikelihood(ToyModel(len(sub)), ems, self.obs, self.tms)
            self.twin = chi.LogLikelihood(ToyModel(len(sub)), [c04.chi_model(k) for k in sub], self.obs, self.tms)
        elif kind == 'predictive':
            self.red = chi.PredictiveModel(ToyModel(len(sub)), [c04.chi_model(k) for k in sub])
            self.twin = chi.PredictiveModel(ToyModel(len(sub)), [c04.chi_model(k) for k in sub])
        self.orig_names = self.full_names()

    def full_names(self):
        k = self.kind
        if k in ('rec_em', 'real_em'):
            return list(self.inner.get_parameter_names())
        if k == 'mech':
            return list(self.inner.parameters())
        if k == 'pop':
            return list(self.inner.get_parameter_names())
        if k in ('loglik_rec', 'loglik_real'):
            sm = self.red.get_submodels()
            names = list(sm['Mechanistic model'].parameters())
            for em in sm['Error models']:
                names += list(em.get_parameter_names())
            return names
        if k == 'predictive':
            return list(self.twin.get_parameter_names())

    def reported(self):
        r, k = self.red, self.kind
        if k == 'mech':
            return list(r.parameters()), int(r.n_parameters()), int(r.n_fixed_parameters())
        if k in ('loglik_rec', 'loglik_real'):
            return list(r.get_parameter_names()), int(r.n_parameters()), None
        if k == 'predictive':
            return list(r.get_parameter_names()), int(r.n_parameters()), None
        return list(r.get_parameter_names()), int(r.n_parameters()), int(r.n_fixed_parameters())

    def apply(self, op):
        if op[0] == 'fix':
            self.red.fix_parameters(dict(op[1]))
        elif op[0] == 'fix_items':      # items in the given key order (order must not matter)
            self.red.fix_parameters(dict(op[1]))
        elif op[0] == 'sens':
            self.red.enable_sensitivities(op[1])
            self.sens = op[1]
        elif op[0] == 'dim_names':
            self.red.set_dim_names(op[1])
        elif op[0] == 'par_names':
            self.red.set_parameter_names(op[1])

    # -- evaluation of the reduced object at `free`; returns (recorded full vector or None, results) --
    def evaluate(self, free):
        k, r = self.kind, self.red
        free_arr = np.array(free, dtype=float)
        if k == 'rec_em':
            r.compute_log_likelihood(free_arr, [1.0], [1.0])
            return self.inner.log[-1]['par'], {}
        if k == 'real_em':
            ms, ys = [1.5, 2.0, 3.25], [1.25, 2.5, 3.0]
            sens = np.array([[1.0, 0.5], [0.25, 2.0], [1.5, 1.0]])
            s1, g = r.compute_sensitivities(free_arr, ms, sens, ys)
            return None, {'ll': float(r.compute_log_likelihood(free_arr, ms, ys)),
                          'pw': [float(v) for v in r.compute_pointwise_ll(free_arr, ms, ys)],
                          's1': float(s1), 'grad': [float(v) for v in g],
                          'sample': np.asarray(r.sample(free_arr, ms, n_samples=2, seed=7)).tolist()}
        if k == 'mech':
            out = r.simulate(free_arr, TIMES)
            res = {}
            if self.sens:
                out, s = out
                res['sens'] = np.asarray(s).tolist()
            res['out'] = np.asarray(out).tolist()
            return list(self.inner.log[-1][0]), res
        if k == 'pop':
            obs, kw = self.pop_data()
            res = {'ll': float(r.compute_log_likelihood(free_arr, obs, **kw))}
            full = self.inner._verif_log[-1]
            if self.sub != 'trunc_nosens':
                out = r.compute_sensitivities(free_arr, obs, **kw)
                res['s1'] = float(out[0])
                res['dpsi'] = np.asarray(out[1]).tolist()
                res['dtheta'] = np.asarray(out[2]).flatten().tolist()
            res['sample'] = np.asarray(r.sample(free_arr, n_samples=3, seed=11, **kw)).tolist()
            return full, res
        if k == 'loglik_rec':
            r(free_arr)
            sm = r.get_submodels()
            full = list(sm['Mechanistic model'].log[-1][0])
            for em in sm['Error models']:
                full += em.log[-1]['par']
            return full, {}
        if k == 'loglik_real':
            s1, g = r.evaluateS1(free_arr)
            return None, {'ll': float(r(free_arr)), 'pw': [float(v) for v in r.compute_pointwise_ll(free_arr)],
                          's1': float(s1), 'grad': [float(v) for v in g]}
        if k == 'predictive':
            df = r.sample(free_arr, TIMES, n_samples=2, seed=5)
            return None, {'sample': df.to_dict('list')}

    def pop_data(self):
        n_dim = self.inner.n_dim()
        n_ids = 3
        obs = np.array([[1.5 + 0.25 * i + 0.5 * d for d in range(n_dim)] for i in range(n_ids)])
        kw = {}
        if self.inner.n_covariates() > 0:
            kw['covariates'] = np.array([[0.5 * (i + 1)] for i in range(n_ids)])
        return obs, kw

    # -- the unfixed object at the substituted full vector --
    def reference(self, full, free_idx):
        k = self.kind
        full_arr = np.array(full, dtype=float)
        if k == 'real_em':
            em = c04.chi_model(self.sub)
            ms, ys = [1.5, 2.0, 3.25], [1.25, 2.5, 3.0]
            sens = np.array([[1.0, 0.5], [0.25, 2.0], [1.5, 1.0]])
            s1, g = em.compute_sensitivities(full_arr, ms, sens, ys)
            g = list(g[:2]) + [g[2 + i] for i in free_idx]
            return {'ll': float(em.compute_log_likelihood(full_arr, ms, ys)),
                    'pw': [float(v) for v in em.compute_pointwise_ll(full_arr, ms, ys)],
                    's1': float(s1), 'grad': [float(v) for v in g],
                    'sample': np.asarray(em.sample(full_arr, ms, n_samples=2, seed=7)).tolist()}
        if k == 'mech':
            from harness.toy import ToyModel
            m = ToyModel(2)
            res = {}
            if self.sens:
                m.enable_sensitivities(True)
                out, s = m.simulate(full_arr, TIMES)
                res['sens'] = np.asarray(s)[:, :, free_idx].tolist()
            else:
                out = m.simulate(full_arr, TIMES)
            res['out'] = np.asarray(out).tolist()
            return res
        if k == 'pop':
            m = make_pop(self.sub)
            obs, kw = self.pop_data()
            res = {'ll': float(m.compute_log_likelihood(full_arr, obs, **kw))}
            out = m.compute_sensitivities(full_arr, obs, flattened=True, **kw) \
                if 'Covariate' not in type(m).__name__ else m.compute_sensitivities(full_arr, obs, **kw)
            res['s1'] = float(out[0])
            res['dpsi'] = np.asarray(out[1]).tolist()
            res['dtheta'] = np.asarray(out[2]).flatten()[free_idx].tolist()
            res['sample'] = np.asarray(m.sample(full_arr, n_samples=3, seed=11, **kw)).tolist()
            return res
        if k == 'loglik_real':
            m = self.twin
            s1, g = m.evaluateS1(full_arr)
            return {'ll': float(m(full_arr)), 'pw': [float(v) for v in m.compute_pointwise_ll(full_arr)],
                    's1': float(s1), 'grad': [float(g[i]) for i in free_idx]}
        if k == 'predictive':
            df = self.twin.sample(full_arr, TIMES, n_samples=2, seed=5)
            return {'sample': df.to_dict('list')}
        return {}


def gen_subject(rng):
    kind = rng.choice(['rec_em', 'real_em', 'mech', 'mech', 'pop', 'pop', 'pop', 'loglik_rec', 'loglik_real',
                       'predictive'])
    if kind == 'rec_em':
        sub = rng.choice([1, 2, 3, 4])
    elif kind == 'real_em':
        sub = rng.choice(['G', 'CMG', 'CMG', 'LN', 'MG'])
    elif kind == 'pop':
        sub = rng.choice(POP_KINDS)
    elif kind == 'loglik_rec':
        sub = [rng.choice([1, 2]) for _ in range(rng.choice([1, 2, 3]))]
    elif kind in ('loglik_real', 'predictive'):
        sub = [rng.choice(['G', 'CMG', 'LN', 'MG']) for _ in range(rng.choice([1, 2]))]
    else:
        sub = None
    return kind, sub


def gen_history(rng, subj):
    """ops use the names the object reports at that moment"""
    ops = []
    n_steps = rng.choice([1, 2, 2, 3, 4])
    planned = []
    if subj.kind == 'mech' and rng.random() < 0.3:
        # sensitivities switched on between a fix and (a) its release, (b) a swap in one call
        n0, n1 = rng.sample(subj.full_names(), 2)
        last = [(n1, None)] if rng.random() < 0.5 else [(n1, None), (n0, core.dyadic(rng, 2, 24, 8))]
        rng.shuffle(last)
        planned = [('fix', [(n1, core.dyadic(rng, 2, 24, 8))]), ('sens', True), ('fix', last)]
        n_steps = len(planned)
    for _ in range(n_steps):
        names = subj.full_names()
        r = rng.random()
        if planned:
            op = planned.pop(0)
        elif subj.kind == 'mech' and r < 0.3:
            op = ('sens', rng.random() < 0.75)
        elif subj.kind == 'pop' and r < 0.2 and 'hetero' not in subj.sub:
            nd = subj.inner.n_dim()
            op = ('dim_names', ['d%d_%d' % (len(ops), j) for j in range(nd)]) if rng.random() < 0.7 \
                else ('dim_names', None)
        elif subj.kind == 'pop' and r < 0.3:
            op = ('par_names', None) if rng.random() < 0.4 else \
                ('par_names', ['q%d_%d' % (len(ops), j) for j in range(subj.red.n_parameters())]) \
                if subj.sub not in ('composed', 'covariate') else ('par_names', None)
        else:
            k = rng.choice([1, 1, 2, 2, 3])
            keys = rng.sample(names, min(k, len(names)))
            rng.shuffle(keys)
            # values include the boundary 0 (a value that is falsy in Python must still fix the parameter)
            items = [(n, None if rng.random() < 0.3 else (0.0 if rng.random() < 0.12 else core.dyadic(rng, 2, 24, 8)))
                     for n in keys]
            if rng.random() < 0.15:
                items.append(('no such parameter', 1.0))
            op = ('fix', items)
        ops.append(op)
        bases_before = None
        if op[0] == 'par_names' and op[1] is not None:
            try:
                bases_before = list(subj.inner.get_parameter_names(exclude_dim_names=True))
            except TypeError:
                bases_before = None
        subj.apply(op)
        subj.history = list(ops)
        if op[0] == 'par_names' and op[1] is not None:
            # renaming the free parameters leaves the fixed ones under their names (they are released by name)
            fixed_now = net_of(subj.orig_names, subj.trans)
            after = subj.full_names()
            if bases_before is not None and len(bases_before) == len(names) and all(
                    f == b or f.startswith(b + ' ') for f, b in zip(names, bases_before)):
                subj.renames = getattr(subj, 'renames', []) + [{
                    'mask': [n0 in fixed_now for n0 in subj.orig_names],
                    'ps': [(b, f[len(b) + 1:]) for f, b in zip(names, bases_before)],
                    'new': list(op[1]), 'after': list(after)}]
            for i, n0 in enumerate(subj.orig_names):
                if n0 in fixed_now and after[i] != names[i] and not getattr(subj, 'name_problem', None):
                    subj.name_problem = ('set_parameter_names(%r) on the free parameters renamed the fixed parameter '
                                         '%r to %r' % (op[1], names[i], after[i]))
        # translate keys to original names by position
        if op[0] == 'fix':
            pos = {n: i for i, n in enumerate(names)}
            subj.trans.append([(subj.orig_names[pos[n]] if n in pos else n, v) for n, v in op[1]])
            subj.rops = getattr(subj, 'rops', []) + [('fix', subj.trans[-1])]
        elif op[0] == 'sens':
            subj.rops = getattr(subj, 'rops', []) + [('sens', op[1])]
    return ops


def net_of(orig_names, trans):
    net = {}
    for items in trans:
        for n, v in dict(items).items():
            if n in orig_names:
                net[n] = v
    return {n: v for n, v in net.items() if v is not None}


def deep_equal(a, b):
    if isinstance(a, dict):
        return isinstance(b, dict) and a.keys() == b.keys() and all(deep_equal(a[k], b[k]) for k in a)
    if isinstance(a, (list, tuple)):
        return isinstance(b, (list, tuple)) and len(a) == len(b) and all(deep_equal(x, y) for x, y in zip(a, b))
    if isinstance(a, float) and isinstance(b, float):
        return a == b or (math.isnan(a) and math.isnan(b))
    return a == b


def run_case(seed):
    """Run one generated case against chi.  Returns a dict; 'violation' is set if the property fails."""
    rng = random.Random(seed)
    kind, sub = gen_subject(rng)
    subj = Subject(kind, sub, rng)
    subj.trans, subj.history = [], []
    out = {'seed': seed, 'kind': kind, 'sub': sub}
    ops = gen_history(rng, subj)
    out['ops'] = ops
    out['renames'] = getattr(subj, 'renames', [])
    if kind == 'mech':
        # what the wrapped model was last asked for: sensitivities w.r.t. which parameters (None = switched off)
        inner = subj.inner
        out['rops'] = getattr(subj, 'rops', [])
        out['sens_observed'] = [inner._names[i] for i in inner._sens_idx] if inner.has_sensitivities() else None
    if getattr(subj, 'name_problem', None):
        out['violation'] = subj.name_problem
        return out
    out['orig_names'] = subj.orig_names
    out['trans'] = subj.trans
    net = net_of(subj.orig_names, subj.trans)
    free_idx = [i for i, n in enumerate(subj.orig_names) if n not in net]
    names_now = subj.full_names()
    exp_names = [names_now[i] for i in free_idx]
    rep_names, rep_n, rep_fixed = subj.reported()
    out['reported'] = {'names': rep_names, 'n': rep_n, 'n_fixed': rep_fixed}
    out['free_idx'] = free_idx
    # the Coq model speaks in original names
    out['reported_orig'] = [subj.orig_names[names_now.index(n)] if n in names_now else n for n in rep_names]
    if rep_names != exp_names or rep_n != len(free_idx) or (rep_fixed is not None and rep_fixed != len(net)):
        out['violation'] = 'after the history the object reports names %r (n=%r, fixed=%r); the free parameters ' \
                           'in original order are %r (fixed: %r)' % (rep_names, rep_n, rep_fixed, exp_names, net)
        return out
    free = [core.dyadic(rng, 4, 20, 8) + i / 64.0 for i in range(len(free_idx))]
    out['free'] = free
    full = [None] * len(subj.orig_names)
    for i, n in enumerate(subj.orig_names):
        full[i] = net[n] if n in net else free[free_idx.index(i)]
    out['full'] = full
    try:
        rec, res = subj.evaluate(free)
    except Exception as e:
        # a value outside a model's domain (e.g. a standard deviation fixed at 0) makes the unfixed object raise as
        # well: exact substitution then means raising the same error
        try:
            subj.reference(full, free_idx)
        except Exception as e2:
            if type(e2) is type(e):
                out['skipped'] = 'both the reduced and the unfixed object raise %s' % type(e).__name__
                return out
        out['violation'] = 'evaluating the reduced object at %r raised %s: %s' % (free, type(e).__name__, e)
        return out
    out['recorded_full'] = rec
    ref = subj.reference(full, free_idx)
    finite = math.isfinite(ref.get('s1', ref.get('ll', 0.0)))
    for key in ref:
        if key in ('dpsi', 'dtheta', 'grad') and not finite:
            continue       # chi leaves gradients uninitialised next to a -inf score
        if not deep_equal(res.get(key), ref[key]):
            out['violation'] = '%s of the reduced object at free=%r is %r; the unfixed object at the substituted ' \
                               'vector %r gives %r' % (key, free, res.get(key), full, ref[key])
            return out
    if rec is not None and [float(x) for x in rec] != [float(x) for x in full]:
        out['violation'] = 'the wrapped object was evaluated at %r, the substituted vector is %r' % (rec, full)
    return out


def coq_expr(out):
    S = lambda xs: coq_list(xs, coq_string)
    h = '[' + '; '.join('[' + '; '.join('(%s, %s)' % (coq_string(n), 'None' if v is None else '(Some %s)' % coqQ(v))
                                        for n, v in items) + ']' for items in out['trans']) + ']'
    rec = out.get('recorded_full')
    full = rec if rec is not None else out['full']
    nf = out['reported']['n_fixed']
    if nf is None:
        nf = len(out['orig_names']) - out['reported']['n']
    return 'c08_case %s %s %s %s %d%%nat (Some %s)' % (
        S(out['orig_names']), h, coq_list(out['free'], coqQ), S(out['reported_orig']), nf, coq_list(full, coqQ))


def oracle(case):
    out = run_case(case['seed'])
    return out.get('violation')


def key_of(case, what):
    return 'C08|%s' % case.get('kind')


HEADER_RENAME = '''From Coq Require Import QArith List Bool String.
From Chi Require Import Model.Fixing.
Import ListNotations.
Open Scope string_scope.
Fixpoint lstr_eqb (a b : list string) : bool :=
  match a, b with [], [] => true | x :: a', y :: b' => String.eqb x y && lstr_eqb a' b' | _, _ => false end.
(* observed on chi: the published names of the wrapped model after ReducedPopulationModel.set_parameter_names(new) *)
(* observed on the wrapped model after a history: the parameters it was last asked to differentiate by *)
Definition c08_sens (names : list string) (ops : list (rop Q)) (observed : option (list string)) : bool :=
  match rsens (rrun rstep names ops), observed with
  | None, None => true
  | Some a, Some b => lstr_eqb a b
  | _, _ => false
  end.
Definition c08_rename (mask : list bool) (ps : list (string * string)) (new observed : list string) : bool :=
  lstr_eqb (map full (rename mask ps new)) observed.
'''


def run(ck):
    n = ck.n(400, 6000)
    exprs, rexprs, payload = [], [], {}
    for i in range(n):
        seed = ck.seed * 100003 + i
        try:
            out = run_case(seed)
        except Exception as e:
            import traceback
            ck.broken.append('harness/c08 case seed=%d could not run: %s' % (seed, traceback.format_exc()[-600:]))
            continue
        ck.count('kind=%s' % out['kind'])
        ck.count('ops=%d' % len(out['ops']))
        for op in out['ops']:
            ck.count('op=%s' % op[0])
        ck.case({k: out[k] for k in ('kind', 'sub', 'ops')})
        if out.get('violation'):
            ck.violation(key_of(out, ''), out['violation'], {'seed': seed, 'kind': out['kind'], 'sub': out['sub'],
                                                             'ops': out['ops']})
            continue
        if out.get('skipped'):
            ck.count('value outside the model domain: reduced and unfixed object raise alike')
            continue
        label = 'h%d' % i
        if 'rops' in out:
            rops = coq_list(out['rops'], lambda o: '(RSens %s)' % core.coq_bool(o[1]) if o[0] == 'sens' else
                            '(RFix %s)' % coq_list(o[1], lambda nv: '(%s, %s)' % (
                                core.coq_string(nv[0]), 'None' if nv[1] is None else '(Some %s)' % coqQ(nv[1]))))
            obs = 'None' if out['sens_observed'] is None else '(Some %s)' % coq_list(out['sens_observed'], core.coq_string)
            rexprs.append(('%s_s' % label, 'c08_sens %s %s %s' % (coq_list(out['orig_names'], core.coq_string), rops, obs)))
        for q, r in enumerate(out.get('renames', [])):
            rexprs.append(('%s_%d' % (label, q), 'c08_rename %s %s %s %s' % (
                coq_list(r['mask'], core.coq_bool),
                coq_list(r['ps'], lambda bd: '(%s, %s)' % (core.coq_string(bd[0]), core.coq_string(bd[1]))),
                coq_list(r['new'], core.coq_string), coq_list(r['after'], core.coq_string))))
        exprs.append((label, coq_expr(out)))
        payload[label] = {'seed': seed, 'kind': out['kind'], 'sub': out['sub'], 'ops': out['ops']}
    ck.cov['rule'] = ('histories of 1-4 operations (fix with 1-3 keys in shuffled order incl. release and unknown '
                      'keys; sensitivity switches on mechanistic models; set_dim_names / set_parameter_names on '
                      'population models) on ReducedErrorModel (recording and real), ReducedMechanisticModel, '
                      'ReducedPopulationModel (9 kinds), LogLikelihood (recording and real error models) and '
                      'PredictiveModel; every case evaluates the object; distinct = distinct (kind, history)')
    ck.log('exact route: %d histories, %d renaming and sensitivity-request expressions' % (len(exprs), len(rexprs)))
    rbad = ck.exact('renaming', HEADER_RENAME, rexprs, shard=200)
    if rbad:
        ck.settle('correspondence C08: the renaming model of Model/Fixing.v and chi differ on %s (first: %s)' % (
            rbad[:5], payload.get(rbad[0].split('_')[0])), [payload[b.split('_')[0]] for b in rbad if b.split('_')[0] in payload],
            oracle, ({'seed': ck.seed * 7 + j} for j in range(ck.n(500, 5000))), key_of)
    bad = ck.exact('fixing', HEADER, exprs, shard=200)
    if bad:
        ck.settle('correspondence C08: Model/Fixing.v and chi differ on %s (first: %s)' % (bad[:5], payload[bad[0]]),
                  [payload[b] for b in bad], oracle,
                  ({'seed': ck.seed * 7 + j} for j in range(ck.n(500, 5000))), key_of)
    elif ck.broken:
        ck.settle(ck.broken.pop(), [], oracle, ({'seed': ck.seed * 7 + j} for j in range(ck.n(500, 5000))), key_of)


def replay(ck, body):
    r = oracle(body['replay'])
    print('oracle:', r)
    return r is None
