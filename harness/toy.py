"""Test doubles injected by the harness (DESIGN §4.3).  chi is imported from /repo (PYTHONPATH).

ToyModel:  pure-Python chi.MechanisticModel with closed-form, exactly representable outputs

      out_o(t) = p0*(1+o) + p1*t + p2*t*t*o            (o = 0 .. n_outputs-1)

  (Coq: Model/LogLik.v `toy_out`) and exact sensitivities; it records every simulate call.
RecordingErrorModel: chi.ErrorModel that logs what it is called with and returns an injective code."""
import copy

import numpy as np

import chi


class ToyModel(chi.MechanisticModel):
    NAMES = ['p0', 'p1', 'p2']

    def __init__(self, n_outputs=1):
        super().__init__()
        self._n_out_total = n_outputs
        self._outputs = ['out%d' % o for o in range(n_outputs)]
        self._sel = list(range(n_outputs))
        self._has_sens = False
        self._sens_idx = [0, 1, 2]
        self._names = list(self.NAMES)
        self.log = []

    def copy(self):
        return copy.deepcopy(self)

    def enable_sensitivities(self, enabled, parameter_names=None):
        self._has_sens = bool(enabled)
        if parameter_names is None:
            self._sens_idx = [0, 1, 2]
        else:
            self._sens_idx = [i for i, n in enumerate(self._names) if n in list(parameter_names)]

    def has_sensitivities(self):
        return self._has_sens

    def n_outputs(self):
        return len(self._sel)

    def n_parameters(self):
        return 3

    def outputs(self):
        return [self._outputs[o] for o in self._sel]

    def parameters(self):
        return list(self._names)

    def set_outputs(self, outputs):
        self._sel = [self._outputs.index(o) for o in outputs]

    def set_parameter_names(self, names):
        self._names = [names.get(n, n) for n in self._names]

    def supports_dosing(self):
        return False

    def simulate(self, parameters, times):
        p0, p1, p2 = [float(x) for x in parameters]
        t = np.asarray(times, dtype=float)
        self.log.append((tuple(float(x) for x in parameters), tuple(float(x) for x in t)))
        y = np.array([p0 * (1 + o) + p1 * t + p2 * t * t * o for o in self._sel]).reshape(len(self._sel), len(t))
        if not self._has_sens:
            return y
        s = np.empty((len(t), len(self._sel), 3))
        for k, o in enumerate(self._sel):
            s[:, k, 0] = 1 + o
            s[:, k, 1] = t
            s[:, k, 2] = t * t * o
        return y, s[:, :, self._sens_idx]


class RecordingErrorModel(chi.ErrorModel):
    """Logs (parameters, model_output, observations[, sensitivities]); n_par parameters; reproduces the
    length check of the real error models."""
    def __init__(self, n_par=1, tag=0):
        super().__init__()
        self._n_par = n_par
        self._names = ['rec%d_%d' % (tag, k) for k in range(n_par)]
        self._default = list(self._names)
        self.tag = tag
        self.log = []

    def n_parameters(self):
        return self._n_par

    def get_parameter_names(self):
        return list(self._names)

    def set_parameter_names(self, names=None):
        self._names = list(self._default) if names is None else list(names)

    def _rec(self, kind, parameters, model_output, observations, sens=None):
        m = np.asarray(model_output, dtype=float)
        y = np.asarray(observations, dtype=float)
        if m.shape[0] != y.shape[0] or m.ndim != 1:
            raise ValueError('The number of model outputs must match the number of observations')
        self.log.append({'kind': kind, 'par': [float(x) for x in parameters], 'out': [float(x) for x in m],
                         'obs': [float(x) for x in y],
                         'sens': None if sens is None else np.asarray(sens, dtype=float).tolist()})
        return m, y

    def compute_log_likelihood(self, parameters, model_output, observations):
        self._rec('ll', parameters, model_output, observations)
        return 0.0

    def compute_pointwise_ll(self, parameters, model_output, observations):
        m, y = self._rec('pw', parameters, model_output, observations)
        return np.zeros(len(m))

    def compute_sensitivities(self, parameters, model_output, model_sensitivities, observations):
        m, y = self._rec('s1', parameters, model_output, observations, model_sensitivities)
        s = np.asarray(model_sensitivities)
        return 0.0, np.zeros(s.shape[1] + self._n_par)


class PolyToyModel(chi.MechanisticModel):
    """Pure-Python mechanistic model with any number of parameters (Coq: Model/LogLik.v `ptoy_out`):

          out_o(t) = sum_k p_k * (1 + k*t + o)            (k = 0 .. n_parameters-1, o = 0 .. n_outputs-1)

    positive for positive parameters and t >= 0; exact in doubles for dyadic inputs."""
    def __init__(self, n_parameters=3, n_outputs=1):
        super().__init__()
        self._np = n_parameters
        self._outputs = ['out%d' % o for o in range(n_outputs)]
        self._sel = list(range(n_outputs))
        self._names = ['p%d' % k for k in range(n_parameters)]
        self._has_sens = False
        self._sens_idx = list(range(n_parameters))
        self.log = []

    def copy(self):
        return copy.deepcopy(self)

    def enable_sensitivities(self, enabled, parameter_names=None):
        self._has_sens = bool(enabled)
        self._sens_idx = list(range(self._np)) if parameter_names is None else \
            [i for i, n in enumerate(self._names) if n in list(parameter_names)]

    def has_sensitivities(self):
        return self._has_sens

    def n_outputs(self):
        return len(self._sel)

    def n_parameters(self):
        return self._np

    def outputs(self):
        return [self._outputs[o] for o in self._sel]

    def parameters(self):
        return list(self._names)

    def set_outputs(self, outputs):
        self._sel = [self._outputs.index(o) for o in outputs]

    def set_parameter_names(self, names):
        self._names = [names.get(n, n) for n in self._names]

    def supports_dosing(self):
        return False

    def simulate(self, parameters, times):
        p = [float(x) for x in parameters]
        t = np.asarray(times, dtype=float)
        self.log.append((tuple(p), tuple(float(x) for x in t)))
        y = np.array([sum(p[k] * (1 + k * t + o) for k in range(self._np)) for o in self._sel]).reshape(
            len(self._sel), len(t))
        if not self._has_sens:
            return y
        s = np.empty((len(t), len(self._sel), self._np))
        for j, o in enumerate(self._sel):
            for k in range(self._np):
                s[:, j, k] = 1 + k * t + o
        return y, s[:, :, self._sens_idx]
