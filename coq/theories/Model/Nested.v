(* Model of compositions of compositions (definitions only).
   source                                                              model
   ------------------------------------------------------------------  ----------------------------------------
   ComposedPopulationModel([... ComposedPopulationModel([...]) ...])    tree, flat
   _set_population_model_properties (sums / shifted special ranges      t_dim, t_par, t_hdim, t_special
     of the direct sub-models' own reports)
   _compute_reduced_sensitivities: per sub-model ds[:n_b].reshape       reshape, red (width = n_b / n_ids: fixed code)
     (n_ids, width), column blocks of dpsi, dpsi.flatten(), tops        red_old (width = n_dim: code before f4dfd54)
   ComposedPopulationModel.__init__ / set_n_ids (number of             obj, build, build_old, set_n
     individuals stored per object, early return when unchanged)       (b4ba354) *)
From Coq Require Import List Arith Bool.
From Chi Require Import Model.Layout.
Import ListNotations.

Inductive tree := Leaf (s : sub) | Node (ts : list tree).

Fixpoint flat (t : tree) : comp :=
  match t with Leaf s => [s] | Node ts => flat_map flat ts end.

(* what an object reports about itself, computed from the reports of its direct sub-models only *)
Fixpoint t_dim (t : tree) : nat :=
  match t with Leaf s => sdim s | Node ts => sum_of t_dim ts end.
Fixpoint t_hdim (t : tree) : nat :=
  match t with Leaf s => n_hdim s | Node ts => sum_of t_hdim ts end.
Fixpoint t_par (n_ids : nat) (t : tree) : nat :=
  match t with Leaf s => n_par n_ids s | Node ts => sum_of (t_par n_ids) ts end.
Definition shift_range (off : nat) (r : nat * nat) : nat * nat := (fst r + off, snd r + off).
Fixpoint t_special (t : tree) : list (nat * nat) :=
  match t with
  | Leaf s => if special (sk s) then [(0, sdim s)] else []
  | Node ts =>
      (fix go (off : nat) (l : list tree) : list (nat * nat) :=
         match l with
         | [] => []
         | x :: r => map (shift_range off) (t_special x) ++ go (off + t_dim x) r
         end) 0 ts
  end.

(* ---------------- hierarchical ("reduced") sensitivities ---------------- *)
Section Reduced.
Variable V : Type.
(* a population model with the sensitivities it returns: bottom-level rows (one per individual, one entry per
   non-special dimension) and population-level entries; dimw = n_dim() of the object *)
Inductive dtree :=
| DLeaf (dimw : nat) (rows : list (list V)) (top : list V)
| DNode (ts : list dtree).

Fixpoint d_dim (t : dtree) : nat :=
  match t with DLeaf w _ _ => w | DNode ts => sum_of d_dim ts end.
(* specification: row i of a composition is the concatenation of the sub-models' rows i; tops are concatenated *)
Fixpoint hcat (n : nat) (blocks : list (list (list V))) : list (list V) :=
  match n with
  | 0 => []
  | S n' => flat_map (fun b => hd [] b) blocks :: hcat n' (map (fun b => tl b) blocks)
  end.
Fixpoint rows_spec (n : nat) (t : dtree) : list (list V) :=
  match t with DLeaf _ rows _ => rows | DNode ts => hcat n (map (rows_spec n) ts) end.
Fixpoint top_spec (t : dtree) : list V :=
  match t with DLeaf _ _ top => top | DNode ts => flat_map top_spec ts end.
Fixpoint d_hdim (t : dtree) : nat :=
  match t with DLeaf _ rows _ => length (hd [] rows) | DNode ts => sum_of d_hdim ts end.
(* well-formed for n individuals: n rows of one common width *)
Fixpoint dwf (n : nat) (t : dtree) : Prop :=
  match t with
  | DLeaf w rows _ => length rows = n /\ (forall r, In r rows -> length r = length (hd [] rows)) /\ length (hd [] rows) <= w
  | DNode ts => (fix all (l : list dtree) : Prop := match l with [] => True | x :: r => dwf n x /\ all r end) ts
  end.

(* code: numpy reshape of a flat vector to (n, w); an error unless the sizes fit *)
Fixpoint chunks (n w : nat) (l : list V) : list (list V) :=
  match n with 0 => [] | S n' => firstn w l :: chunks n' w (skipn w l) end.
Definition reshape (n w : nat) (l : list V) : option (list (list V)) :=
  if Nat.eqb (length l) (n * w) then Some (chunks n w l) else None.
Fixpoint sequence {A} (l : list (option A)) : option (list A) :=
  match l with
  | [] => Some []
  | None :: _ => None
  | Some x :: r => match sequence r with Some xs => Some (x :: xs) | None => None end
  end.
(* the vector a model returns with reduce=True: its bottom-level sensitivities row by row, then the tops.
   `width n t nb` is the number of columns the parent reserves for sub-model t whose bottom block has nb entries *)
Section Width.
Variable width : nat -> dtree -> nat -> nat.
Definition part (n : nat) (c : dtree) (r : option (list V)) : option (list (list V) * list V) :=
  match r with
  | None => None
  | Some ds =>
      let nb := n * d_hdim c in
      if Nat.ltb 0 nb
      then match reshape n (width n c nb) (firstn nb ds) with
           | Some m => Some (m, skipn nb ds)
           | None => None
           end
      else Some (repeat [] n, skipn nb ds)
  end.
Fixpoint red (n : nat) (t : dtree) : option (list V) :=
  match t with
  | DLeaf _ rows top => Some (concat rows ++ top)
  | DNode ts =>
      match sequence (map (fun c => part n c (red n c)) ts) with
      | None => None
      | Some parts => Some (concat (hcat n (map fst parts)) ++ flat_map snd parts)
      end
  end.
End Width.
Definition width_fixed (n : nat) (t : dtree) (nb : nat) : nat := nb / n.        (* f4dfd54 *)
Definition width_old (n : nat) (t : dtree) (nb : nat) : nat := d_dim t.         (* before *)
End Reduced.

(* ---------------- number of individuals per object ---------------- *)
(* every object stores a number of individuals; a heterogeneous leaf reports the one it was built with, other
   leaves report 1; a composition takes the first value > 1 among its direct sub-models *)
Inductive obj := OLeaf (hetero : bool) (n : nat) | ONode (n : nat) (ts : list obj).
Definition o_n (o : obj) : nat := match o with OLeaf _ n => n | ONode n _ => n end.
Fixpoint first_gt1 (l : list nat) : nat :=
  match l with [] => 1 | x :: r => if Nat.ltb 1 x then x else first_gt1 r end.
(* set_n_ids: a composition returns early when the number is the one it stores *)
Fixpoint set_n (k : nat) (o : obj) : obj :=
  match o with
  | OLeaf h _ => OLeaf h k
  | ONode n ts => if Nat.eqb k n then ONode n ts else ONode k (map (set_n k) ts)
  end.
Definition build_old (ts : list obj) : obj := ONode (first_gt1 (map o_n ts)) ts.
Definition build (ts : list obj) : obj :=
  let n := first_gt1 (map o_n ts) in
  ONode n (if Nat.ltb 1 n then map (set_n n) ts else ts).
(* all objects below (and including) o work with k individuals *)
Fixpoint uniform (k : nat) (o : obj) : Prop :=
  match o with
  | OLeaf _ n => n = k
  | ONode n ts => n = k /\ (fix all (l : list obj) : Prop := match l with [] => True | x :: r => uniform k x /\ all r end) ts
  end.

(* how an object came about: leaves created with some number of individuals >= 1, compositions by the constructor *)
Inductive recipe := RLeaf (h : bool) (n : nat) | RNode (rs : list recipe).
Section Make.
Variable compose : list obj -> obj.
Fixpoint make (r : recipe) : obj :=
  match r with RLeaf h n => OLeaf h n | RNode rs => compose (map make rs) end.
End Make.
Fixpoint rwf (r : recipe) : Prop :=
  match r with
  | RLeaf _ n => 1 <= n
  | RNode rs => (fix all (l : list recipe) : Prop := match l with [] => True | x :: t => rwf x /\ all t end) rs
  end.
