(* Model of chi/_mechanistic_models.py, SBMLModel: name tables, the permutation back to the solver's state order,
   the calls made to the solver by simulate(), and the sensitivity request.  Definitions only.

   A model file is described by what myokit reports about it: the qualified names of its states in
   declaration order (the order myokit.Simulation.set_state expects) and of its literal constants in declaration
   order.  V is the type of values. *)
From Coq Require Import List Bool String Arith.
Import ListNotations.
Local Open Scope string_scope.

Section Sort.
  Variable A : Type.
  Variable leb : A -> A -> bool.

  (* Python's sorted(): stable insertion sort *)
  Fixpoint insert (x : A) (l : list A) : list A :=
    match l with
    | [] => [x]
    | y :: t => if leb x y then x :: l else y :: insert x t
    end.
  Fixpoint isort (l : list A) : list A :=
    match l with [] => [] | x :: t => insert x (isort t) end.

  (* numpy.argsort: indices that sort the list (keys are compared, indices ride along) *)
  Fixpoint insert_p (p : A * nat) (l : list (A * nat)) : list (A * nat) :=
    match l with
    | [] => [p]
    | q :: t => if leb (fst p) (fst q) then p :: l else q :: insert_p p t
    end.
  Fixpoint isort_p (l : list (A * nat)) : list (A * nat) :=
    match l with [] => [] | x :: t => insert_p x (isort_p t) end.
  Definition argsort (l : list A) : list nat :=
    map snd (isort_p (combine l (seq 0 (List.length l)))).
End Sort.
Arguments insert {A}. Arguments isort {A}. Arguments insert_p {A}. Arguments isort_p {A}. Arguments argsort {A}.

Record sbml := { decl_states : list string; decl_consts : list string }.

Definition state_names (m : sbml) : list string := isort String.leb (decl_states m).
Definition const_names (m : sbml) : list string := isort String.leb (decl_consts m).
Definition parameter_names (m : sbml) : list string := (state_names m ++ const_names m)%list.
Definition n_states (m : sbml) : nat := List.length (decl_states m).
Definition n_parameters (m : sbml) : nat := n_states m + List.length (decl_consts m).
(* np.argsort(np.argsort(names)) *)
Definition original_order (m : sbml) : list nat := argsort Nat.leb (argsort String.leb (decl_states m)).
Definition default_outputs (m : sbml) : list string := state_names m.

Section Calls.
  Variable V : Type.
  Variable d : V.
  Variable plus1 : V -> V.

  Inductive call :=
  | Reset
  | SetState (l : list V)
  | SetConst (n : string) (v : V)
  | Run (duration : V) (log : list string) (times : list V).

  (* parameters[self._original_order] *)
  Definition take (order : list nat) (l : list V) : list V := map (fun i => nth i l d) order.
  Definition set_state_calls (order : list nat) (th : list V) : list call := [SetState (take order th)].
  Fixpoint set_const_calls (names : list string) (th : list V) : list call :=
    match names with
    | [] => []
    | n :: ns => SetConst n (nth 0 th d) :: set_const_calls ns (tl th)
    end.

  (* SBMLModel.simulate.  `order`, `consts`, `ns` and `outs` are the object's tables (_original_order, _const_names,
     _n_states, _output_names); for a freshly loaded model they are the ones derived from the file below. *)
  Definition simulate_with (order : list nat) (consts : list string) (ns : nat) (outs : list string)
             (th times : list V) : list call :=
    (Reset :: set_state_calls order (firstn ns th) ++ set_const_calls consts (skipn ns th)
          ++ [Run (plus1 (last times d)) outs times])%list.
  Definition simulate_calls (m : sbml) (outs : list string) (th times : list V) : list call :=
    simulate_with (original_order m) (const_names m) (n_states m) outs th times.

  (* what the solver then integrates: the value of the state declared j-th is the j-th entry of the last
     set_state; the value of a constant is the last set_constant for it *)
  Fixpoint last_state (cs : list call) (acc : option (list V)) : option (list V) :=
    match cs with
    | [] => acc
    | SetState l :: t => last_state t (Some l)
    | Reset :: t => last_state t None
    | _ :: t => last_state t acc
    end.
  Fixpoint last_const (cs : list call) (n : string) (acc : option V) : option V :=
    match cs with
    | [] => acc
    | SetConst n' v :: t => last_const t n (if String.eqb n n' then Some v else acc)
    | _ :: t => last_const t n acc
    end.
  Fixpoint index_of (n : string) (l : list string) : option nat :=
    match l with
    | [] => None
    | x :: t => if String.eqb n x then Some 0 else option_map S (index_of n t)
    end.
  Definition assigned (m : sbml) (cs : list call) (n : string) : option V :=
    match index_of n (decl_states m) with
    | Some j => match last_state cs None with Some l => nth_error l j | None => None end
    | None => last_const cs n None
    end.

  (* the final run call: what is logged, where *)
  Fixpoint run_of (cs : list call) : option (V * list string * list V) :=
    match cs with
    | [] => None
    | Run du lg ts :: t => match run_of t with Some r => Some r | None => Some (du, lg, ts) end
    | _ :: t => run_of t
    end.
End Calls.
Arguments Reset {V}. Arguments SetState {V}. Arguments SetConst {V}. Arguments Run {V}.

(* sensitivity request (enable_sensitivities): myokit's names are init(x) for the initial value of state x and the
   qualified name for a constant; `publics` are the displayed names, position by position; `sel = None` selects
   every parameter, `Some l` the parameters whose displayed name is in l *)
Definition init_name (s : string) : string := "init(" ++ s ++ ")".
Definition sens_names (m : sbml) : list string := (map init_name (state_names m) ++ const_names m)%list.
Definition mem (n : string) (l : list string) : bool := existsb (String.eqb n) l.
Definition selected (sel : option (list string)) (pub : string) : bool :=
  match sel with None => true | Some l => mem pub l end.
Definition sens_request (m : sbml) (publics : list string) (sel : option (list string)) : list string :=
  map snd (filter (fun p => selected sel (fst p)) (combine publics (sens_names m))).

(* specification side: the target of a sensitivity, by parameter *)
Inductive target := InitialValue (s : string) | Constant (s : string).
Definition target_name (t : target) : string :=
  match t with InitialValue s => init_name s | Constant s => s end.
Definition param_targets (m : sbml) : list target := (map InitialValue (state_names m) ++ map Constant (const_names m))%list.
