(* Sampling transforms of chi's population models and the notions used to compare a sampler with a density (C06).
   Definitions only.  The error-model transforms are in Model/ErrorModels.v (G_sample, MG_sample, CMG_sample_doc,
   CMG_sample_code, LN_sample).  A sampler is modelled as a transform of primitive variates: z standard normal,
   u uniform on (0,1). *)
From Coq Require Import Reals List.
From Coquelicot Require Import Coquelicot.
From Chi Require Import Base.Normal Base.Phi Model.ErrorModels Model.PopModels.
Import ListNotations.
Open Scope R_scope.

(* population samplers: GaussianModel rng.normal(mu, sigma); LogNormalModel rng.lognormal(mu, sigma);
   non-centred models draw eta = z and chi's compute_individual_parameters maps it to psi *)
Definition Gpop_sample (mu sg z : R) : R := mu + sg * z.
Definition LNpop_sample (mu sg z : R) : R := exp (mu + sg * z).
Definition NC_sample (z : R) : R := z.

(* T : variate -> sample is an increasing bijection onto the support with inverse S, and the density integrates over
   every interval [a, b] of the support to the standard-normal mass of [S a, S b]: then, z being standard normal,
   P(a <= T z <= b) = P(S a <= z <= S b) = integral of the density over [a, b] *)
Definition normal_pushforward (T S : R -> R) (supp : R -> Prop) (pdf : R -> R) : Prop :=
  (forall z, supp (T z) /\ S (T z) = z) /\
  (forall y, supp y -> T (S y) = y) /\
  (forall z z', z < z' -> T z < T z') /\
  (forall a b, supp a -> a < b -> is_RInt pdf a b (RInt phi (S a) (S b))).

(* truncated Gaussian on [0, inf): scipy draws loc + scale * F0^{-1}(u) for the standardised law truncated at
   a = -mu/sigma; equivalently the sample y solves TG_cdf mu sg y = u *)
Definition TG_cdf (mu sg y : R) : R := (Phi ((y - mu) / sg) - Phi (- mu / sg)) / (1 - Phi (- mu / sg)).

(* variance of a linear combination c1 z1 + ... + cn zn of independent unit-variance variates *)
Definition lin_var (cs : list R) : R := fold_right (fun c acc => c^2 + acc) 0 cs.

(* moments reported by get_mean_and_std *)
Definition LN_mean (mu sg : R) : R := exp (mu + sg^2 / 2).
Definition LN_std (mu sg : R) : R := sqrt ((exp (sg^2) - 1) * exp (2 * mu + sg^2)).
Definition TG_mean (mu sg : R) : R := mu + sg * phi (mu / sg) / (1 - Phi (- mu / sg)).
Definition TG_std (mu sg : R) : R :=
  sg * sqrt (1 - mu / sg * (phi (mu / sg) / (1 - Phi (- mu / sg))) - (phi (mu / sg) / (1 - Phi (- mu / sg)))^2).
