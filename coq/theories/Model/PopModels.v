(* Model of the densities and sensitivities in chi/_population_models.py (definitions only), at the level of
   one TERM = one (individual, dimension) pair: psi (or eta) is the individual's bottom-level value in that
   dimension, mu / sigma the population parameters that apply to it (after a covariate shift, if any).
   A population model's log-likelihood is the sum of its terms; a composed model's the sum over sub-models.

   source                                                       model
   -----------------------------------------------------------  -------------------------------
   GaussianModel._compute_log_likelihood / _compute_sensitivities  G_lp, G_dpsi, G_dmu, G_dsig
   LogNormalModel.*                                                LN_lp, LN_dpsi, LN_dmu, LN_dsig
   TruncatedGaussianModel.*  (Phi through erf)                     TG_lp, TG_dpsi, TG_dmu, TG_dsig
   non-centred models: standard normal score of eta                NC_lp, NC_deta
     GaussianModel._compute_dpsi       psi = mu + sigma eta        Gnc_psi and its partials
     LogNormalModel._compute_dpsi      psi = exp(mu + sigma eta)   LNnc_psi and its partials
   PooledModel / HeterogeneousModel: point mass                    delta_lp
   upstream sensitivities (dlogp_dpsi = u)                         up_centered, up_deta, up_dtheta *)
From Coq Require Import Reals List.
From Coquelicot Require Import Coquelicot.
From Chi Require Import Base.RSum Base.Score Base.Normal Base.Phi.
Import ListNotations.
Open Scope R_scope.

(* ---------------- Gaussian ---------------- *)
Definition G_lp (mu sg psi : R) : R := - ln (2 * PI * sg^2) / 2 - (psi - mu)^2 / (2 * sg^2).
Definition G_dpsi (mu sg psi : R) : R := (mu - psi) / sg^2.
Definition G_dmu (mu sg psi : R) : R := (psi - mu) / sg^2.
Definition G_dsig (mu sg psi : R) : R := (-1 + (psi - mu)^2 / sg^2) / sg.

(* ---------------- log-normal ---------------- *)
Definition LN_lp (mu sg psi : R) : R :=
  - ln (2 * PI * sg^2) / 2 - ln psi - (ln psi - mu)^2 / 2 / sg^2.
Definition LN_dpsi (mu sg psi : R) : R := - ((ln psi - mu) / sg^2 + 1) / psi.
Definition LN_dmu (mu sg psi : R) : R := (ln psi - mu) / sg^2.
Definition LN_dsig (mu sg psi : R) : R := (-1 + (ln psi - mu)^2 / sg^2) / sg.

(* ---------------- Gaussian truncated at zero ---------------- *)
Definition TG_lp (mu sg psi : R) : R :=
  - ln (2 * PI * sg^2) / 2 - (psi - mu)^2 / (2 * sg^2) - ln (1 - Phi (- mu / sg)).
Definition TG_dpsi (mu sg psi : R) : R := (mu - psi) / sg^2.
Definition TG_dmu (mu sg psi : R) : R :=
  ((psi - mu) / sg - phi (mu / sg) / (1 - Phi (- mu / sg))) / sg.
Definition TG_dsig (mu sg psi : R) : R :=
  (-1 + (psi - mu)^2 / sg^2 + phi (mu / sg) * mu / sg / (1 - Phi (- mu / sg))) / sg.

(* ---------------- non-centred parametrisation ---------------- *)
Definition NC_lp (eta : R) : R := - ln (2 * PI) / 2 - eta^2 / 2.
Definition NC_deta (eta : R) : R := - eta.
Definition Gnc_psi (mu sg eta : R) : R := mu + sg * eta.
Definition LNnc_psi (mu sg eta : R) : R := exp (mu + sg * eta).

(* what the sensitivities become when upstream sensitivities u = dL/dpsi are supplied *)
Definition up_centered (dpsi u : R) : R := dpsi + u.
(* non-centred Gaussian: d/deta, d/dmu, d/dsigma *)
Definition Gnc_deta (sg eta u : R) : R := u * sg + NC_deta eta.
Definition Gnc_dmu (u : R) : R := u * 1.
Definition Gnc_dsig (eta u : R) : R := u * eta.
(* non-centred log-normal *)
Definition LNnc_deta (mu sg eta u : R) : R := u * (sg * LNnc_psi mu sg eta) + NC_deta eta.
Definition LNnc_dmu (mu sg eta u : R) : R := u * LNnc_psi mu sg eta.
Definition LNnc_dsig (mu sg eta u : R) : R := u * (eta * LNnc_psi mu sg eta).

(* ---------------- point masses (pooled, heterogeneous) ---------------- *)
Definition delta_lp (theta psi : R) : score :=
  match Req_EM_T psi theta with left _ => Fin 0 | right _ => NegInf end.

(* documented densities *)
Definition normal_pdf_s (mu sg y : R) : R := / (sqrt (2 * PI) * sg) * exp (- (y - mu)^2 / (2 * sg^2)).
Definition lognormal_pdf_s (mu sg y : R) : R :=
  / (sqrt (2 * PI) * sg * y) * exp (- (ln y - mu)^2 / (2 * sg^2)).
(* Gaussian truncated to [0, inf): density on y >= 0 *)
Definition truncnormal_pdf_s (mu sg y : R) : R := normal_pdf_s mu sg y / (1 - Phi (- mu / sg)).

(* linear covariate model (chi/_covariate_models.py): shifted parameter of one individual *)
Definition cov_shift (theta : R) (betas chis : list R) : R :=
  theta + Rsum (map (fun bc => fst bc * snd bc) (combine betas chis)).
