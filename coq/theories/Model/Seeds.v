(* Model of how chi's sampling routines consume random streams (C16).  Definitions only.

   A NumPy Generator is identified by the integer it was seeded with and the number of primitive variates it has
   produced so far; what a call computes is a function of the stream positions it reads.  That distinct positions
   of one stream, and streams of distinct seeds, carry independent variates is NumPy's contract and is assumed. *)
From Coq Require Import List Arith Bool.
Import ListNotations.

Record gen := { g_seed : nat; g_pos : nat }.
Definition position := (nat * nat)%type.                (* seed, index in that seed's stream *)
Definition fresh (s : nat) : gen := {| g_seed := s; g_pos := 0 |}.
Definition advance (g : gen) (k : nat) : gen := {| g_seed := g_seed g; g_pos := g_pos g + k |}.
Definition reads (g : gen) (k : nat) : list position := map (fun i => (g_seed g, g_pos g + i)) (seq 0 k).

(* seed argument of a sample method: an integer or a generator object (None is outside the property) *)
Inductive seed_arg := IntSeed (s : nat) | GenSeed (g : gen).
(* np.random.default_rng(seed): a new generator for an integer, the very generator for a generator *)
Definition default_rng (a : seed_arg) : gen := match a with IntSeed s => fresh s | GenSeed g => g end.

(* a sub-sampler draws k variates from the generator it is handed and leaves it advanced *)
Definition draw (g : gen) (k : nat) : list position * gen := (reads g k, advance g k).

(* PredictiveModel.sample, ComposedPopulationModel.sample, PopulationPredictiveModel.sample, ...: ONE generator is
   made from the seed and handed to the sub-samplers in turn; block i needs ks[i] variates *)
Fixpoint blocks (g : gen) (ks : list nat) : list (list position) * gen :=
  match ks with
  | [] => ([], g)
  | k :: t => let (b, g') := draw g k in let (bs, g'') := blocks g' t in (b :: bs, g'')
  end.
Definition shared_plan (a : seed_arg) (ks : list nat) : list (list position) * gen := blocks (default_rng a) ks.

(* the defect repaired before this check existed: the integer seed itself handed to every sub-sampler, each of
   which restarts default_rng(seed) *)
Definition restarting_plan (s : nat) (ks : list nat) : list (list position) := map (fun k => reads (fresh s) k) ks.
