(* Model of dosing in chi (definitions only).
   source                                                            model
   ----------------------------------------------------------------  ----------------------------
   PKPDModel.set_dosing_regimen(dose,start,duration,period,num)       regimen_event
     -> myokit.pacing.blocktrain(period, duration, offset, level, limit)
   myokit event semantics (level during [start+k*period, +duration))   pulse, pulses_of, pace
   PredictiveModel.get_dosing_regimen(final_time)                      table_of_event, table
   ProblemModellingController._extract_dosing_regimens                 events_of_rows
   Times/durations in the discrete part are integers (dyadics scaled by the harness); amounts are Z too
   (dose * scale).  The real-valued part (delivered amount = integral of the dose rate) is over R. *)
From Coq Require Import ZArith List Bool Reals.
Import ListNotations.

(* ---------------- discrete part ---------------- *)
Open Scope Z_scope.
(* a myokit.ProtocolEvent; amount = level * duration (what the table reports as 'Dose') *)
Record event := { ev_amt : Z; ev_st : Z; ev_dur : Z; ev_per : Z; ev_mult : nat }.

(* chi: num=None -> 0 ; period=None -> period=0, num=0 *)
Definition regimen_event (dose start duration : Z) (period : option Z) (num : option nat) : event :=
  match period with
  | None => {| ev_amt := dose; ev_st := start; ev_dur := duration; ev_per := 0; ev_mult := O |}
  | Some p => {| ev_amt := dose; ev_st := start; ev_dur := duration; ev_per := p;
                 ev_mult := match num with None => O | Some n => n end |}
  end.

(* the pulses an event delivers, as start times: k-th pulse at st + k*per; `horizon` bounds the
   enumeration for indefinite events (mult = 0, per > 0) *)
Definition n_pulses (e : event) (horizon : Z) : nat :=
  if ev_per e =? 0 then 1%nat
  else match ev_mult e with
       | O => if horizon <? ev_st e then O else Z.to_nat ((horizon - ev_st e) / ev_per e + 1)
       | n => n
       end.
Definition pulse_times (e : event) (horizon : Z) : list Z :=
  map (fun k => ev_st e + Z.of_nat k * ev_per e) (seq 0 (n_pulses e horizon)).
(* SPECIFICATION of the regimen table up to `final`: every pulse that starts at or before final *)
Definition table_spec (e : event) (final : Z) : list (Z * Z * Z) :=
  map (fun t => (t, ev_dur e, ev_amt e)) (filter (fun t => t <=? final) (pulse_times e final)).

(* CODE: PredictiveModel.get_dosing_regimen for one event (final = None means infinity) *)
Definition table_of_event (e : event) (final : option Z) : list (Z * Z * Z) :=
  let beyond := match final with Some f => f <? ev_st e | None => false end in
  if beyond then []
  else if ev_per e =? 0 then [(ev_st e, ev_dur e, ev_amt e)]
  else
    let n := match ev_mult e with
             | O => match final with
                    | None => 1%nat
                    | Some f => Z.to_nat (Z.abs (f - ev_st e) / ev_per e + 1)
                    end
             | n => n
             end in
    let times := map (fun k => ev_st e + Z.of_nat k * ev_per e) (seq 0 n) in
    map (fun t => (t, ev_dur e, ev_amt e))
        (filter (fun t => match final with Some f => t <=? f | None => true end) times).
Definition table (evs : list event) (final : option Z) : list (Z * Z * Z) :=
  concat (map (fun e => table_of_event e final) evs).

(* dataset rows of one individual: (time, dose, duration option); NaN duration -> bolus default.
   In the scaled integers of the harness the default 0.01 is represented by `bolus`. *)
Definition events_of_rows (bolus : Z) (rows : list (Z * Z * option Z)) : list event :=
  map (fun r => {| ev_amt := snd (fst r); ev_st := fst (fst r);
                   ev_dur := match snd r with Some d => d | None => bolus end; ev_per := 0; ev_mult := O |}) rows.

(* ---------------- real-valued part ---------------- *)
Open Scope R_scope.
(* myokit: level r on [s, s+d), 0 elsewhere *)
Definition pulse (r s d t : R) : R :=
  match Rle_dec s t with
  | left _ => match Rlt_dec t (s + d) with left _ => r | right _ => 0 end
  | right _ => 0
  end.
Definition overlap (s d T : R) : R := Rmax 0 (Rmin T (s + d) - s).
(* dose rate of a list of pulses (rate, start, duration) and the amount delivered up to T *)
Fixpoint pace (ps : list (R * R * R)) (t : R) : R :=
  match ps with [] => 0 | p :: r => pulse (fst (fst p)) (snd (fst p)) (snd p) t + pace r t end.
Fixpoint delivered (ps : list (R * R * R)) (T : R) : R :=
  match ps with
  | [] => 0
  | p :: r => fst (fst p) * overlap (snd (fst p)) (snd p) T + delivered r T
  end.
(* the pulses of a periodic regimen: n doses of `dose` over `d`, first at s, every p *)
Fixpoint regimen_pulses (dose s d p : R) (n : nat) : list (R * R * R) :=
  match n with O => [] | S k => (dose / d, s, d) :: regimen_pulses dose (s + p) d p k end.
