(* Real-valued model of chi.LogLikelihood.__call__ / compute_pointwise_ll / evaluateS1 (score part) on top
   of Model/TimeGrid.v (which predictions meet which observations) and Model/ErrorModels.v (densities).
   `ekind` names the error model attached to an output. *)
From Coq Require Import Reals ZArith List.
From Chi Require Import Base.RSum Base.Score Model.ErrorModels Model.TimeGrid.
Import ListNotations.
Open Scope R_scope.

Inductive ekind := KG | KMG | KCMG | KLN.
Definition n_err (k : ekind) : nat := match k with KCMG => 2%nat | _ => 1%nat end.
Definition em_ll (k : ekind) (p ms ys : list R) : score :=
  match k with
  | KG => G_ll (nth 0 p 0) ms ys
  | KMG => MG_ll (nth 0 p 0) ms ys
  | KCMG => CMG_ll (nth 0 p 0) (nth 1 p 0) ms ys
  | KLN => LN_ll (nth 0 p 0) ms ys
  end.
Definition em_pointwise (k : ekind) (p ms ys : list R) : list score :=
  match k with
  | KG => G_pointwise (nth 0 p 0) ms ys
  | KMG => MG_pointwise (nth 0 p 0) ms ys
  | KCMG => CMG_pointwise (nth 0 p 0) (nth 1 p 0) ms ys
  | KLN => LN_pointwise (nth 0 p 0) ms ys
  end.

Fixpoint ssum (l : list score) : score := match l with [] => Fin 0 | a :: t => splus a (ssum t) end.

Definition apply_em {A} (f : ekind -> list R -> list R -> list R -> A) (kc : ekind * call R R) : A :=
  f (fst kc) (fst (fst (snd kc))) (snd (fst (snd kc))) (snd (snd kc)).

(* code level: what __call__ and compute_pointwise_ll compute *)
Definition ll (pred : nat -> Z -> R) (n_mech : nat) (ks : list ekind) (ts : list (list Z))
           (obs : list (list R)) (th : list R) : score :=
  ssum (map (apply_em em_ll) (combine ks (calls 0 pred n_mech (map n_err ks) ts obs th))).
Definition pointwise (pred : nat -> Z -> R) (n_mech : nat) (ks : list ekind) (ts : list (list Z))
           (obs : list (list R)) (th : list R) : list score :=
  concat (map (apply_em em_pointwise) (combine ks (calls 0 pred n_mech (map n_err ks) ts obs th))).
(* specification level: every measurement scored against the prediction for its own output and time *)
Definition ll_spec (pred : nat -> Z -> R) (n_mech : nat) (ks : list ekind) (ts : list (list Z))
           (obs : list (list R)) (th : list R) : score :=
  ssum (map (apply_em em_ll) (combine ks (calls_spec pred n_mech (map n_err ks) ts obs th))).
Definition pointwise_spec (pred : nat -> Z -> R) (n_mech : nat) (ks : list ekind) (ts : list (list Z))
           (obs : list (list R)) (th : list R) : list score :=
  concat (map (apply_em em_pointwise) (combine ks (calls_spec pred n_mech (map n_err ks) ts obs th))).

(* The harness's toy mechanistic model (harness/toy.py): three parameters, any number of outputs.
   `den` is the common denominator by which the case's times were scaled to integers. *)
Definition toy_out (th : list R) (den : R) (o : nat) (t : Z) : R :=
  nth 0 th 0 * (1 + INR o) + nth 1 th 0 * (IZR t / den) + nth 2 th 0 * (IZR t / den) * (IZR t / den) * INR o.
