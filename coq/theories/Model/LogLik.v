(* Real-valued model of chi.LogLikelihood.__call__ / compute_pointwise_ll / evaluateS1 (score part) on top
   of Model/TimeGrid.v (which predictions meet which observations) and Model/ErrorModels.v (densities).
   `ekind` names the error model attached to an output. *)
From Coq Require Import Reals ZArith List.
From Chi Require Import Base.RSum Base.Score Model.ErrorModels Model.TimeGrid.
Import ListNotations.
Open Scope R_scope.

Inductive ekind := KG | KMG | KCMG | KLN.
Definition n_err (k : ekind) : nat := match k with KCMG => 2%nat | _ => 1%nat end.
Definition em_ll (k : ekind) (p ms ys : list R) : score :=
  match k with
  | KG => G_ll (nth 0 p 0) ms ys
  | KMG => MG_ll (nth 0 p 0) ms ys
  | KCMG => CMG_ll (nth 0 p 0) (nth 1 p 0) ms ys
  | KLN => LN_ll (nth 0 p 0) ms ys
  end.
Definition em_pointwise (k : ekind) (p ms ys : list R) : list score :=
  match k with
  | KG => G_pointwise (nth 0 p 0) ms ys
  | KMG => MG_pointwise (nth 0 p 0) ms ys
  | KCMG => CMG_pointwise (nth 0 p 0) (nth 1 p 0) ms ys
  | KLN => LN_pointwise (nth 0 p 0) ms ys
  end.

Fixpoint ssum (l : list score) : score := match l with [] => Fin 0 | a :: t => splus a (ssum t) end.

Definition apply_em {A} (f : ekind -> list R -> list R -> list R -> A) (kc : ekind * call R R) : A :=
  f (fst kc) (fst (fst (snd kc))) (snd (fst (snd kc))) (snd (snd kc)).

(* code level: what __call__ and compute_pointwise_ll compute *)
Definition ll (pred : nat -> Z -> R) (n_mech : nat) (ks : list ekind) (ts : list (list Z))
           (obs : list (list R)) (th : list R) : score :=
  ssum (map (apply_em em_ll) (combine ks (calls 0 pred n_mech (map n_err ks) ts obs th))).
Definition pointwise (pred : nat -> Z -> R) (n_mech : nat) (ks : list ekind) (ts : list (list Z))
           (obs : list (list R)) (th : list R) : list score :=
  concat (map (apply_em em_pointwise) (combine ks (calls 0 pred n_mech (map n_err ks) ts obs th))).
(* specification level: every measurement scored against the prediction for its own output and time *)
Definition ll_spec (pred : nat -> Z -> R) (n_mech : nat) (ks : list ekind) (ts : list (list Z))
           (obs : list (list R)) (th : list R) : score :=
  ssum (map (apply_em em_ll) (combine ks (calls_spec pred n_mech (map n_err ks) ts obs th))).
Definition pointwise_spec (pred : nat -> Z -> R) (n_mech : nat) (ks : list ekind) (ts : list (list Z))
           (obs : list (list R)) (th : list R) : list score :=
  concat (map (apply_em em_pointwise) (combine ks (calls_spec pred n_mech (map n_err ks) ts obs th))).

(* The harness's toy mechanistic model (harness/toy.py): three parameters, any number of outputs.
   `den` is the common denominator by which the case's times were scaled to integers. *)
Definition toy_out (th : list R) (den : R) (o : nat) (t : Z) : R :=
  nth 0 th 0 * (1 + INR o) + nth 1 th 0 * (IZR t / den) + nth 2 th 0 * (IZR t / den) * (IZR t / den) * INR o.

(* ---------------- a toy model with any number of parameters (harness/toy.py PolyToyModel) ---------------- *)
Definition ptoy_w (den : R) (k o : nat) (t : Z) : R := 1 + INR k * (IZR t / den) + INR o.
Definition ptoy_out (th : list R) (den : R) (o : nat) (t : Z) : R :=
  Rsum (map (fun kp => snd kp * ptoy_w den (fst kp) o t) (combine (seq 0 (length th)) th)).

(* ---------------- LogLikelihood.evaluateS1: score and gradient ---------------- *)
Definition em_S1 (k : ekind) (p ms ys : list R) (cols : list (list R)) : score * list R :=
  match k with
  | KG => G_S1 (nth 0 p 0) ms ys cols
  | KMG => MG_S1 (nth 0 p 0) ms ys cols
  | KCMG => CMG_S1 (nth 0 p 0) (nth 1 p 0) ms ys cols
  | KLN => LN_S1 (nth 0 p 0) ms ys cols
  end.
Fixpoint vadd (a b : list R) : list R :=
  match a, b with x :: a', y :: b' => (x + y) :: vadd a' b' | _, [] => a | [], _ => b end.
(* sens k o t = d(output o at time t)/d(mechanistic parameter k); specification level: every output's error
   model sees the predictions and output sensitivities at its own times *)
Definition ll_S1_spec (pred : nat -> Z -> R) (sens : nat -> nat -> Z -> R) (n_mech : nat) (ks : list ekind)
           (ts : list (list Z)) (obs : list (list R)) (th : list R) : score * list R :=
  let outs := map (fun kc : nat * (ekind * call R R) =>
                     let o := fst kc in
                     let k := fst (snd kc) in
                     let c := snd (snd kc) in
                     em_S1 k (fst (fst c)) (snd (fst c)) (snd c)
                           (map (fun j => map (sens j o) (nth o ts [])) (seq 0 n_mech)))
                  (combine (seq 0 (length ks)) (combine ks (calls_spec pred n_mech (map n_err ks) ts obs th))) in
  (ssum (map fst outs),
   fold_right vadd [] (map (fun sg => firstn n_mech (snd sg)) outs)
   ++ concat (map (fun sg => skipn n_mech (snd sg)) outs)).
