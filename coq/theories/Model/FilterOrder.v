(* Model of the time-order bookkeeping of population filters (definitions only).
   source                                                             model
   -----------------------------------------------------------------  ------------------------------
   PopulationFilter.sort_times: observations[..., order]                FLeaf cols (Some order)
   ComposedPopulationFilter.sort_times: _time_order, argsort of it      FNode (Some order) ts, argsort
   compute_log_likelihood: simulated_obs[:, :, argsort(order)], then    pairs
     consecutive slices of n_times() columns to the sub-filters
   compute_sensitivities: blocks written back, then [..., order]        sens
   "simulated time j is scored against data column order[j]"            presented  (specification) *)
From Coq Require Import List Arith Bool Permutation.
Import ListNotations.

Definition gather {A} (a0 : A) (idx : list nat) (l : list A) : list A := map (fun i => nth i l a0) idx.
Fixpoint index_of (k : nat) (l : list nat) : nat :=
  match l with [] => 0 | x :: r => if Nat.eqb x k then 0 else S (index_of k r) end.
(* numpy.argsort of a permutation of 0..n-1: position of k in the list *)
Definition argsort (order : list nat) : list nat := map (fun k => index_of k order) (seq 0 (length order)).

Section Order.
Variables S D G : Type.
Variables (s0 : S) (d0 : D) (g0 : G).
Inductive ftree :=
| FLeaf (cols : list D) (order : option (list nat))
| FNode (order : option (list nat)) (ts : list ftree).

Fixpoint n_times (t : ftree) : nat :=
  match t with FLeaf cols _ => length cols | FNode _ ts => list_sum (map n_times ts) end.

Definition reorder {A} (a0 : A) (o : option (list nat)) (l : list A) : list A :=
  match o with None => l | Some order => gather a0 order l end.

(* specification: the data columns in the order in which the filter presents them to the simulated time points *)
Fixpoint presented (t : ftree) : list D :=
  match t with
  | FLeaf cols o => reorder d0 o cols
  | FNode o ts => reorder d0 o (flat_map presented ts)
  end.

(* code: the (data column, simulated column) pairs that are scored, sub-filter by sub-filter *)
Fixpoint pairs (t : ftree) (sims : list S) : list (D * S) :=
  match t with
  | FLeaf cols o => combine (reorder d0 o cols) sims
  | FNode o ts =>
      (fix go (l : list ftree) (rest : list S) : list (D * S) :=
         match l with
         | [] => []
         | x :: r => pairs x (firstn (n_times x) rest) ++ go r (skipn (n_times x) rest)
         end) ts (match o with None => sims | Some order => gather s0 (argsort order) sims end)
  end.

(* code: the sensitivities, one entry per simulated column, given what each leaf returns for its own columns *)
Variable leaf_sens : D -> G.
Fixpoint sens (t : ftree) : list G :=
  match t with
  | FLeaf cols o => map leaf_sens (reorder d0 o cols)
  | FNode o ts => reorder g0 o (flat_map sens ts)
  end.

(* well-formed: every order is a permutation of the positions it orders *)
Definition is_order (o : option (list nat)) (n : nat) : Prop :=
  match o with None => True | Some order => Permutation order (seq 0 n) end.
Fixpoint fwf (t : ftree) : Prop :=
  match t with
  | FLeaf cols o => is_order o (length cols)
  | FNode o ts => is_order o (list_sum (map n_times ts)) /\
                  (fix all (l : list ftree) : Prop := match l with [] => True | x :: r => fwf x /\ all r end) ts
  end.
End Order.
