(* The documented equations of the models shipped in chi.library (docstrings of
   chi/library/_model_library_api.py).  Definitions only. *)
From Coq Require Import Reals.
Open Scope R_scope.

(* one_compartment_pk_model:  dA/dt = -k_e A,  C = A / V *)
Definition pk1_dA (k_e A : R) : R := - k_e * A.
Definition pk1_C (A V : R) : R := A / V.

(* tumour_growth_inhibition_model_koch:
   dV_T/dt = 2 lambda_0 lambda_1 V_T / (2 lambda_0 V_T + lambda_1) - kappa C V_T *)
Definition koch_dV (lambda0 lambda1 kappa C VT : R) : R :=
  2 * lambda0 * lambda1 * VT / (2 * lambda0 * VT + lambda1) - kappa * C * VT.

(* tumour_growth_inhibition_model_koch_reparametrised:
   dV_T/dt = lambda V_T / (V_T / V_crit + 1) - kappa C V_T *)
Definition koch_rep_dV (lambda Vcrit kappa C VT : R) : R :=
  lambda * VT / (VT / Vcrit + 1) - kappa * C * VT.

(* erlotinib_tumour_growth_inhibition_model: "a combination of a one_compartment_pk_model and a
   tumour_growth_inhibition_model_koch_reparametrised", the PD model driven by the PK concentration *)
Definition erl_dA := pk1_dA.
Definition erl_dV (lambda Vcrit kappa A V VT : R) : R := koch_rep_dV lambda Vcrit kappa (pk1_C A V) VT.
