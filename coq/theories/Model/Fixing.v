(* Model of the "fix parameters" mechanism shared by chi.ReducedErrorModel, chi.ReducedMechanisticModel,
   chi.ReducedPopulationModel (and, through them, LogLikelihood / PredictiveModel / the problem controller).
   Definitions only.

   source (identical in the three Reduced* classes)            model
   ----------------------------------------------------------  -----------------------------------
   fix_parameters: dict(...) ; loop over ALL parameter names    lookup, cfix (code level), fix_params (spec)
     mask[i] = value is not None ; values[i] = value
     "if np.all(~mask): mask = values = None"                   collapse in cfix
   get_parameter_names / n_parameters / n_fixed_parameters      cfree_names, cn_fixed / free_names, n_fixed
   values[~mask] = parameters ; parameters = values             cexpand / expand
   sensitivities[~mask] (ReducedPopulationModel)                restrict

   Two levels: the code-level state is the (mask, values) buffer pair with the collapse-to-None rule and
   np.empty / nan junk in unfixed slots; the spec-level state maps every name to its fixed value, if any. *)
From Coq Require Import List Bool String Arith.
Import ListNotations.

Section Fixing.
  Variable V : Type.
  Variable junk : V.                      (* np.empty garbage, or nan after a release *)

  Definition dict := list (string * option V).      (* a Python dict as its item list; None = release *)
  (* dict(items): later items win *)
  Fixpoint lookup (d : dict) (n : string) : option (option V) :=
    match d with
    | [] => None
    | (k, v) :: t =>
      match lookup t n with Some r => Some r | None => if String.eqb k n then Some v else None end
    end.

  (* ---------------- specification level ---------------- *)
  Definition state := list (string * option V).
  Definition init (names : list string) : state := map (fun n => (n, None)) names.
  Definition fix_params (s : state) (d : dict) : state :=
    map (fun p => match lookup d (fst p) with Some v => (fst p, v) | None => p end) s.
  Definition is_free (p : string * option V) : bool := match snd p with None => true | Some _ => false end.
  Definition free_names (s : state) : list string := map fst (filter is_free s).
  Definition n_fixed (s : state) : nat := List.length (filter (fun p => negb (is_free p)) s).
  (* full parameter vector handed to the wrapped object; None = wrong number of free values (numpy raises) *)
  Fixpoint expand (s : state) (free : list V) : option (list V) :=
    match s with
    | [] => match free with [] => Some [] | _ => None end
    | (_, Some v) :: t => option_map (cons v) (expand t free)
    | (_, None) :: t => match free with [] => None | x :: xs => option_map (cons x) (expand t xs) end
    end.
  (* entries of a full-length vector (e.g. a gradient) at the free positions *)
  Fixpoint restrict {A} (s : state) (l : list A) : list A :=
    match s, l with
    | p :: t, x :: xs => if is_free p then x :: restrict t xs else restrict t xs
    | _, _ => []
    end.
  (* net effect of a call history on one name: the last dict mentioning it decides *)
  Fixpoint net (h : list dict) (n : string) : option (option V) :=
    match h with
    | [] => None
    | d :: t => match net t n with Some r => Some r | None => lookup d n end
    end.

  (* ---------------- code level ---------------- *)
  Record cstate := { cnames : list string; cbuf : option (list (bool * V)) }.
  Definition cinit (names : list string) : cstate := {| cnames := names; cbuf := None |}.
  Definition cfix (s : cstate) (d : dict) : cstate :=
    let buf := match cbuf s with Some b => b | None => map (fun _ => (false, junk)) (cnames s) end in
    let buf' := map (fun nb => match lookup d (fst nb) with
                               | Some (Some v) => (true, v)
                               | Some None => (false, junk)
                               | None => snd nb
                               end) (combine (cnames s) buf) in
    {| cnames := cnames s;
       cbuf := if forallb (fun b => negb (fst b)) buf' then None else Some buf' |}.
  Definition cfree_names (s : cstate) : list string :=
    match cbuf s with
    | None => cnames s
    | Some b => map fst (filter (fun nb => negb (fst (snd nb))) (combine (cnames s) b))
    end.
  Definition cn_fixed (s : cstate) : nat :=
    match cbuf s with None => O | Some b => List.length (filter (fun mv => fst mv) b) end.
  Fixpoint cwrite (b : list (bool * V)) (free : list V) : option (list V) :=
    match b with
    | [] => match free with [] => Some [] | _ => None end
    | (true, v) :: t => option_map (cons v) (cwrite t free)
    | (false, _) :: t => match free with [] => None | x :: xs => option_map (cons x) (cwrite t xs) end
    end.
  Definition cexpand (s : cstate) (free : list V) : option (list V) :=
    match cbuf s with
    | None => Some free                       (* unwrapped: parameters are passed through *)
    | Some b => cwrite b free
    end.
  (* abstraction *)
  Definition abs (s : cstate) : state :=
    match cbuf s with
    | None => init (cnames s)
    | Some b => map (fun nb : string * (bool * V) =>
                       (fst nb, if fst (snd nb) then Some (snd (snd nb)) else @None V))
                    (combine (cnames s) b)
    end.
End Fixing.
Arguments lookup {V}. Arguments init {V}. Arguments fix_params {V}. Arguments free_names {V}.
Arguments n_fixed {V}. Arguments expand {V}. Arguments restrict {V A}. Arguments net {V}.
Arguments cinit {V}. Arguments cfix {V}. Arguments cfree_names {V}. Arguments cn_fixed {V}.
Arguments cexpand {V}. Arguments abs {V}. Arguments is_free {V}. Arguments cnames {V}. Arguments cbuf {V}.
Arguments cwrite {V}.

(* ---------------- renaming the free parameters of a reduced population model ----------------
   Model of renaming the free parameters of a reduced population model (definitions only).
   source                                                              model
   ------------------------------------------------------------------  ---------------------------
   PopulationModel names: base name + dimension name, published        pname, full
     as "<base> <dimension>"
   PopulationModel.set_parameter_names(bases)                          set_bases
   ReducedPopulationModel.set_parameter_names(new): names of the       merge, rename (reads the names WITHOUT
     wrapped model with the free entries overwritten, handed down        dimension names: d7c2aa2), rename_old
                                                                         (read the published names) *)
Local Open Scope string_scope.
Definition pname := (string * string)%type.            (* base name, dimension name *)
Definition full (p : pname) : string := fst p ++ " " ++ snd p.
Definition set_bases (ps : list pname) (bases : list string) : list pname :=
  map (fun pb => (snd pb, snd (fst pb))) (combine ps bases).
(* fixed positions keep the name read from the wrapped model, free positions take the new names in order *)
Fixpoint merge (mask : list bool) (keep new : list string) : list string :=
  match mask, keep with
  | true :: m, k :: ks => k :: merge m ks new
  | false :: m, _ :: ks => match new with n :: ns => n :: merge m ks ns | [] => [] end
  | _, _ => []
  end.
Definition rename (mask : list bool) (ps : list pname) (new : list string) : list pname :=
  set_bases ps (merge mask (map fst ps) new).
Definition rename_old (mask : list bool) (ps : list pname) (new : list string) : list pname :=
  set_bases ps (merge mask (map full ps) new).
Definition n_free (mask : list bool) : nat := List.length (filter negb mask).
(* specification: the k-th free parameter gets the k-th new base name, everything else stays *)
Fixpoint rename_spec (mask : list bool) (ps : list pname) (new : list string) : list pname :=
  match mask, ps with
  | true :: m, p :: r => p :: rename_spec m r new
  | false :: m, p :: r => match new with n :: ns => (n, snd p) :: rename_spec m r ns | [] => [] end
  | _, _ => []
  end.

(* ---------------- which sensitivities a reduced mechanistic model asks for ----------------
   ReducedMechanisticModel: enable_sensitivities(True) asks the wrapped model for the sensitivities w.r.t. the FREE
   parameters; fix_parameters ends with "if has_sensitivities: enable_sensitivities(True)" so that the request follows
   the free set.  State: the fixed name-value map and the current request (None = sensitivities off). *)
Section SensProtocol.
  Variable V : Type.
  Record rstate := { rfixed : state V; rsens : option (list string) }.
  Inductive rop := RFix (d : dict V) | RSens (on : bool).
  Definition refresh (s : state V) (sn : option (list string)) : option (list string) :=
    match sn with None => None | Some _ => Some (free_names s) end.
  Definition rstep (r : rstate) (o : rop) : rstate :=
    match o with
    | RFix d => let s' := fix_params (rfixed r) d in {| rfixed := s'; rsens := refresh s' (rsens r) |}
    | RSens true => {| rfixed := rfixed r; rsens := Some (free_names (rfixed r)) |}
    | RSens false => {| rfixed := rfixed r; rsens := None |}
    end.
  Definition rinit (names : list string) : rstate := {| rfixed := init names; rsens := None |}.
  Definition rrun (step : rstate -> rop -> rstate) (names : list string) (ops : list rop) : rstate :=
    fold_left step ops (rinit names).
  Definition rok (r : rstate) : Prop :=
    match rsens r with None => True | Some l => l = free_names (rfixed r) end.
  (* two "optimisations": refresh only when the number of fixed parameters changed; return early when nothing is
     fixed any more *)
  Definition rstep_count (r : rstate) (o : rop) : rstate :=
    match o with
    | RFix d => let s' := fix_params (rfixed r) d in
                {| rfixed := s';
                   rsens := if Nat.eqb (n_fixed s') (n_fixed (rfixed r)) then rsens r else refresh s' (rsens r) |}
    | _ => rstep r o
    end.
  Definition rstep_early (r : rstate) (o : rop) : rstate :=
    match o with
    | RFix d => let s' := fix_params (rfixed r) d in
                {| rfixed := s'; rsens := if Nat.eqb (n_fixed s') 0 then rsens r else refresh s' (rsens r) |}
    | _ => rstep r o
    end.
End SensProtocol.
Arguments rfixed {V}. Arguments rsens {V}. Arguments RFix {V}. Arguments RSens {V}. Arguments rstep {V}.
Arguments rrun {V}. Arguments rok {V}. Arguments rstep_count {V}. Arguments rstep_early {V}. Arguments rinit {V}.
