(* Model of the configuration state machine of chi.PKPDModel (chi/_mechanistic_models.py): administration,
   dosing regimen, output selection, renaming, sensitivities, copy.  Definitions only.

   The surgery myokit performs on the model for an administration (dose compartment, dose-rate variable) is an
   oracle: `variant a` is the solver's view (states in set_state order, literal constants) of the model for
   administration a, `loggable a` the variables that may be logged.  P is the type of dosing regimens. *)
From Coq Require Import List Bool String Arith.
From Chi Require Import Model.Mechanistic.
Import ListNotations.

Definition adm := option (string * bool).           (* compartment, direct? *)
Definition smap := list (string * string).          (* a Python dict str -> str, in insertion order *)

Fixpoint slookup (k : string) (m : smap) : option string :=
  match m with
  | [] => None
  | (k', v) :: t => if String.eqb k k' then Some v else slookup k t
  end.
Definition values (m : smap) : list string := map snd m.
Definition identity_map (l : list string) : smap := map (fun n => (n, n)) l.
Fixpoint dup_free (l : list string) : bool :=
  match l with [] => true | x :: t => negb (mem x t) && dup_free t end.
Fixpoint replace_first (old new : string) (l : list string) : list string :=
  match l with
  | [] => []
  | x :: t => if String.eqb x old then new :: t else x :: replace_first old new t
  end.
(* set_outputs: public names are replaced by myokit names, map entry by map entry *)
Definition translate (om : smap) (l : list string) : list string :=
  fold_left (fun acc p => replace_first (snd p) (fst p) acc) om l.
(* set_*_names: validity of the new names, then replacement of the displayed names *)
Definition rename_ok (d : smap) (m : smap) : bool :=
  dup_free (values d) && forallb (fun v => negb (mem v (values m))) (values d).
Definition rename (d : smap) (m : smap) : smap :=
  map (fun p => match slookup (snd p) d with Some v => (fst p, v) | None => p end) m.

Section Config.
  Variable P : Type.
  Variable variant : adm -> sbml.
  Variable loggable : adm -> list string.
  Variable has_comp : string -> bool.

  Record pk := {
    admin : adm;                                   (* _administration *)
    regimen : option P;                            (* _dosing_regimen *)
    model_v : adm;                                 (* which model _model is *)
    tables : adm;                                  (* which model the name tables were derived from *)
    pmap : smap;                                   (* _parameter_name_map *)
    outs : list string;                            (* _output_names *)
    omap : smap;                                   (* _output_name_map *)
    sim_v : adm;                                   (* which model the solver object was built from *)
    sim_protocol : option P;                       (* protocol attached to the solver object *)
    sim_sens : option (list string * list string); (* sensitivities the solver object computes *)
    has_sens : bool                                (* _has_sensitivities *)
  }.

  Inductive op :=
  | SetAdmin (c : string) (direct : bool)
  | SetRegimen (r : P)
  | SetOutputs (l : list string)
  | RenameParams (d : smap)
  | RenameOutputs (d : smap)
  | EnableSens (b : bool) (sel : option (list string))
  | Copy.

  Definition init (outs0 : list string) : pk :=
    {| admin := None; regimen := None; model_v := None; tables := None;
       pmap := identity_map (parameter_names (variant None));
       outs := outs0; omap := identity_map outs0;
       sim_v := None; sim_protocol := None; sim_sens := None; has_sens := false |}.

  (* a new solver object for the current model, without sensitivities, protocol re-attached *)
  Definition fresh_sim (s : pk) : pk :=
    {| admin := admin s; regimen := regimen s; model_v := model_v s; tables := tables s; pmap := pmap s;
       outs := outs s; omap := omap s;
       sim_v := model_v s; sim_protocol := regimen s; sim_sens := None; has_sens := false |}.
  (* enable_sensitivities(False) *)
  Definition disable_sens (s : pk) : pk := if has_sens s then fresh_sim s else s.

  Definition step (s : pk) (o : op) : pk * bool :=     (* new state, raised? *)
    match o with
    | SetAdmin c direct =>
      if has_comp c then
        let a := Some (c, direct) in
        ({| admin := a; regimen := regimen s; model_v := a; tables := a;
            pmap := identity_map (parameter_names (variant a));
            outs := outs s; omap := identity_map (outs s);
            sim_v := a; sim_protocol := regimen s; sim_sens := None; has_sens := false |}, false)
      else (s, true)
    | SetRegimen r =>
      match admin s with
      | None => (s, true)
      | Some _ =>
        ({| admin := admin s; regimen := Some r; model_v := model_v s; tables := tables s; pmap := pmap s;
            outs := outs s; omap := omap s;
            sim_v := sim_v s; sim_protocol := Some r; sim_sens := sim_sens s; has_sens := has_sens s |}, false)
      end
    | SetOutputs l =>
      let l' := translate (omap s) l in
      if forallb (fun n => mem n (loggable (sim_v s))) l' then
        (disable_sens
           {| admin := admin s; regimen := regimen s; model_v := model_v s; tables := tables s; pmap := pmap s;
              outs := l';
              omap := map (fun n => (n, match slookup n (omap s) with Some v => v | None => n end)) l';
              sim_v := sim_v s; sim_protocol := sim_protocol s; sim_sens := sim_sens s; has_sens := has_sens s |},
         false)
      else (s, true)
    | RenameParams d =>
      if rename_ok d (pmap s) then
        ({| admin := admin s; regimen := regimen s; model_v := model_v s; tables := tables s;
            pmap := rename d (pmap s);
            outs := outs s; omap := omap s;
            sim_v := sim_v s; sim_protocol := sim_protocol s; sim_sens := sim_sens s; has_sens := has_sens s |}, false)
      else (s, true)
    | RenameOutputs d =>
      if rename_ok d (omap s) then
        ({| admin := admin s; regimen := regimen s; model_v := model_v s; tables := tables s; pmap := pmap s;
            outs := outs s; omap := rename d (omap s);
            sim_v := sim_v s; sim_protocol := sim_protocol s; sim_sens := sim_sens s; has_sens := has_sens s |}, false)
      else (s, true)
    | EnableSens false _ => (disable_sens s, false)
    | EnableSens true sel =>
      match sens_request (variant (tables s)) (values (pmap s)) sel with
      | [] => (s, true)
      | req =>
        ({| admin := admin s; regimen := regimen s; model_v := model_v s; tables := tables s; pmap := pmap s;
            outs := outs s; omap := omap s;
            sim_v := model_v s; sim_protocol := regimen s; sim_sens := Some (outs s, req); has_sens := true |}, false)
      end
    | Copy => (fresh_sim s, false)
    end.

  Definition run (ops : list op) (s : pk) : pk := fold_left (fun st o => fst (step st o)) ops s.

  (* ---------------- what a user can observe ---------------- *)
  Record observation := {
    o_parameters : list string;
    o_n_parameters : nat;
    o_outputs : list string;
    o_regimen : option P;
    o_has_sens : bool;
    (* the simulation request: model integrated, protocol applied, sensitivities computed, and the tables simulate()
       uses to hand the vector over (see Model/Mechanistic.v, simulate_with) *)
    o_sim_model : adm;
    o_sim_protocol : option P;
    o_sim_sens : option (list string * list string);
    o_order : list nat;
    o_consts : list string;
    o_n_states : nat;
    o_logged : list string
  }.
  Definition observe (s : pk) : observation :=
    let m := variant (tables s) in
    {| o_parameters := map (fun n => match slookup n (pmap s) with Some v => v | None => n end) (parameter_names m);
       o_n_parameters := n_parameters m;
       o_outputs := map (fun n => match slookup n (omap s) with Some v => v | None => n end) (outs s);
       o_regimen := regimen s;
       o_has_sens := has_sens s;
       o_sim_model := sim_v s; o_sim_protocol := sim_protocol s; o_sim_sens := sim_sens s;
       o_order := original_order m; o_consts := const_names m; o_n_states := n_states m; o_logged := outs s |}.

  (* ---------------- specification: the configuration ---------------- *)
  Record cfg := {
    c_admin : adm;
    c_regimen : option P;
    c_pnames : list string;            (* displayed parameter names, in published order *)
    c_outs : list string;              (* selected outputs (myokit names) *)
    c_onames : list string;            (* displayed output names *)
    c_sens : option (list string)      (* sensitivity targets, if enabled *)
  }.
  Definition cfg_of (s : pk) : cfg :=
    {| c_admin := admin s; c_regimen := regimen s; c_pnames := values (pmap s); c_outs := outs s;
       c_onames := values (omap s); c_sens := option_map snd (sim_sens s) |}.
  (* the one object state that realises a configuration *)
  Definition conc (c : cfg) : pk :=
    {| admin := c_admin c; regimen := c_regimen c; model_v := c_admin c; tables := c_admin c;
       pmap := combine (parameter_names (variant (c_admin c))) (c_pnames c);
       outs := c_outs c; omap := combine (c_outs c) (c_onames c);
       sim_v := c_admin c; sim_protocol := c_regimen c;
       sim_sens := option_map (fun r => (c_outs c, r)) (c_sens c);
       has_sens := match c_sens c with Some _ => true | None => false end |}.

  Definition Consistent (s : pk) : Prop :=
    model_v s = admin s /\ tables s = admin s /\ sim_v s = admin s /\ sim_protocol s = regimen s /\
    map fst (pmap s) = parameter_names (variant (admin s)) /\ map fst (omap s) = outs s /\
    match sim_sens s with
    | Some (o, _) => o = outs s /\ has_sens s = true
    | None => has_sens s = false
    end.
End Config.
Arguments step {P}. Arguments run {P}. Arguments init {P}. Arguments observe {P}. Arguments cfg_of {P}.
Arguments conc {P}. Arguments Consistent {P}. Arguments fresh_sim {P}. Arguments disable_sens {P}.
Arguments admin {P}. Arguments regimen {P}. Arguments model_v {P}. Arguments tables {P}. Arguments pmap {P}.
Arguments outs {P}. Arguments omap {P}. Arguments sim_v {P}. Arguments sim_protocol {P}. Arguments sim_sens {P}.
Arguments has_sens {P}.
