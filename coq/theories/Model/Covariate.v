(* Model of the index bookkeeping of chi's covariate models (definitions only).
   source                                                       model
   -----------------------------------------------------------  ------------------------------
   LinearCovariateModel.set_population_parameters:               norm_sel
     de-duplicate, sort by dimension, then (stably) by parameter
   flat parameter vector of CovariatePopulationModel:            beta_pos, beta_of_pos
     [population parameters | beta (selected pair k major, covariate c minor)]
   The real-valued part (vartheta = theta + sum_c beta_c chi_c) is Model/PopModels.v `cov_shift`.
   A pair (p, d) with d < D is encoded as the key p*D + d, so that the lexicographic (parameter, dimension)
   order is the order of the keys. *)
From Coq Require Import ZArith List Bool Arith.
From Chi Require Import Model.TimeGrid.
Import ListNotations.

Definition enc (D : nat) (pd : nat * nat) : Z := Z.of_nat (fst pd * D + snd pd).
Definition dec (D : nat) (k : Z) : nat * nat := (Z.to_nat k / D, Z.to_nat k mod D)%nat.
(* the normalised selection: duplicates removed, parameter-major then dimension *)
Definition norm_sel (D : nat) (sel : list (nat * nat)) : list (nat * nat) :=
  map (dec D) (fold_right insert_uniq [] (map (enc D) sel)).
Definition n_beta (D n_cov : nat) (sel : list (nat * nat)) : nat := (length (norm_sel D sel) * n_cov)%nat.
(* position of the coefficient of the k-th selected pair and c-th covariate in the flat vector *)
Definition beta_pos (n_pop n_cov k c : nat) : nat := (n_pop + k * n_cov + c)%nat.
Definition beta_of_pos (n_pop n_cov pos : nat) : nat * nat := (((pos - n_pop) / n_cov), ((pos - n_pop) mod n_cov))%nat.
