(* Model of the tables and parameter routing of chi's predictive models (chi/_predictive_models.py), C15.
   Definitions only.  T: times, V: values. *)
From Coq Require Import List Bool String Arith.
Import ListNotations.

Section Predictive.
  Variables T V : Type.
  Variable t0 : T.
  Variable v0 : V.

  Definition row := (nat * T * string * V)%type.          (* sample ID, time, observable, value *)

  (* PredictiveModel.sample / PopulationPredictiveModel.sample: values[o][t][s] for output o, (sorted) time index t
     and sample s, tabulated output by output, time by time, sample by sample; IDs start at 1 *)
  Definition table_ots (names : list string) (times : list T) (n_samples : nat) (value : nat -> nat -> nat -> V)
    : list row :=
    flat_map (fun o =>
      flat_map (fun t =>
        map (fun s => (S s, nth t times t0, nth o names EmptyString, value o t s)) (seq 0 n_samples))
        (seq 0 (List.length times)))
      (seq 0 (List.length names)).

  (* PriorPredictiveModel.sample / PosteriorPredictiveModel.sample: one parameter set per sample ID; for each sample,
     output by output, time by time *)
  Definition table_sot (names : list string) (times : list T) (n_samples : nat) (value : nat -> nat -> nat -> V)
    : list row :=
    flat_map (fun s =>
      flat_map (fun o =>
        map (fun t => (S s, nth t times t0, nth o names EmptyString, value o t s)) (seq 0 (List.length times)))
        (seq 0 (List.length names)))
      (seq 0 n_samples).

  (* PAMPredictiveModel.sample: the tables of the models that drew at least one sample, concatenated, the IDs of model
     m shifted by the number of samples of the models before it *)
  Definition shift_ids (k : nat) (rows : list row) : list row :=
    map (fun r => match r with (i, t, o, v) => (i + k, t, o, v) end) rows.
  Fixpoint pam_tables (tables : list (nat * list row)) (before : nat) : list row :=
    match tables with
    | [] => []
    | (n, rows) :: rest => (if Nat.eqb n 0 then [] else shift_ids before rows) ++ pam_tables rest (before + n)
    end.

  (* PopulationPredictiveModel: the parameter vector of patient p is the population model's own transform of the
     p-th population draw; the measurements of patient p are one predictive sample at that vector *)
  Definition patients {E P} (indiv : E -> P) (draws : list E) : list P := map indiv draws.

  (* PosteriorPredictiveModel: the pool of parameter sets is one row per (chain, draw): entry p of row (c, d) is the
     value of parameter p at (c, d) — for the selected individual if the variable has an individual dimension *)
  Definition posterior_rows (n_chains n_draws : nat) (params : list (nat -> nat -> V)) : list (list V) :=
    flat_map (fun c => map (fun d => map (fun f => f c d) params) (seq 0 n_draws)) (seq 0 n_chains).
End Predictive.

(* ---------------- parameter names of a posterior predictive model; sample counts of an averaged model ---------------- *)
(* PosteriorPredictiveModel._check_parameters: every model parameter name is looked up in param_map once *)
Definition lookup_map (m : list (string * string)) (n : string) : string :=
  match find (fun kv => String.eqb (fst kv) n) m with Some kv => snd kv | None => n end.
Definition translate (m : list (string * string)) (names : list string) : list string := map (lookup_map m) names.

(* a variant that walks through the dictionary and replaces in place (names already replaced are replaced again) *)
Fixpoint replace_first (a b : string) (l : list string) : list string :=
  match l with
  | [] => []
  | x :: r => if String.eqb x a then b :: r else x :: replace_first a b r
  end.
Definition translate_chained (m : list (string * string)) (names : list string) : list string :=
  fold_left (fun acc kv => replace_first (fst kv) (snd kv) acc) m names.


(* ---------------- PAM: numbers of samples per model ---------------- *)
Definition counts (k : nat) (draws : list nat) : list nat := map (fun m => count_occ Nat.eq_dec draws m) (seq 0 k).
(* model of every sample ID (1-based position), given the counts *)
Definition id_models (cs : list nat) : list nat := flat_map (fun m => repeat m (nth m cs 0)) (seq 0 (List.length cs)).
(* numpy.unique(..., return_counts=True)[1]: only of the values that occur, in increasing order *)
Definition counts_unique (k : nat) (draws : list nat) : list nat := filter (fun c => negb (Nat.eqb c 0)) (counts k draws).

