(* Model of chi/_population_filters.py (definitions only).
   A *cell* is one (observable, time point): `xs` = the simulated measurements of that cell (one per simulated
   individual, n_s >= 2), `ys` = the non-missing measured values of that cell.  A filter's log-likelihood is
   the sum of its cell scores over all cells; the sensitivity w.r.t. the simulated measurement x of a cell is
   the cell gradient (other cells do not depend on x).

   source                                         model
   ---------------------------------------------  --------------------------------------------
   np.mean / np.var(ddof=1) over axis 0           mean, var
   GaussianFilter._compute_log_likelihood         GF_cell ;  compute_sensitivities -> GF_grad
   LogNormalFilter (after the fix: + 2 log y)     LNF_cell, LNF_grad
   GaussianKDEFilter  ((4/3/n)**0.4 * var)        bw2, GKDE_cell, GKDE_grad
   LogNormalKDEFilter (after the fix: - log y)    LNKDE_cell, LNKDE_grad
   GaussianMixtureFilter (consecutive blocks)     blocks, GMIX_cell, GMIX_grad
   logsumexp (max shift) / softmax                lse (unshifted; Proofs/Filters.v: the shift cancels), smax
   ComposedPopulationFilter / sort_times          handled at the level of cells: sim time j meets data column
                                                  order[j] (harness/c12.py builds the cells that way). *)
From Coq Require Import Reals List.
From Chi Require Import Base.RSum.
Import ListNotations.
Open Scope R_scope.

Definition nR {A} (l : list A) : R := INR (length l).
Definition mean (xs : list R) : R := Rsum xs / nR xs.
Definition var (xs : list R) : R := Rsum (map (fun x => (x - mean xs)^2) xs) / (nR xs - 1).
Definition ln2PI : R := ln (2 * PI).

(* ---------------- Gaussian filter ---------------- *)
Definition GF_cell (xs ys : list R) : R :=
  - Rsum (map (fun y => ln2PI + ln (var xs) + (y - mean xs)^2 / var xs) ys) / 2.
Definition GF_grad (xs ys : list R) (x : R) : R :=
  Rsum (map (fun y => (y - mean xs) / var xs) ys) / nR xs
  + Rsum (map (fun y => - / var xs + (y - mean xs)^2 / (var xs)^2) ys) * (x - mean xs) / (nR xs - 1).

(* ---------------- log-normal filter (statistics of the log simulated values) ---------------- *)
Definition LNF_cell (xs ys : list R) : R :=
  let lx := map ln xs in
  - Rsum (map (fun y => ln2PI + ln (var lx) + 2 * ln y + (ln y - mean lx)^2 / var lx) ys) / 2.
Definition LNF_grad (xs ys : list R) (x : R) : R :=
  let lx := map ln xs in
  (Rsum (map (fun y => (ln y - mean lx) / var lx) ys) / nR xs
   + Rsum (map (fun y => (ln y - mean lx)^2 / (var lx)^2 - / var lx) ys) / (nR xs - 1)
     * ((ln x - mean lx) - mean (map (fun l => l - mean lx) lx))) / x.

(* ---------------- kernel density filters ---------------- *)
Definition lse (l : list R) : R := ln (Rsum (map exp l)).
Definition smax (l : list R) (a : R) : R := exp (a - lse l).
(* rule-of-thumb bandwidth squared: (4/(3 n))^(2/5) * var *)
Definition bwf (n : R) : R := exp (2 / 5 * ln (4 / 3 / n)).
Definition bw2 (xs : list R) : R := bwf (nR xs) * var xs.
Definition kde_scores (zs : list R) (b2 y : R) : list R := map (fun z => - (z - y)^2 / b2 / 2) zs.
Definition GKDE_cell (xs ys : list R) : R :=
  Rsum (map (fun y => lse (kde_scores xs (bw2 xs) y) - ln (nR xs) - ln2PI / 2 - ln (bw2 xs) / 2) ys).
Definition LNKDE_cell (xs ys : list R) : R :=
  let lx := map ln xs in
  Rsum (map (fun y => lse (kde_scores lx (bw2 lx) (ln y)) - ln (nR xs) - ln2PI / 2 - ln (bw2 lx) / 2 - ln y) ys).
(* gradient w.r.t. the simulated value z (in the Gaussian KDE z = x; in the log-normal one z = ln x and the
   result is divided by x) *)
Definition KDE_grad_z (zs ys : list R) (z : R) : R :=
  let b2 := bw2 zs in
  let dbw := 2 * (z - mean zs) / (nR zs - 1) / var zs in
  Rsum (map (fun y =>
               smax (kde_scores zs b2 y) (- (z - y)^2 / b2 / 2) * (y - z) / b2
               - Rsum (map (fun a => smax (kde_scores zs b2 y) a * a) (kde_scores zs b2 y)) * dbw
               - dbw / 2) ys).
Definition GKDE_grad (xs ys : list R) (x : R) : R := KDE_grad_z xs ys x.
Definition LNKDE_grad (xs ys : list R) (x : R) : R :=
  KDE_grad_z (map ln xs) (map ln ys) (ln x) / x.

(* ---------------- Gaussian mixture over consecutive blocks of simulated individuals ---------------- *)
Fixpoint blocks (k : nat) (m : nat) (xs : list R) : list (list R) :=   (* k blocks of m *)
  match k with O => [] | S k' => firstn m xs :: blocks k' m (skipn m xs) end.
Definition mix_score (b : list R) (y : R) : R := - (mean b - y)^2 / var b / 2 - ln (var b) / 2.
Definition GMIX_cell (k m : nat) (xs ys : list R) : R :=
  Rsum (map (fun y => lse (map (fun b => mix_score b y) (blocks k m xs)) - ln (INR k) - ln2PI / 2) ys).
(* gradient w.r.t. a simulated value x that belongs to block b *)
Definition GMIX_grad (k m : nat) (xs ys : list R) (b : list R) (x : R) : R :=
  Rsum (map (fun y =>
               smax (map (fun c => mix_score c y) (blocks k m xs)) (mix_score b y)
               * ((y - mean b) / var b / INR m
                  + (- / var b + (y - mean b)^2 / (var b)^2) * (x - mean b) / (INR m - 1))) ys).

(* documented densities *)
Definition normal_pdf_v (v m y : R) : R := / sqrt (2 * PI * v) * exp (- (y - m)^2 / (2 * v)).
Definition lognormal_pdf_v (v m y : R) : R := / (y * sqrt (2 * PI * v)) * exp (- (ln y - m)^2 / (2 * v)).
