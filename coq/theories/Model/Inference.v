(* Model of the inference I/O of chi (chi/_inference.py, chi/_log_pdfs.py sample_initial_parameters): how positions
   of the flat parameter vector are labelled, stored in the posterior dataset, tabulated and read back.
   Definitions only.  V is the type of values; a chain is treated draw by draw (one vector per (chain, draw)). *)
From Coq Require Import List Bool String Arith.
From Chi Require Import Model.Mechanistic.
Import ListNotations.

(* the flat vector of a hierarchical posterior: for each individual its bottom-level block, then the top level
   (C17 proves this layout for every population composition) *)
Definition layout_names (block top : list string) (n : nat) : list string := List.concat (repeat block n) ++ top.
Definition layout_ids (ids : list string) (nb ntop : nat) : list (option string) :=
  flat_map (fun i => repeat (Some i) nb) ids ++ repeat None ntop.

Section Inference.
  Variable V : Type.
  Variable d : V.

  (* ---- SamplingController._format_chains ---- *)
  (* names == parameter *)
  Definition positions (names : list string) (p : string) : list nat :=
    filter (fun k => String.eqb (nth k names EmptyString) p) (seq 0 (List.length names)).
  Definition column (v : list V) (pos : list nat) : list V := map (fun k => nth k v d) pos.
  (* bottom-level parameter names in order of first appearance *)
  Fixpoint first_appearances (seen l : list string) : list string :=
    match l with
    | [] => []
    | x :: t => if mem x seen then first_appearances seen t else x :: first_appearances (x :: seen) t
    end.
  Definition bottom_names (names top : list string) : list string :=
    first_appearances [] (filter (fun p => negb (mem p top)) names).
  (* one data variable per parameter: a scalar for a top-level parameter, one value per individual otherwise *)
  Inductive entry := Scalar (x : V) | PerIndividual (xs : list V).
  Fixpoint top_entries (names top : list string) (v : list V) (k : nat) : list (string * entry) :=
    match names with
    | [] => []
    | p :: t => if mem p top then (p, Scalar (nth k v d)) :: top_entries t top v (S k) else top_entries t top v (S k)
    end.
  Definition format_draw (names top : list string) (v : list V) : list (string * entry) :=
    top_entries names top v 0 ++ map (fun p => (p, PerIndividual (column v (positions names p)))) (bottom_names names top).
  (* dict semantics of the container: a later assignment to the same key wins *)
  Fixpoint lookup (p : string) (ds : list (string * entry)) : option entry :=
    match ds with
    | [] => None
    | (q, e) :: t => match lookup p t with Some e' => Some e' | None => if String.eqb p q then Some e else None end
    end.

  (* ---- reading the dataset back for one individual (compute_pointwise_loglikelihood with an individual
     log-likelihood, PosteriorPredictiveModel.sample): ds[name].sel(individual=id) for per-individual variables,
     ds[name] otherwise ---- *)
  Definition read_value (ds : list (string * entry)) (k : nat) (p : string) : option V :=
    match lookup p ds with
    | Some (Scalar x) => Some x
    | Some (PerIndividual xs) => nth_error xs k
    | None => None
    end.
  Definition read_back (ds : list (string * entry)) (k : nat) (params : list string) : list (option V) :=
    map (read_value ds k) params.

  (* ---- HierarchicalLogPosterior.sample_initial_parameters: population draws (one row per individual, one column
     per model dimension) with the special dimensions removed, flattened, followed by the prior draw ---- *)
  Fixpoint select (keep : list bool) (row : list V) : list V :=
    match keep, row with
    | b :: ks, x :: xs => if b then x :: select ks xs else select ks xs
    | _, _ => []
    end.
  Definition init_vector (keep : list bool) (pop_sample : list (list V)) (prior_sample : list V) : list V :=
    flat_map (select keep) pop_sample ++ prior_sample.

  (* ---- OptimisationController.run: one table row per vector position ---- *)
  Definition table_rows {S R} (ids : list (option string)) (names : list string) (est : list V) (score : S) (run : R)
    : list (option string * string * V * S * R) :=
    map (fun t => (fst (fst t), snd (fst t), snd t, score, run)) (combine (combine ids names) est).
End Inference.
Arguments Scalar {V}. Arguments PerIndividual {V}.
