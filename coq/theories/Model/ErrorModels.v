(* Models of chi/_error_models.py (definitions only; proofs are in Proofs/ErrorModels.v).

   source                                                       model
   ------------------------------------------------------------ -----------------------------
   GaussianErrorModel._compute_log_likelihood                    G_total, G_ll (guard)
   GaussianErrorModel._compute_pointwise_ll                      G_pw, G_pointwise
   GaussianErrorModel._compute_sensitivities                     G_dpsi, G_dsigma, G_S1
   MultiplicativeGaussianErrorModel.*                            MG_*
   ConstantAndMultiplicativeGaussianErrorModel.*                 CMG_*
   LogNormalErrorModel.*                                         LN_*
   documented densities (class docstrings)                       normal_pdf, lognormal_pdf
   ErrorModel.sample transforms (C06)                            G_sample, MG_sample, CMG_sample_doc, LN_sample

   Conventions: `ms` are the model outputs, `ys` the observations (same length; chi raises ValueError
   otherwise, see `len_ok`), `col` one column of the output-sensitivity matrix (the derivative of every
   model output with respect to ONE mechanistic parameter).  The gradient chi returns is
   [dpsi col_1; ...; dpsi col_p] ++ error-parameter entries.  Scores are `score` (Fin r | NegInf). *)
From Coq Require Import Reals List.
From Chi Require Import Base.RSum Base.Score.
Import ListNotations.
Open Scope R_scope.

Definition len_ok (ms ys : list R) : bool := Nat.eqb (length ms) (length ys).

Definition ln2pi : R := ln (2 * PI).

(* ---------------- documented densities ---------------- *)
Definition normal_pdf (st m y : R) : R :=
  / (sqrt (2 * PI) * st) * exp (- (y - m)^2 / (2 * st^2)).
(* log-normal with log-scale parameters (mu, s) *)
Definition lognormal_pdf (s mu y : R) : R :=
  / (sqrt (2 * PI) * s * y) * exp (- (ln y - mu)^2 / (2 * s^2)).

(* ---------------- Gaussian ---------------- *)
Definition G_pw (s m y : R) : R := - (ln2pi / 2 + ln s) - (m - y)^2 / s^2 / 2.
Definition G_total (s : R) (ms ys : list R) : R :=
  - INR (length ms) * (ln2pi / 2 + ln s)
  - Rsum (map (fun p => (fst p - snd p)^2) (combine ms ys)) / s^2 / 2.
Definition G_ll (s : R) (ms ys : list R) : score :=
  if Rle_dec s 0 then NegInf else Fin (G_total s ms ys).
Definition G_pointwise (s : R) (ms ys : list R) : list score :=
  if Rle_dec s 0 then map (fun _ => NegInf) ms
  else map (fun p => Fin (G_pw s (fst p) (snd p))) (combine ms ys).
Definition G_dpsi (s : R) (ms ys col : list R) : R :=
  Rsum (map (fun q => (snd (fst q) - fst (fst q)) * snd q) (combine (combine ms ys) col)) / s^2.
Definition G_dsigma (s : R) (ms ys : list R) : R :=
  Rsum (map (fun p => (snd p - fst p)^2) (combine ms ys)) / s^3 - INR (length ms) / s.
(* score and gradient as returned together *)
Definition G_S1 (s : R) (ms ys : list R) (cols : list (list R)) : score * list R :=
  if Rle_dec s 0 then (NegInf, [])
  else (Fin (G_total s ms ys), map (G_dpsi s ms ys) cols ++ [G_dsigma s ms ys]).

(* ---------------- Multiplicative Gaussian: sigma_tot = sr * m ---------------- *)
Definition MG_pw (sr m y : R) : R := - ln2pi / 2 - ln (sr * m) - (m - y)^2 / (sr * m)^2 / 2.
Definition MG_total (sr : R) (ms ys : list R) : R :=
  - INR (length ms) * ln2pi / 2
  - Rsum (map (fun m => ln (sr * m)) ms)
  - Rsum (map (fun p => (fst p - snd p)^2 / (sr * fst p)^2) (combine ms ys)) / 2.
Definition MG_ll (sr : R) (ms ys : list R) : score :=
  if Rle_dec sr 0 then NegInf else Fin (MG_total sr ms ys).
Definition MG_pointwise (sr : R) (ms ys : list R) : list score :=
  if Rle_dec sr 0 then map (fun _ => NegInf) ms
  else map (fun p => Fin (MG_pw sr (fst p) (snd p))) (combine ms ys).
(* per observation term of dpsi, with (m, y, S) *)
Definition MG_dpsi_term (sr m y S : R) : R :=
  (y - m) / (sr * m)^2 * S - sr * (S / (sr * m)) + sr * ((y - m)^2 / (sr * m)^3 * S).
Definition MG_dpsi (sr : R) (ms ys col : list R) : R :=
  Rsum (map (fun q => MG_dpsi_term sr (fst (fst q)) (snd (fst q)) (snd q)) (combine (combine ms ys) col)).
Definition MG_dsigma_term (sr m y : R) : R := (y - m)^2 / (sr * m)^3 * m - m / (sr * m).
Definition MG_dsigma (sr : R) (ms ys : list R) : R :=
  Rsum (map (fun p => MG_dsigma_term sr (fst p) (snd p)) (combine ms ys)).
Definition MG_S1 (sr : R) (ms ys : list R) (cols : list (list R)) : score * list R :=
  if Rle_dec sr 0 then (NegInf, [])
  else (Fin (MG_total sr ms ys), map (MG_dpsi sr ms ys) cols ++ [MG_dsigma sr ms ys]).

(* ---------------- Constant + multiplicative Gaussian: sigma_tot = sb + sr * m ---------------- *)
Definition CMG_pw (sb sr m y : R) : R :=
  - ln2pi / 2 - ln (sb + sr * m) - (m - y)^2 / (sb + sr * m)^2 / 2.
Definition CMG_total (sb sr : R) (ms ys : list R) : R :=
  - INR (length ms) * ln2pi / 2
  - Rsum (map (fun m => ln (sb + sr * m)) ms)
  - Rsum (map (fun p => (fst p - snd p)^2 / (sb + sr * fst p)^2) (combine ms ys)) / 2.
Definition CMG_guard (sb sr : R) : bool :=
  if Rle_dec sb 0 then true else if Rle_dec sr 0 then true else false.
Definition CMG_ll (sb sr : R) (ms ys : list R) : score :=
  if CMG_guard sb sr then NegInf else Fin (CMG_total sb sr ms ys).
Definition CMG_pointwise (sb sr : R) (ms ys : list R) : list score :=
  if CMG_guard sb sr then map (fun _ => NegInf) ms
  else map (fun p => Fin (CMG_pw sb sr (fst p) (snd p))) (combine ms ys).
Definition CMG_dpsi_term (sb sr m y S : R) : R :=
  (y - m) / (sb + sr * m)^2 * S - sr * (S / (sb + sr * m)) + sr * ((y - m)^2 / (sb + sr * m)^3 * S).
Definition CMG_dpsi (sb sr : R) (ms ys col : list R) : R :=
  Rsum (map (fun q => CMG_dpsi_term sb sr (fst (fst q)) (snd (fst q)) (snd q))
            (combine (combine ms ys) col)).
Definition CMG_dsb_term (sb sr m y : R) : R := (y - m)^2 / (sb + sr * m)^3 - / (sb + sr * m).
Definition CMG_dsr_term (sb sr m y : R) : R :=
  (y - m)^2 / (sb + sr * m)^3 * m - m / (sb + sr * m).
Definition CMG_dsb (sb sr : R) (ms ys : list R) : R :=
  Rsum (map (fun p => CMG_dsb_term sb sr (fst p) (snd p)) (combine ms ys)).
Definition CMG_dsr (sb sr : R) (ms ys : list R) : R :=
  Rsum (map (fun p => CMG_dsr_term sb sr (fst p) (snd p)) (combine ms ys)).
Definition CMG_S1 (sb sr : R) (ms ys : list R) (cols : list (list R)) : score * list R :=
  if CMG_guard sb sr then (NegInf, [])
  else (Fin (CMG_total sb sr ms ys),
        map (CMG_dpsi sb sr ms ys) cols ++ [CMG_dsb sb sr ms ys; CMG_dsr sb sr ms ys]).

(* ---------------- Log-normal with mean m: log y ~ N(ln m - s^2/2, s^2) ---------------- *)
Definition LN_pw (s m y : R) : R :=
  - (ln2pi / 2 + ln s) - ln y - (ln m - s^2 / 2 - ln y)^2 / s^2 / 2.
Definition LN_total (s : R) (ms ys : list R) : R :=
  - INR (length ms) * (ln2pi / 2 + ln s)
  - Rsum (map ln ys)
  - Rsum (map (fun p => (ln (fst p) - s^2 / 2 - ln (snd p))^2) (combine ms ys)) / s^2 / 2.
(* guard: s <= 0 or some model output <= 0 *)
Fixpoint any_nonpos (ms : list R) : bool :=
  match ms with [] => false | m :: t => if Rle_dec m 0 then true else any_nonpos t end.
Definition LN_guard (s : R) (ms : list R) : bool :=
  if Rle_dec s 0 then true else any_nonpos ms.
Definition LN_ll (s : R) (ms ys : list R) : score :=
  if LN_guard s ms then NegInf else Fin (LN_total s ms ys).
Definition LN_pointwise (s : R) (ms ys : list R) : list score :=
  if LN_guard s ms then map (fun _ => NegInf) ms
  else map (fun p => Fin (LN_pw s (fst p) (snd p))) (combine ms ys).
Definition LN_err (s m y : R) : R := ln y - ln m + s^2 / 2.
Definition LN_dpsi (s : R) (ms ys col : list R) : R :=
  Rsum (map (fun q => LN_err s (fst (fst q)) (snd (fst q)) / fst (fst q) * snd q)
            (combine (combine ms ys) col)) / s^2.
Definition LN_dsigma (s : R) (ms ys : list R) : R :=
  - Rsum (map (fun p => LN_err s (fst p) (snd p)) (combine ms ys)) / s
  + Rsum (map (fun p => (LN_err s (fst p) (snd p))^2) (combine ms ys)) / s^3
  - INR (length ms) / s.
Definition LN_S1 (s : R) (ms ys : list R) (cols : list (list R)) : score * list R :=
  if LN_guard s ms then (NegInf, [])
  else (Fin (LN_total s ms ys), map (LN_dpsi s ms ys) cols ++ [LN_dsigma s ms ys]).

(* ---------------- sampling transforms (C06): sample = T(model output, parameters, standard normal z) ---- *)
Definition G_sample (s m z : R) : R := m + s * z.
Definition MG_sample (sr m z : R) : R := m + (sr * m) * z.
(* the documented transform of the constant+multiplicative model: ONE variate *)
Definition CMG_sample_doc (sb sr m z : R) : R := m + (sb + sr * m) * z.
(* what chi's sampler computes: TWO independent variates *)
Definition CMG_sample_code (sb sr m z1 z2 : R) : R := m + sb * z1 + m * (sr * z2).
Definition LN_sample (s m z : R) : R := m * exp (- s^2 / 2 + s * z).
