(* Model of chi.LogLikelihood (chi/_log_pdfs.py): construction checks, the union time grid, the position
   index of every measurement (np.searchsorted on the union grid), slicing of the error parameters, and
   the per-output calls made to the error models.  Definitions only.

   source                                                   model
   -------------------------------------------------------- ------------------------------------
   LogLikelihood.__init__ (count/sign/order/shape checks)   constructs
   _arange_times_for_mechanistic_model: sorted(set(..))     union  (fold of insert_uniq)
   np.searchsorted(unique_times, output_times)              index_of
   outputs[output_id, self._obs_masks[output_id]]           paired
   parameters[start:end] loop (start = end)                 slices
   __call__ / compute_pointwise_ll / evaluateS1 loops       calls, ll, pointwise
   n_observations                                           n_obs

   Times are integers: the harness scales the dyadic times of a case by their common denominator, which
   preserves order and equality. *)
From Coq Require Import ZArith List Bool Arith.
Import ListNotations.
Open Scope Z_scope.

Fixpoint insert_uniq (x : Z) (l : list Z) : list Z :=
  match l with
  | [] => [x]
  | y :: t => if x <? y then x :: l else if x =? y then l else y :: insert_uniq x t
  end.
Definition union (ts : list (list Z)) : list Z := fold_right insert_uniq [] (concat ts).

(* np.searchsorted(u, t) (side='left'): number of entries smaller than t *)
Fixpoint index_of (u : list Z) (t : Z) : nat :=
  match u with [] => O | x :: r => if x <? t then S (index_of r t) else O end.

Fixpoint nondecr (l : list Z) : bool :=
  match l with a :: (b :: _) as r => (a <=? b) && nondecr r | _ => true end.
Definition times_ok (ts : list (list Z)) : bool :=
  forallb (fun l => forallb (fun t => 0 <=? t) l && nondecr l) ts.
Fixpoint shapes_ok {A} (ts : list (list Z)) (obs : list (list A)) : bool :=
  match ts, obs with
  | [], [] => true
  | t :: ts', o :: obs' => Nat.eqb (length t) (length o) && shapes_ok ts' obs'
  | _, _ => false
  end.
(* does the constructor accept (n_out outputs, n_em error models, these grids and observations)?
   every rejection is a ValueError *)
Definition constructs {A} (n_out n_em : nat) (ts : list (list Z)) (obs : list (list A)) : bool :=
  Nat.eqb n_em n_out && Nat.eqb (length obs) n_out && Nat.eqb (length ts) n_out && times_ok ts
  && shapes_ok ts obs.

Fixpoint slices {A} (counts : list nat) (th : list A) : list (list A) :=
  match counts with [] => [] | c :: r => firstn c th :: slices r (skipn c th) end.

Definition n_obs {A} (obs : list (list A)) : list nat := map (@length A) obs.

Section Eval.
  Context {V : Type}.
  Variable dflt : V.
  Variable pred : nat -> Z -> V.      (* output o of the mechanistic model at time t *)

  (* row o of the simulated output array on the union grid *)
  Definition sim (u : list Z) (o : nat) : list V := map (pred o) u.
  (* the predictions handed to the error model of output o *)
  Definition paired (ts : list (list Z)) (o : nat) : list V :=
    let u := union ts in map (fun t => nth (index_of u t) (sim u o) dflt) (nth o ts []).
  (* the specification: each measurement is paired with the prediction for its own output and time *)
  Definition paired_spec (ts : list (list Z)) (o : nat) : list V := map (pred o) (nth o ts []).
End Eval.

(* one call to an error model: (its parameter slice, the predictions, the observations) *)
Definition call (P V : Type) : Type := (list P * list V * list V)%type.

Definition calls {P V} (dflt : V) (pred : nat -> Z -> V) (n_mech : nat) (counts : list nat)
           (ts : list (list Z)) (obs : list (list V)) (th : list P) : list (call P V) :=
  combine (combine (slices counts (skipn n_mech th))
                   (map (paired dflt pred ts) (seq 0 (length ts)))) obs.
Definition calls_spec {P V} (pred : nat -> Z -> V) (n_mech : nat) (counts : list nat)
           (ts : list (list Z)) (obs : list (list V)) (th : list P) : list (call P V) :=
  combine (combine (slices counts (skipn n_mech th))
                   (map (paired_spec pred ts) (seq 0 (length ts)))) obs.
