(* Model of the data routing of chi.ProblemModellingController (chi/_problems.py): which rows of a long-format
   dataset reach which individual's likelihood, dosing regimen and covariates.  Definitions only.

   A row carries the ID (after chi's conversion to strings) and optional time, observable, value, dose and duration
   (None = missing / NaN).  Numbers are rationals. *)
From Coq Require Import List Bool String QArith.
Import ListNotations.

Record row := {
  r_id : string; r_time : option Q; r_obs : option string; r_value : option Q;
  r_dose : option Q; r_dur : option Q }.

Definition has_id (i : string) (r : row) : bool := String.eqb (r_id r) i.
Definition has_obs (o : string) (r : row) : bool :=
  match r_obs r with Some o' => String.eqb o' o | None => false end.

(* pandas unique(): values in order of first appearance *)
Fixpoint uniq (seen l : list string) : list string :=
  match l with
  | [] => []
  | x :: t => if existsb (String.eqb x) seen then uniq seen t else x :: uniq (x :: seen) t
  end.
Definition ids (d : list row) : list string := uniq [] (map r_id d).

(* _create_log_likelihood: (time, value) pairs of one individual and one observable, in row order *)
Definition measurement (r : row) : option (Q * Q) :=
  match r_time r, r_value r with Some t, Some v => Some (t, v) | _, _ => None end.
Fixpoint keep {A B} (f : A -> option B) (l : list A) : list B :=
  match l with
  | [] => []
  | x :: t => match f x with Some y => y :: keep f t | None => keep f t end
  end.
Definition measurements (d : list row) (i o : string) : list (Q * Q) :=
  keep measurement (filter (has_obs o) (filter (has_id i) d)).

(* _extract_dosing_regimens: one event (dose rate, start, duration) per dose row of the individual; a missing
   duration means a bolus of 0.01 time units *)
Definition default_duration : Q := 1 # 100.
Definition dose_event (r : row) : option (Q * Q * Q) :=
  match r_dose r, r_time r with
  | Some a, Some t =>
    let du := match r_dur r with Some x => x | None => default_duration end in
    Some (a / du, t, du)
  | _, _ => None
  end.
Definition regimen (d : list row) (i : string) : list (Q * Q * Q) := keep dose_event (filter (has_id i) d).

(* _extract_covariates: the non-missing values of the mapped observable for the individual (exactly one is
   required by _check_covariate_values) *)
Definition covariate_values (d : list row) (i c : string) : list Q :=
  keep r_value (filter (has_obs c) (filter (has_id i) d)).

(* everything the posterior is built from: per individual, in ID order, the measurements of each mapped
   observable (in output order), the regimen, the covariates (in covariate order) *)
Definition routed (d : list row) (observables covariates : list string)
  : list (string * list (list (Q * Q)) * list (Q * Q * Q) * list (list Q)) :=
  map (fun i => (i, map (measurements d i) observables, regimen d i, map (covariate_values d i) covariates)) (ids d).

(* ---------------- row labels ----------------
   A pandas frame carries a label per row (its index); labels need not be unique (frames glued together with
   pd.concat repeat them).  chi selects rows with boolean masks, which ignore the labels.  `loc` is the label-based
   selection (frame.loc[labels]): for every requested label, all rows carrying it. *)
Definition lframe := list (nat * row).
Definition rows_of (f : lframe) : list row := map snd f.
Definition mask_select (p : row -> bool) (f : lframe) : list row := filter p (rows_of f).
Definition labels_where (p : row -> bool) (f : lframe) : list nat :=
  map fst (filter (fun lr => p (snd lr)) f).
Definition loc (f : lframe) (labels : list nat) : list row :=
  flat_map (fun l => map snd (filter (fun lr => Nat.eqb (fst lr) l) f)) labels.
Definition label_select (p : row -> bool) (f : lframe) : list row := loc f (labels_where p f).
