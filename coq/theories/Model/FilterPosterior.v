(* Model of chi.PopulationFilterLogPosterior (chi/_log_pdfs.py), definitions only.
   flat vector = [population parameters | sigma (one per observable, only if free) |
                  bottom values of the non-special dimensions, simulated individual by individual |
                  noise realisations epsilon[s][r][j] in C order (s simulated individual, r observable, j sorted time)]
   source                                           model
   -----------------------------------------------  ---------------------------------------
   __init__: _n_top, _end_bottom, _n_parameters      n_top, end_bottom, n_parameters, eps_pos / eps_of_pos
   get_id                                            fp_ids
   y += sigma * epsilon / y *= exp(sigma * epsilon)  y_add, y_log
   noise score                                       noise_lp
   evaluateS1: epsilon, sigma and psi sensitivities  deps_add, deps_log, dsig_add, dsig_log, dpsi_add, dpsi_log *)
From Coq Require Import Reals List Arith.
From Chi Require Import Base.RSum Model.PopModels.
Import ListNotations.

(* ---------------- discrete layout ---------------- *)
Open Scope nat_scope.
Definition n_top (n_pop n_obs : nat) (free_sigma : bool) : nat := if free_sigma then n_pop + n_obs else n_pop.
Definition end_bottom (n_pop n_obs : nat) (fs : bool) (n_s n_hdim : nat) : nat := n_top n_pop n_obs fs + n_s * n_hdim.
Definition n_parameters (n_pop n_obs : nat) (fs : bool) (n_s n_hdim n_times : nat) : nat :=
  n_top n_pop n_obs fs + n_s * (n_hdim + n_times * n_obs).
Definition eps_pos (endb n_obs n_times s r j : nat) : nat := endb + (s * n_obs + r) * n_times + j.
Definition eps_of_pos (endb n_obs n_times pos : nat) : nat * nat * nat :=
  let k := pos - endb in ((k / n_times) / n_obs, (k / n_times) mod n_obs, k mod n_times).
Definition fp_ids (n_pop n_obs : nat) (fs : bool) (n_s n_hdim n_times : nat) : list (option nat) :=
  repeat None (n_top n_pop n_obs fs)
  ++ flat_map (fun s => repeat (Some s) n_hdim) (seq 0 n_s)
  ++ flat_map (fun s => repeat (Some s) (n_obs * n_times)) (seq 0 n_s).

(* ---------------- noise model ---------------- *)
Close Scope nat_scope.
Open Scope R_scope.
Definition y_add (m sg eps : R) : R := m + sg * eps.
Definition y_log (m sg eps : R) : R := m * exp (sg * eps).
(* chi's noise score for N_eps realisations, with the constant it uses (n_s * n_obs copies of ln(2 pi)/2) *)
Definition noise_lp (n_const : nat) (eps : list R) : R :=
  - INR n_const * ln (2 * PI) / 2 - Rsum (map (fun e => e^2) eps) / 2.
(* sensitivities, g = d filter / d y at the simulated measurement *)
Definition deps_add (sg eps g : R) : R := - eps + g * sg.
Definition deps_log (m sg eps g : R) : R := - eps + g * y_log m sg eps * sg.
Definition dsig_add (eps g : R) : R := g * eps.
Definition dsig_log (m sg eps g : R) : R := g * eps * y_log m sg eps.
Definition dm_add (g : R) : R := g.
Definition dm_log (sg eps g : R) : R := g * exp (sg * eps).
