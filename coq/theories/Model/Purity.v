(* The pieces of hidden state chi's evaluation paths touch (C19), modelled so that "an evaluation leaves the object
   observably unchanged" becomes a statement about them.  Definitions only.

   1. Reduced* wrappers keep a value buffer and write the free parameters into its unfixed slots on every call
      (_fixed_params_values[~mask] = parameters) — Model/Fixing.v's code-level state;
   2. LogLikelihood switches the sensitivities of its mechanistic model on or off at the start of every evaluation;
   3. the solver object keeps time, state and constants from the previous simulation (Model/Mechanistic.v). *)
From Coq Require Import List Bool String Arith.
From Chi Require Import Model.Fixing Model.Mechanistic.
Import ListNotations.

Section Buffers.
  Variable V : Type.
  Fixpoint overwrite (b : list (bool * V)) (free : list V) : list (bool * V) :=
    match b with
    | [] => []
    | (true, v) :: t => (true, v) :: overwrite t free
    | (false, j) :: t =>
      match free with
      | [] => (false, j) :: overwrite t []
      | x :: xs => (false, x) :: overwrite t xs
      end
    end.
  (* one evaluation of a reduced object at `free`: the vector handed to the wrapped object, and the buffer afterwards *)
  Definition ceval (s : cstate V) (free : list V) : option (list V) * cstate V :=
    (cexpand s free, {| cnames := cnames s; cbuf := option_map (fun b => overwrite b free) (cbuf s) |}).
  Definition after_evals (s : cstate V) (history : list (list V)) : cstate V :=
    fold_left (fun st f => snd (ceval st f)) history s.
End Buffers.
Arguments overwrite {V}. Arguments ceval {V}. Arguments after_evals {V}.

(* evaluation entry points of a log-likelihood and the sensitivity switch *)
Inductive eval_op := Value | PointwiseValues | ValueWithSensitivities.
(* chi: __call__ / compute_pointwise_ll: `if has_sensitivities: enable_sensitivities(False)`;
        evaluateS1: `if not has_sensitivities: enable_sensitivities(True)` *)
Definition switch (flag : bool) (o : eval_op) : bool :=
  match o with
  | ValueWithSensitivities => if flag then flag else true
  | _ => if flag then false else flag
  end.
Definition flags_after (flag : bool) (history : list eval_op) : bool := fold_left switch history flag.
