(* Model of chi/plots/_time_series.py (definitions only).
   source                                                         model
   -------------------------------------------------------------  ------------------------------
   *.add_data: observable mask, ids = unique (first appearance),   obs_rows, uniq, ids_of, biom_trace,
     per-ID boolean masks, dose rows = dose.notnull()               dose_trace
   _compute_bulk_probs: unique times, rank(pct=True) (average       times_of, samples_at, rank2, below,
     ranks), max{pct <= 1/2 - p/2}, min{pct >= 1/2 + p/2}           above, lower_limit, upper_limit, band
   _add_prediction_bulk_prob_trace: times ++ reversed(times),       polygon
     upper ++ reversed(lower)
   Numbers are integers (the harness scales dyadic values); a bulk probability is a/b with 0 < a < b. *)
From Coq Require Import ZArith List Bool String.
Import ListNotations.
Open Scope Z_scope.

(* ---------------- prediction bands ---------------- *)
Fixpoint cnt (p : Z -> bool) (l : list Z) : Z :=
  match l with [] => 0 | y :: t => (if p y then 1 else 0) + cnt p t end.
Definition less (l : list Z) (x : Z) := cnt (fun y => y <? x) l.
Definition eqc (l : list Z) (x : Z) := cnt (fun y => y =? x) l.
Definition n_of (l : list Z) := cnt (fun _ => true) l.
(* pandas rank(pct=True), method 'average': pct x = (less x + (eq x + 1)/2) / n; rank2 = 2 n pct *)
Definition rank2 (l : list Z) (x : Z) := 2 * less l x + eqc l x + 1.
(* pct x <= 1/2 - (a/b)/2  <->  b * rank2 x <= n (b - a);   pct x >= 1/2 + (a/b)/2 <-> b * rank2 x >= n (b + a) *)
Definition below (l : list Z) (a b x : Z) : bool := b * rank2 l x <=? n_of l * (b - a).
Definition above (l : list Z) (a b x : Z) : bool := b * rank2 l x >=? n_of l * (b + a).
Fixpoint maxl (l : list Z) : option Z :=
  match l with [] => None | x :: t => match maxl t with None => Some x | Some m => Some (Z.max x m) end end.
Fixpoint minl (l : list Z) : option Z :=
  match l with [] => None | x :: t => match minl t with None => Some x | Some m => Some (Z.min x m) end end.
Definition lower_limit (l : list Z) (a b : Z) : option Z := maxl (filter (below l a b) l).
Definition upper_limit (l : list Z) (a b : Z) : option Z := minl (filter (above l a b) l).
Definition inside (L U : Z) (l : list Z) : Z := cnt (fun y => (L <=? y) && (y <=? U)) l.

(* samples table: (time, value) rows in frame order *)
Fixpoint uniq (l : list Z) : list Z :=
  match l with [] => [] | x :: t => x :: filter (fun y => negb (y =? x)) (uniq t) end.
Definition times_of (rows : list (Z * Z)) : list Z := uniq (map fst rows).
Definition samples_at (rows : list (Z * Z)) (t : Z) : list Z :=
  map snd (filter (fun r => fst r =? t) rows).
(* one band: per unique time (first appearance order) the (lower, upper) limits *)
Definition band (rows : list (Z * Z)) (a b : Z) : list (Z * option Z * option Z) :=
  map (fun t => (t, lower_limit (samples_at rows t) a b, upper_limit (samples_at rows t) a b)) (times_of rows).
(* the filled polygon: x = times ++ rev times, y = uppers ++ rev lowers *)
Definition polygon (rows : list (Z * Z)) (a b : Z) : list Z * list (option Z) :=
  let bd := band rows a b in
  (map (fun r => fst (fst r)) bd ++ rev (map (fun r => fst (fst r)) bd),
   map snd bd ++ rev (map (fun r => snd (fst r)) bd)).

(* ---------------- data traces ---------------- *)
Record row := { rid : string; rtime : Z; robs : option string; rval : option Z;
                rdose : option Z; rdur : option Z }.
Definition obs_is (o : string) (r : row) : bool :=
  match robs r with Some x => String.eqb x o | None => false end.
Fixpoint suniq (l : list string) : list string :=
  match l with [] => [] | x :: t => x :: filter (fun y => negb (String.eqb y x)) (suniq t) end.
Definition ids_of (o : string) (rows : list row) : list string :=
  suniq (map rid (filter (obs_is o) rows)).
(* marker trace of one individual: (time, value) of its rows of the chosen observable, in frame order *)
Definition biom_trace (o : string) (rows : list row) (i : string) : list (Z * option Z) :=
  map (fun r => (rtime r, rval r)) (filter (fun r => obs_is o r && String.eqb (rid r) i) rows).
Definition has_dose (r : row) : bool := match rdose r with Some _ => true | None => false end.
Definition dose_trace (rows : list row) (i : string) : list (Z * option Z * option Z) :=
  map (fun r => (rtime r, rdose r, rdur r)) (filter (fun r => has_dose r && String.eqb (rid r) i) rows).
Definition biom_figure (o : string) (rows : list row) : list (string * list (Z * option Z)) :=
  map (fun i => (i, biom_trace o rows i)) (ids_of o rows).
Definition dose_figure (o : string) (rows : list row) : list (string * list (Z * option Z * option Z)) :=
  map (fun i => (i, dose_trace rows i)) (ids_of o rows).
