(* Model of the flat-vector layout of hierarchical objects (definitions only).
   source                                                          model
   --------------------------------------------------------------  -----------------------------------
   PopulationModel.n_parameters / n_hierarchical_dim / special      sub, special, n_base, n_covp, n_par, n_hdim
   ComposedPopulationModel._set_population_model_properties         N_dim, N_top, N_hdim, special_ranges
   HierarchicalLogLikelihood.n_parameters / get_id / names          N_bottom, N_parameters, ids, names
   ComposedPopulationModel._shape_eta (start/shift loop)            shape   (code level)
   "per individual one entry for every non-special dimension"       gather  (specification level) *)
From Coq Require Import List Arith Bool.
Import ListNotations.

Inductive kind := KGauss | KLogNormal | KTrunc | KPooled | KHetero.
Record sub := { sk : kind; sdim : nat; scov : option (nat * list (nat * nat)) (* n_cov, normalised selection *) }.

Definition special (k : kind) : bool := match k with KPooled | KHetero => true | _ => false end.
Definition n_base (n_ids : nat) (s : sub) : nat :=
  match sk s with KPooled => sdim s | KHetero => n_ids * sdim s | _ => 2 * sdim s end.
Definition n_covp (s : sub) : nat := match scov s with Some (nc, sel) => length sel * nc | None => 0 end.
Definition n_par (n_ids : nat) (s : sub) : nat := n_base n_ids s + n_covp s.
Definition n_hdim (s : sub) : nat := if special (sk s) then 0 else sdim s.

Definition comp := list sub.
Definition sum_of {A} (f : A -> nat) (l : list A) : nat := fold_right (fun a acc => f a + acc) 0 l.
Definition N_dim (c : comp) := sum_of sdim c.
Definition N_top (n_ids : nat) (c : comp) := sum_of (n_par n_ids) c.
Definition N_hdim (c : comp) := sum_of n_hdim c.
Definition N_bottom (n_ids : nat) (c : comp) := n_ids * N_hdim c.
Definition N_parameters (n_ids : nat) (c : comp) := N_bottom n_ids c + N_top n_ids c.
(* the [start, end) ranges of the special (pooled / heterogeneous) dimensions, in order *)
Fixpoint special_ranges (start : nat) (c : comp) : list (nat * nat) :=
  match c with
  | [] => []
  | s :: t => (if special (sk s) then [(start, start + sdim s)] else []) ++ special_ranges (start + sdim s) t
  end.
Definition ids (n_ids : nat) (c : comp) : list (option nat) :=
  flat_map (fun i => repeat (Some i) (N_hdim c)) (seq 0 n_ids) ++ repeat None (N_top n_ids c).

(* names, over an abstract name type built by the given constructors *)
Section Names.
Variable N : Type.
Variables (nm_param : nat -> kind -> nat -> nat -> N)     (* sub index, kind, parameter row, dimension *)
          (nm_cov : nat -> nat -> nat -> nat -> N)         (* sub index, row, dimension, covariate *)
          (nm_dim : nat -> N)                               (* likelihood parameter name of global dimension *)
          (nm_id : nat -> N -> N).                          (* prefix with individual id *)
Definition rows (n_ids : nat) (s : sub) : nat := match sk s with KPooled => 1 | KHetero => n_ids | _ => 2 end.
Definition names_base (n_ids i : nat) (s : sub) : list N :=
  flat_map (fun p => map (fun d => nm_param i (sk s) p d) (seq 0 (sdim s))) (seq 0 (rows n_ids s)).
Definition names_cov (i : nat) (s : sub) : list N :=
  match scov s with
  | Some (nc, sel) => flat_map (fun pd => map (fun c => nm_cov i (fst pd) (snd pd) c) (seq 0 nc)) sel
  | None => []
  end.
Definition names_sub (n_ids i : nat) (s : sub) : list N := names_base n_ids i s ++ names_cov i s.
Fixpoint names_top (n_ids i : nat) (c : comp) : list N :=
  match c with [] => [] | s :: t => names_sub n_ids i s ++ names_top n_ids (S i) t end.
Fixpoint names_bottom1 (start : nat) (c : comp) : list N :=
  match c with
  | [] => []
  | s :: t => (if special (sk s) then [] else map nm_dim (seq start (sdim s))) ++ names_bottom1 (start + sdim s) t
  end.
Definition names (n_ids : nat) (c : comp) : list N :=
  flat_map (fun i => map (nm_id i) (names_bottom1 0 c)) (seq 0 n_ids) ++ names_top n_ids 0 c.
End Names.

(* ---------------- _shape_eta ---------------- *)
Section ShapeEta.
Variable V : Type.
Fixpoint wf (start : nat) (sp : list (nat * nat)) (n_dim : nat) : Prop :=
  match sp with
  | [] => start <= n_dim
  | (s0, s1) :: rest => start <= s0 /\ s0 <= s1 /\ wf s1 rest n_dim
  end.
(* code level: the start/shift loop; None marks the dummy (uninitialised) columns of special dimensions *)
Fixpoint shape (sp : list (nat * nat)) (start shift : nat) (row : list V) : list (option V) :=
  match sp with
  | [] => map Some (skipn (start - shift) row)
  | (s0, s1) :: rest =>
      map Some (firstn (s0 - start) (skipn (start - shift) row))
      ++ repeat None (s1 - s0)
      ++ shape rest s1 (shift + (s1 - s0)) row
  end.
(* specification level *)
Fixpoint special_below (sp : list (nat * nat)) (d : nat) : nat :=
  match sp with
  | [] => 0
  | (s0, s1) :: rest => (if d <? s0 then 0 else if d <? s1 then d - s0 else s1 - s0) + special_below rest d
  end.
Fixpoint is_special (sp : list (nat * nat)) (d : nat) : bool :=
  match sp with
  | [] => false
  | (s0, s1) :: rest => ((s0 <=? d) && (d <? s1)) || is_special rest d
  end.
Definition gather (sp : list (nat * nat)) (row : list V) (d : nat) : option (option V) :=
  if is_special sp d then Some None
  else match nth_error row (d - special_below sp d) with Some v => Some (Some v) | None => None end.
Fixpoint n_special (sp : list (nat * nat)) : nat :=
  match sp with [] => 0 | (s0, s1) :: rest => (s1 - s0) + n_special rest end.
End ShapeEta.
