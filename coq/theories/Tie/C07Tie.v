(* Executable helper for the exact correspondence of C07 (harness/c07.py). *)
From Coq Require Import ZArith List Bool Arith.
From Chi Require Import Model.TimeGrid Model.Covariate.
Import ListNotations.
Fixpoint pairs_eqb (a b : list (nat * nat)) : bool :=
  match a, b with
  | [], [] => true
  | x :: a', y :: b' => Nat.eqb (fst x) (fst y) && Nat.eqb (snd x) (snd y) && pairs_eqb a' b'
  | _, _ => false
  end.
Definition c07_case (D n_cov : nat) (sel expected : list (nat * nat)) (n_par_cov : nat) : bool :=
  pairs_eqb (norm_sel D sel) expected && Nat.eqb (n_beta D n_cov sel) n_par_cov.
