(* Executable helpers for the exact correspondence of C20 (harness/c20.py). *)
From Coq Require Import ZArith List Bool String.
From Chi Require Import Model.Plots.
Import ListNotations.
Open Scope Z_scope.

Definition oZ_eqb (a b : option Z) : bool :=
  match a, b with Some x, Some y => x =? y | None, None => true | _, _ => false end.
Fixpoint list_eqb {A} (e : A -> A -> bool) (a b : list A) : bool :=
  match a, b with [], [] => true | x :: a', y :: b' => e x y && list_eqb e a' b' | _, _ => false end.
Definition polygon_ok (rows : list (Z * Z)) (a b : Z) (xs : list Z) (ys : list (option Z)) : bool :=
  list_eqb Z.eqb (fst (polygon rows a b)) xs && list_eqb oZ_eqb (snd (polygon rows a b)) ys.
Definition biom_ok (o : string) (rows : list row) (e : list (string * list (Z * option Z))) : bool :=
  list_eqb (fun x y => String.eqb (fst x) (fst y) &&
                       list_eqb (fun p q => (fst p =? fst q) && oZ_eqb (snd p) (snd q)) (snd x) (snd y))
           (biom_figure o rows) e.
Definition dose_ok (o : string) (rows : list row) (e : list (string * list (Z * option Z * option Z))) : bool :=
  list_eqb (fun x y => String.eqb (fst x) (fst y) &&
                       list_eqb (fun p q => (fst (fst p) =? fst (fst q)) && oZ_eqb (snd (fst p)) (snd (fst q))
                                            && oZ_eqb (snd p) (snd q)) (snd x) (snd y))
           (dose_figure o rows) e.
