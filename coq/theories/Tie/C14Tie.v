(* Executable helpers for the exact correspondence of C14 (harness/c14.py). *)
From Coq Require Import ZArith QArith Qabs List Bool String.
From Chi Require Import Model.Problem Tie.C08Tie.
Import ListNotations.

Fixpoint lpair_eqb (a b : list (Q * Q)) : bool :=
  match a, b with
  | [], [] => true
  | (x, y) :: a', (x', y') :: b' => Qeq_bool x x' && Qeq_bool y y' && lpair_eqb a' b'
  | _, _ => false
  end.
Fixpoint llpair_eqb (a b : list (list (Q * Q))) : bool :=
  match a, b with
  | [], [] => true
  | x :: a', y :: b' => lpair_eqb x y && llpair_eqb a' b'
  | _, _ => false
  end.
(* dose rates are quotients of doubles in chi and of rationals here, and the default duration is the double nearest
   to 0.01: equal up to 1e-12 relative *)
Definition qclose (x y : Q) : bool :=
  Qle_bool (Qabs (x - y)) ((1 # 1000000000000) * (1 + Qabs y)).
Fixpoint levents_eqb (a b : list (Q * Q * Q)) : bool :=
  match a, b with
  | [], [] => true
  | (l, s, d) :: a', (l', s', d') :: b' => qclose l l' && Qeq_bool s s' && qclose d d' && levents_eqb a' b'
  | _, _ => false
  end.
Fixpoint llQ_eqb (a b : list (list Q)) : bool :=
  match a, b with
  | [], [] => true
  | x :: a', y :: b' => lQ_eqb x y && llQ_eqb a' b'
  | _, _ => false
  end.
Definition ind := (string * list (list (Q * Q)) * list (Q * Q * Q) * list (list Q))%type.
Definition ind_eqb (a b : ind) : bool :=
  match a, b with
  | (i, m, r, c), (i', m', r', c') => String.eqb i i' && llpair_eqb m m' && levents_eqb r r' && llQ_eqb c c'
  end.
Fixpoint routed_eqb (a b : list ind) : bool :=
  match a, b with
  | [], [] => true
  | x :: a', y :: b' => ind_eqb x y && routed_eqb a' b'
  | _, _ => false
  end.

(* myokit keeps the events of a protocol ordered by start time *)
Fixpoint ins_event (e : Q * Q * Q) (l : list (Q * Q * Q)) : list (Q * Q * Q) :=
  match l with
  | [] => [e]
  | x :: t => if Qle_bool (snd (fst e)) (snd (fst x)) then e :: l else x :: ins_event e t
  end.
Definition by_start (l : list (Q * Q * Q)) : list (Q * Q * Q) := fold_right ins_event [] l.
Definition canon (x : ind) : ind :=
  match x with (i, m, r, c) => (i, m, by_start r, c) end.

Definition c14_case (d : list row) (observables covariates : list string) (expected : list ind) : bool :=
  routed_eqb (map canon (routed d observables covariates)) expected.
