(* Executable helpers for the exact correspondence of C09 (harness/c09.py).  Values are integers (the harness
   scales its dyadic parameter values and times by 16). *)
From Coq Require Import ZArith List Bool String.
From Chi Require Import Model.Mechanistic Model.Fixing Tie.C08Tie.
Import ListNotations.

Fixpoint lZ_eqb (a b : list Z) : bool :=
  match a, b with
  | [], [] => true
  | x :: a', y :: b' => Z.eqb x y && lZ_eqb a' b'
  | _, _ => false
  end.
Definition call_eqb (a b : call Z) : bool :=
  match a, b with
  | Reset, Reset => true
  | SetState l, SetState l' => lZ_eqb l l'
  | SetConst n v, SetConst n' v' => String.eqb n n' && Z.eqb v v'
  | Run du lg ts, Run du' lg' ts' => Z.eqb du du' && lstr_eqb lg lg' && lZ_eqb ts ts'
  | _, _ => false
  end.
Fixpoint calls_eqb (a b : list (call Z)) : bool :=
  match a, b with
  | [], [] => true
  | x :: a', y :: b' => call_eqb x y && calls_eqb a' b'
  | _, _ => false
  end.

(* names: chi's parameters() before any renaming must be the published names, its default outputs the sorted
   states, n_parameters the count *)
Definition c09_names (ds dc : list string) (e_params e_outputs : list string) (e_n : nat) : bool :=
  let m := {| decl_states := ds; decl_consts := dc |} in
  lstr_eqb (parameter_names m) e_params && lstr_eqb (default_outputs m) e_outputs && Nat.eqb (n_parameters m) e_n.

(* simulate: the calls chi made to the solver for vector th (full length) and times ts, with outputs outs *)
Definition c09_calls (ds dc outs : list string) (th ts : list Z) (e_calls : list (call Z)) : bool :=
  let m := {| decl_states := ds; decl_consts := dc |} in
  calls_eqb (simulate_calls Z 0%Z (fun t => (t + 16)%Z) m outs th ts) e_calls.

(* reduced model: s is the name -> fixed value state (C08), free the vector passed in; the wrapped model must
   have been simulated at the substituted vector *)
Definition c09_reduced (ds dc outs : list string) (s : state Z) (free ts : list Z) (e_calls : list (call Z)) : bool :=
  let m := {| decl_states := ds; decl_consts := dc |} in
  match expand s free with
  | Some th => calls_eqb (simulate_calls Z 0%Z (fun t => (t + 16)%Z) m outs th ts) e_calls
  | None => false
  end.

(* sensitivity request handed to the solver *)
Definition c09_sens (ds dc publics : list string) (sel : option (list string)) (e_req : list string) : bool :=
  let m := {| decl_states := ds; decl_consts := dc |} in
  lstr_eqb (sens_request m publics sel) e_req.
