(* Executable helpers for the exact correspondence of C11 (harness/c11.py).  Regimens are numbered (nat); values
   and times are integers (scaled by 16). *)
From Coq Require Import ZArith List Bool String.
From Chi Require Import Model.Mechanistic Model.Config Tie.C08Tie Tie.C09Tie.
Import ListNotations.

Definition adm_eqb (a b : adm) : bool :=
  match a, b with
  | None, None => true
  | Some (c, d), Some (c', d') => String.eqb c c' && Bool.eqb d d'
  | _, _ => false
  end.
Definition vtable := list (adm * (list string * list string * list string)).   (* states, constants, loggable *)
Fixpoint vlookup (t : vtable) (a : adm) : list string * list string * list string :=
  match t with
  | [] => ([], [], [])
  | (a', r) :: t' => if adm_eqb a a' then r else vlookup t' a
  end.
Definition variant_of (t : vtable) (a : adm) : sbml :=
  {| decl_states := fst (fst (vlookup t a)); decl_consts := snd (fst (vlookup t a)) |}.
Definition loggable_of (t : vtable) (a : adm) : list string := snd (vlookup t a).

Definition on_eqb (a b : option nat) : bool :=
  match a, b with Some x, Some y => Nat.eqb x y | None, None => true | _, _ => false end.
Definition osens_eqb (a b : option (list string * list string)) : bool :=
  match a, b with
  | Some (o, p), Some (o', p') => lstr_eqb o o' && lstr_eqb p p'
  | None, None => true
  | _, _ => false
  end.

(* what the harness observed on the chi object after a call *)
Record seen := {
  e_raised : bool;
  e_params : list string; e_n : nat; e_outputs : list string; e_regimen : option nat; e_has_sens : bool;
  e_sim_states : list string; e_sim_consts : list string; e_sim_protocol : option nat;
  e_sim_sens : option (list string * list string);
  e_sim : option (list Z * list Z * list (call Z))       (* vector, times, the calls simulate() made *)
}.

Definition obs_ok (t : vtable) (o : observation nat) (raised : bool) (e : seen) : bool :=
  Bool.eqb raised (e_raised e) &&
  lstr_eqb (o_parameters nat o) (e_params e) && Nat.eqb (o_n_parameters nat o) (e_n e) &&
  lstr_eqb (o_outputs nat o) (e_outputs e) && on_eqb (o_regimen nat o) (e_regimen e) &&
  Bool.eqb (o_has_sens nat o) (e_has_sens e) &&
  lstr_eqb (decl_states (variant_of t (o_sim_model nat o))) (e_sim_states e) &&
  lstr_eqb (decl_consts (variant_of t (o_sim_model nat o))) (e_sim_consts e) &&
  on_eqb (o_sim_protocol nat o) (e_sim_protocol e) && osens_eqb (o_sim_sens nat o) (e_sim_sens e) &&
  match e_sim e with
  | None => true
  | Some (th, ts, cs) =>
    calls_eqb (simulate_with Z 0%Z (fun x => (x + 16)%Z) (o_order nat o) (o_consts nat o) (o_n_states nat o)
                             (o_logged nat o) th ts) cs
  end.

Fixpoint history_ok (t : vtable) (comps : list string) (s : pk nat) (h : list (op nat * seen)) : bool :=
  match h with
  | [] => true
  | (o, e) :: h' =>
    let r := step (variant_of t) (loggable_of t) (fun c => mem c comps) s o in
    obs_ok t (observe (variant_of t) (fst r)) (snd r) e && history_ok t comps (fst r) h'
  end.

Definition c11_case (t : vtable) (comps outs0 : list string) (e0 : seen) (h : list (op nat * seen)) : bool :=
  let s0 := init (variant_of t) outs0 in
  obs_ok t (observe (variant_of t) s0) false e0 && history_ok t comps s0 h.
