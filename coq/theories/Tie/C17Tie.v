(* Executable helper for the exact correspondence of C17 / C02 (harness/c17.py, harness/c02.py). *)
From Coq Require Import List Arith Bool.
From Chi Require Import Model.Layout.
Import ListNotations.
Fixpoint lon_eqb (a b : list (option nat)) : bool :=
  match a, b with
  | [], [] => true
  | Some x :: a', Some y :: b' => Nat.eqb x y && lon_eqb a' b'
  | None :: a', None :: b' => lon_eqb a' b'
  | _, _ => false
  end.
Fixpoint ranges_eqb (a b : list (nat * nat)) : bool :=
  match a, b with
  | [], [] => true
  | x :: a', y :: b' => Nat.eqb (fst x) (fst y) && Nat.eqb (snd x) (snd y) && ranges_eqb a' b'
  | _, _ => false
  end.
(* observed on chi: n_parameters, number of names, number of population parameters, n_dim, the ID pattern
   (individual index or None per position) and the special-dimension ranges *)
Definition c17_case (n_ids : nat) (c : comp) (n_par n_names n_top n_dim : nat) (idpat : list (option nat))
           (sp : list (nat * nat)) : bool :=
  Nat.eqb (N_parameters n_ids c) n_par && Nat.eqb (N_parameters n_ids c) n_names &&
  Nat.eqb (N_top n_ids c) n_top && Nat.eqb (N_dim c) n_dim && lon_eqb (ids n_ids c) idpat &&
  ranges_eqb (special_ranges 0 c) sp.
(* the reshaped bottom-level row (tagged values; None = dummy column of a special dimension) *)
Fixpoint lopt_eqb (a b : list (option nat)) : bool := lon_eqb a b.
Definition shape_case (c : comp) (row : list nat) (observed : list (option nat)) : bool :=
  lon_eqb (shape nat (special_ranges 0 c) 0 0 row) observed.

(* ---- compositions of compositions (Model/Nested.v) ---- *)
From Chi Require Import Model.Nested.
Fixpoint obj_eqb (a b : obj) : bool :=
  match a, b with
  | OLeaf h n, OLeaf h' n' => Bool.eqb h h' && Nat.eqb n n'
  | ONode n ts, ONode n' ts' =>
      Nat.eqb n n' &&
      (fix go (l l' : list obj) : bool :=
         match l, l' with
         | [], [] => true
         | x :: r, x' :: r' => obj_eqb x x' && go r r'
         | _, _ => false
         end) ts ts'
  | _, _ => false
  end.
(* observed on chi: n_ids() of every object after construction, and after set_n_ids k on the outermost one *)
Definition c17_nids (r : recipe) (after_build : obj) (k : nat) (after_set : obj) : bool :=
  obj_eqb (make build r) after_build && obj_eqb (set_n k (make build r)) after_set.
(* observed on chi: n_dim(), n_parameters(), n_hierarchical_dim() and the special ranges of a nested composition *)
Definition c17_nested (n_ids : nat) (t : tree) (n_dim n_par n_hdim : nat) (sp : list (nat * nat)) : bool :=
  Nat.eqb (t_dim t) n_dim && Nat.eqb (t_par n_ids t) n_par && Nat.eqb (t_hdim t) n_hdim &&
  ranges_eqb (t_special t) sp.
(* observed on chi: the reduce=True sensitivities of a nested composition, entries replaced by tags; the leaves of
   the dtree carry the (tagged) sensitivities each leaf model returns on its own *)
Fixpoint ln_eqb (a b : list nat) : bool :=
  match a, b with [], [] => true | x :: a', y :: b' => Nat.eqb x y && ln_eqb a' b' | _, _ => false end.
Definition c17_red (n : nat) (t : dtree nat) (observed : list nat) : bool :=
  match red nat (width_fixed nat) n t with Some ds => ln_eqb ds observed | None => false end.
