(* Executable helper for the exact correspondence of C17 / C02 (harness/c17.py, harness/c02.py). *)
From Coq Require Import List Arith Bool.
From Chi Require Import Model.Layout.
Import ListNotations.
Fixpoint lon_eqb (a b : list (option nat)) : bool :=
  match a, b with
  | [], [] => true
  | Some x :: a', Some y :: b' => Nat.eqb x y && lon_eqb a' b'
  | None :: a', None :: b' => lon_eqb a' b'
  | _, _ => false
  end.
Fixpoint ranges_eqb (a b : list (nat * nat)) : bool :=
  match a, b with
  | [], [] => true
  | x :: a', y :: b' => Nat.eqb (fst x) (fst y) && Nat.eqb (snd x) (snd y) && ranges_eqb a' b'
  | _, _ => false
  end.
(* observed on chi: n_parameters, number of names, number of population parameters, n_dim, the ID pattern
   (individual index or None per position) and the special-dimension ranges *)
Definition c17_case (n_ids : nat) (c : comp) (n_par n_names n_top n_dim : nat) (idpat : list (option nat))
           (sp : list (nat * nat)) : bool :=
  Nat.eqb (N_parameters n_ids c) n_par && Nat.eqb (N_parameters n_ids c) n_names &&
  Nat.eqb (N_top n_ids c) n_top && Nat.eqb (N_dim c) n_dim && lon_eqb (ids n_ids c) idpat &&
  ranges_eqb (special_ranges 0 c) sp.
(* the reshaped bottom-level row (tagged values; None = dummy column of a special dimension) *)
Fixpoint lopt_eqb (a b : list (option nat)) : bool := lon_eqb a b.
Definition shape_case (c : comp) (row : list nat) (observed : list (option nat)) : bool :=
  lon_eqb (shape nat (special_ranges 0 c) 0 0 row) observed.
