(* Executable helper for the exact correspondence of C08 (harness/c08.py). *)
From Coq Require Import ZArith QArith List Bool String.
From Chi Require Import Model.Fixing.
Import ListNotations.

Fixpoint lstr_eqb (a b : list string) : bool :=
  match a, b with
  | [], [] => true
  | x :: a', y :: b' => String.eqb x y && lstr_eqb a' b'
  | _, _ => false
  end.
Fixpoint lQ_eqb (a b : list Q) : bool :=
  match a, b with
  | [], [] => true
  | x :: a', y :: b' => Qeq_bool x y && lQ_eqb a' b'
  | _, _ => false
  end.
Definition oQ_eqb (a b : option (list Q)) : bool :=
  match a, b with Some x, Some y => lQ_eqb x y | None, None => true | _, _ => false end.

(* names: original parameter names; h: call history (dicts as item lists); free: the vector evaluated;
   expected (observed on chi's object): reported names, n_fixed, and the full vector the wrapped object
   received (None = chi raised) *)
Definition c08_case (names : list string) (h : list (dict Q)) (free : list Q)
           (e_names : list string) (e_fixed : nat) (e_full : option (list Q)) : bool :=
  let s := fold_left (cfix (-(1#1))%Q) h (cinit names) in
  lstr_eqb (cfree_names s) e_names && Nat.eqb (cn_fixed s) e_fixed &&
  (if Nat.eqb (List.length free) (List.length (cfree_names s))
   then oQ_eqb (cexpand s free) e_full
   else match e_full with None => true | Some _ => false end).
