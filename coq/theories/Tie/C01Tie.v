(* Executable helpers for the exact correspondence of C01 (harness/c01.py): the toy mechanistic model over Q
   and decidable comparison of recorded error-model calls. *)
From Coq Require Import ZArith QArith List Bool.
From Chi Require Import Model.TimeGrid.
Import ListNotations.
Open Scope Q_scope.

Definition nthQ (n : nat) (l : list Q) : Q := nth n l 0.
(* harness/toy.py: out_o(t) = p0*(1+o) + p1*t + p2*t*t*o, with t = z/den *)
Definition toyQ (th : list Q) (den : Z) (o : nat) (z : Z) : Q :=
  let t := (inject_Z z) / (inject_Z den) in
  nthQ 0 th * (1 + inject_Z (Z.of_nat o)) + nthQ 1 th * t + nthQ 2 th * t * t * inject_Z (Z.of_nat o).

Fixpoint lQ_eqb (a b : list Q) : bool :=
  match a, b with
  | [], [] => true
  | x :: a', y :: b' => Qeq_bool x y && lQ_eqb a' b'
  | _, _ => false
  end.
Definition call_eqb (a b : call Q Q) : bool :=
  lQ_eqb (fst (fst a)) (fst (fst b)) && lQ_eqb (snd (fst a)) (snd (fst b)) && lQ_eqb (snd a) (snd b).
Fixpoint calls_eqb (a b : list (call Q Q)) : bool :=
  match a, b with
  | [], [] => true
  | x :: a', y :: b' => call_eqb x y && calls_eqb a' b'
  | _, _ => false
  end.
Fixpoint lnat_eqb (a b : list nat) : bool :=
  match a, b with
  | [], [] => true
  | x :: a', y :: b' => Nat.eqb x y && lnat_eqb a' b'
  | _, _ => false
  end.
(* one case of the exact tie: construction verdict, and for a constructed object the recorded calls and
   n_observations *)
Definition c01_case (n_out n_em : nat) (th_mech : list Q) (den : Z) (counts : list nat)
           (ts : list (list Z)) (obs : list (list Q)) (th : list Q)
           (built : bool) (rec : list (call Q Q)) (nobs : list nat) : bool :=
  Bool.eqb (constructs n_out n_em ts obs) built &&
  (if built then calls_eqb (calls 0 (toyQ th_mech den) 3 counts ts obs th) rec && lnat_eqb (n_obs obs) nobs
   else true).
