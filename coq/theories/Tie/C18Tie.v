(* Executable helpers for the exact correspondence of C18 (harness/c18.py).  Values are tagged integers. *)
From Coq Require Import ZArith List Bool String.
From Chi Require Import Model.Mechanistic Model.Inference Tie.C08Tie Tie.C09Tie.
Import ListNotations.

Definition entry_eqb (a b : entry Z) : bool :=
  match a, b with
  | Scalar x, Scalar y => Z.eqb x y
  | PerIndividual xs, PerIndividual ys => lZ_eqb xs ys
  | _, _ => false
  end.
(* every expected variable is found with the expected content, and the model's dataset has no other variable *)
Definition c18_format (names top : list string) (v : list Z) (expected : list (string * entry Z)) : bool :=
  let ds := format_draw Z 0%Z names top v in
  forallb (fun pe => match lookup Z (fst pe) ds with Some e => entry_eqb e (snd pe) | None => false end) expected &&
  forallb (fun qe => mem (fst qe) (map fst expected)) ds.

Fixpoint loZ_eqb (a b : list (option Z)) : bool :=
  match a, b with
  | [], [] => true
  | Some x :: a', Some y :: b' => Z.eqb x y && loZ_eqb a' b'
  | None :: a', None :: b' => loZ_eqb a' b'
  | _, _ => false
  end.
(* reading the formatted draw back for individual k under the given parameter names *)
Definition c18_read (names top : list string) (v : list Z) (k : nat) (params : list string) (expected : list Z) : bool :=
  loZ_eqb (read_back Z (format_draw Z 0%Z names top v) k params) (map Some expected).

Definition c18_init (keep : list bool) (pop : list (list Z)) (prior expected : list Z) : bool :=
  lZ_eqb (init_vector Z keep pop prior) expected.

Definition ostr_eqb (a b : option string) : bool :=
  match a, b with Some x, Some y => String.eqb x y | None, None => true | _, _ => false end.
Fixpoint rows_eqb (a b : list (option string * string * Z * Z * nat)) : bool :=
  match a, b with
  | [], [] => true
  | (i, n, e, s, r) :: a', (i', n', e', s', r') :: b' =>
    ostr_eqb i i' && String.eqb n n' && Z.eqb e e' && Z.eqb s s' && Nat.eqb r r' && rows_eqb a' b'
  | _, _ => false
  end.
(* ids as the layout prescribes them (unique IDs repeated nb times, then None), names, estimates *)
Definition c18_table (uids : list string) (nb ntop : nat) (names : list string) (est : list Z) (score : Z) (run : nat)
           (expected : list (option string * string * Z * Z * nat)) : bool :=
  rows_eqb (table_rows Z (layout_ids uids nb ntop) names est score run) expected.
