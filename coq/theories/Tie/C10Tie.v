(* Executable helpers for the exact correspondence of C10 (harness/c10.py). *)
From Coq Require Import ZArith List Bool.
From Chi Require Import Model.Dosing.
Import ListNotations.
Open Scope Z_scope.

Fixpoint rows_eqb (a b : list (Z * Z * Z)) : bool :=
  match a, b with
  | [], [] => true
  | x :: a', y :: b' => (fst (fst x) =? fst (fst y)) && (snd (fst x) =? snd (fst y)) && (snd x =? snd y)
                        && rows_eqb a' b'
  | _, _ => false
  end.
Definition table_ok (evs : list event) (final : option Z) (expected : list (Z * Z * Z)) : bool :=
  rows_eqb (table evs final) expected.
Definition event_eqb (a b : event) : bool :=
  (ev_amt a =? ev_amt b) && (ev_st a =? ev_st b) && (ev_dur a =? ev_dur b) && (ev_per a =? ev_per b)
  && Nat.eqb (ev_mult a) (ev_mult b).
Fixpoint events_eqb (a b : list event) : bool :=
  match a, b with [], [] => true | x :: a', y :: b' => event_eqb x y && events_eqb a' b' | _, _ => false end.
