(* C01: the pointwise log-likelihoods of a LogLikelihood add up to its total. *)
From Coq Require Import Reals ZArith List Bool Arith Lia Lra.
From Chi Require Import Base.RSum Base.Score Model.ErrorModels Model.TimeGrid Model.LogLik
     Proofs.ErrorModels Proofs.TimeGrid.
Import ListNotations.
Open Scope R_scope.

Lemma splus_assoc a b c : splus a (splus b c) = splus (splus a b) c.
Proof. destruct a, b, c; cbn; try reflexivity. f_equal. lra. Qed.

Lemma ssum_app a b : ssum (a ++ b) = splus (ssum a) (ssum b).
Proof.
  induction a as [|x a IH]; cbn [app ssum].
  - destruct (ssum b); cbn; [f_equal; lra | reflexivity].
  - rewrite IH. apply splus_assoc.
Qed.

Lemma ssum_concat ls : ssum (concat ls) = ssum (map ssum ls).
Proof. induction ls as [|l ls IH]; cbn [concat map ssum]; [reflexivity | now rewrite ssum_app, IH]. Qed.

Lemma ssum_map_Fin {A} (f : A -> R) l : ssum (map (fun a => Fin (f a)) l) = Fin (Rsum (map f l)).
Proof. induction l as [|a l IH]; cbn [map ssum Rsum]; [reflexivity | now rewrite IH]. Qed.

Lemma ssum_map_NegInf {A} (l : list A) : l <> [] -> ssum (map (fun _ => NegInf) l) = NegInf.
Proof. destruct l; [congruence | reflexivity]. Qed.

(* per error model: total = sum of the pointwise values (as scores, guards included) *)
Theorem em_ll_is_ssum_pointwise k p ms ys :
  length ms = length ys -> ms <> [] -> em_ll k p ms ys = ssum (em_pointwise k p ms ys).
Proof.
  intros Hl Hne. destruct k; cbn [em_ll em_pointwise].
  - unfold G_ll, G_pointwise. destruct (Rle_dec _ 0).
    + now rewrite ssum_map_NegInf.
    + rewrite (ssum_map_Fin (fun q => G_pw _ (fst q) (snd q))). now rewrite G_total_is_sum.
  - unfold MG_ll, MG_pointwise. destruct (Rle_dec _ 0).
    + now rewrite ssum_map_NegInf.
    + rewrite (ssum_map_Fin (fun q => MG_pw _ (fst q) (snd q))). now rewrite MG_total_is_sum.
  - unfold CMG_ll, CMG_pointwise. destruct (CMG_guard _ _).
    + now rewrite ssum_map_NegInf.
    + rewrite (ssum_map_Fin (fun q => CMG_pw _ _ (fst q) (snd q))). now rewrite CMG_total_is_sum.
  - unfold LN_ll, LN_pointwise. destruct (LN_guard _ _).
    + now rewrite ssum_map_NegInf.
    + rewrite (ssum_map_Fin (fun q => LN_pw _ (fst q) (snd q))). now rewrite LN_total_is_sum.
Qed.

(* all calls well-shaped: as many predictions as observations, at least one *)
Definition call_ok (c : call R R) : Prop :=
  length (snd (fst c)) = length (snd c) /\ snd (fst c) <> [].

Lemma ll_pointwise_calls ks (cs : list (call R R)) :
  Forall call_ok cs ->
  ssum (map (apply_em em_ll) (combine ks cs))
  = ssum (concat (map (apply_em em_pointwise) (combine ks cs))).
Proof.
  intros H. rewrite ssum_concat, map_map. f_equal.
  apply map_ext_in. intros [k c] Hin. unfold apply_em. cbn [fst snd].
  apply in_combine_r in Hin. rewrite Forall_forall in H. destruct (H _ Hin) as [H1 H2].
  now apply em_ll_is_ssum_pointwise.
Qed.

(* Each output has at least one measurement and the object was constructed *)
Theorem pointwise_sums_to_total pred n_mech ks ts obs th :
  Forall call_ok (calls 0 pred n_mech (map n_err ks) ts obs th) ->
  ssum (pointwise pred n_mech ks ts obs th) = ll pred n_mech ks ts obs th.
Proof. intros H. unfold pointwise, ll. symmetry. now apply ll_pointwise_calls. Qed.

(* the well-shapedness premise follows from successful construction with non-empty grids *)
Lemma combine_Forall3 {A B C} (P : A * B * C -> Prop) (la : list A) (lb : list B) (lc : list C) :
  (forall i a b c, nth_error la i = Some a -> nth_error lb i = Some b -> nth_error lc i = Some c -> P (a, b, c)) ->
  Forall P (combine (combine la lb) lc).
Proof.
  revert lb lc. induction la as [|a la IH]; intros [|b lb] [|c lc] H; cbn [combine]; try constructor.
  - apply (H O a b c); reflexivity.
  - apply IH. intros i a' b' c' Ha Hb Hc. apply (H (S i)); assumption.
Qed.

Theorem constructed_calls_ok pred n_mech counts n_out n_em ts obs th :
  constructs n_out n_em ts obs = true -> (forall g, In g ts -> g <> []) ->
  Forall call_ok (calls 0 pred n_mech counts ts obs th).
Proof.
  intros Hc Hne. unfold calls. apply combine_Forall3. intros i sl pr ob _ Hpr Hob.
  unfold call_ok. cbn [fst snd].
  assert (Hi : (i < length ts)%nat).
  { assert (Hs : nth_error (map (paired 0 pred ts) (seq 0 (length ts))) i <> None) by congruence.
    apply nth_error_Some in Hs. now rewrite map_length, seq_length in Hs. }
  assert (Epr : pr = paired 0 pred ts i).
  { rewrite nth_error_map in Hpr.
    assert (Es : nth_error (seq 0 (length ts)) i = Some i).
    { rewrite (nth_error_nth' _ O) by now rewrite seq_length. now rewrite seq_nth. }
    rewrite Es in Hpr. cbn in Hpr. now inversion Hpr. }
  subst pr. split.
  - rewrite (constructed_evaluates 0 pred n_out n_em ts obs i Hc).
    f_equal. apply nth_error_nth with (d := []) in Hob. now rewrite Hob.
  - unfold paired. intros E. apply map_eq_nil in E. apply (Hne (nth i ts [])); [|assumption].
    now apply nth_In.
Qed.
