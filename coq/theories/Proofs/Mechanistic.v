(* Proofs about Model/Mechanistic.v: sorting / argsort inverse, assignment of vector entries to solver states and
   constants, the sensitivity request. *)
From Coq Require Import List Bool String Arith Lia Permutation Sorted.
From Chi Require Import Model.Mechanistic.
Import ListNotations.

Section SortFacts.
  Variable A : Type.
  Variable leb : A -> A -> bool.

  Lemma insert_perm x l : Permutation (insert leb x l) (x :: l).
  Proof.
    induction l as [|y t IH]; cbn; [reflexivity|].
    destruct (leb x y); [reflexivity|].
    rewrite IH. apply perm_swap.
  Qed.
  Lemma isort_perm l : Permutation (isort leb l) l.
  Proof. induction l as [|x t IH]; cbn; [constructor|]. rewrite insert_perm. now constructor. Qed.
  Lemma insert_p_perm p l : Permutation (insert_p leb p l) (p :: l).
  Proof.
    induction l as [|y t IH]; cbn; [reflexivity|].
    destruct (leb (fst p) (fst y)); [reflexivity|].
    rewrite IH. apply perm_swap.
  Qed.
  Lemma isort_p_perm l : Permutation (isort_p leb l) l.
  Proof. induction l as [|x t IH]; cbn; [constructor|]. rewrite insert_p_perm. now constructor. Qed.

  Lemma insert_p_fst p l : map fst (insert_p leb p l) = insert leb (fst p) (map fst l).
  Proof.
    induction l as [|y t IH]; cbn; [reflexivity|].
    destruct (leb (fst p) (fst y)); cbn; [reflexivity|]. now rewrite IH.
  Qed.
  Lemma isort_p_fst l : map fst (isort_p leb l) = isort leb (map fst l).
  Proof. induction l as [|x t IH]; cbn; [reflexivity|]. now rewrite insert_p_fst, IH. Qed.

  Lemma map_fst_combine (l : list A) (l' : list nat) :
    List.length l = List.length l' -> map fst (combine l l') = l.
  Proof. revert l'; induction l as [|x t IH]; intros [|y t']; cbn; intros H; try reflexivity; try discriminate.
         f_equal. apply IH. lia. Qed.
  Lemma map_snd_combine (l : list A) (l' : list nat) :
    List.length l = List.length l' -> map snd (combine l l') = l'.
  Proof. revert l'; induction l as [|x t IH]; intros [|y t']; cbn; intros H; try reflexivity; try discriminate.
         f_equal. apply IH. lia. Qed.

  Lemma argsort_perm l : Permutation (argsort leb l) (seq 0 (List.length l)).
  Proof.
    unfold argsort. rewrite isort_p_perm. rewrite map_snd_combine; [reflexivity|]. now rewrite seq_length.
  Qed.
  Lemma argsort_length l : List.length (argsort leb l) = List.length l.
  Proof. rewrite (Permutation_length (argsort_perm l)). apply seq_length. Qed.

  Lemma combine_seq_index (pre l : list A) :
    Forall (fun p => nth_error (pre ++ l) (snd p) = Some (fst p))
           (combine l (seq (List.length pre) (List.length l))).
  Proof.
    revert pre; induction l as [|x t IH]; intros pre; cbn; [constructor|].
    constructor.
    - cbn. rewrite nth_error_app2 by lia. now rewrite Nat.sub_diag.
    - specialize (IH (pre ++ [x])). rewrite <- app_assoc in IH. cbn in IH.
      rewrite app_length in IH. cbn in IH. now rewrite Nat.add_1_r in IH.
  Qed.

  (* the argsort indices read the list in sorted order *)
  Lemma argsort_reads (l : list A) (d : A) :
    map (fun i => nth i l d) (argsort leb l) = isort leb l.
  Proof.
    unfold argsort.
    assert (F : Forall (fun p => nth_error l (snd p) = Some (fst p))
                       (isort_p leb (combine l (seq 0 (List.length l))))).
    { eapply Permutation_Forall; [symmetry; apply isort_p_perm|]. apply (combine_seq_index [] l). }
    rewrite map_map.
    transitivity (map fst (isort_p leb (combine l (seq 0 (List.length l))))).
    - apply map_ext_in. intros p Hp. rewrite Forall_forall in F. specialize (F p Hp).
      now apply nth_error_nth.
    - rewrite isort_p_fst, map_fst_combine; [reflexivity|]. now rewrite seq_length.
  Qed.
End SortFacts.

(* sorted permutations of natural numbers are unique *)
Lemma insert_sorted x l : StronglySorted le l -> StronglySorted le (insert Nat.leb x l).
Proof.
  induction l as [|y t IH]; cbn; intros H.
  - repeat constructor.
  - destruct (Nat.leb x y) eqn:E.
    + apply Nat.leb_le in E. constructor; [exact H|]. constructor; [exact E|].
      apply StronglySorted_inv in H. destruct H as [_ H]. eapply Forall_impl; [|exact H]. cbn; intros; lia.
    + apply Nat.leb_gt in E. apply StronglySorted_inv in H. destruct H as [Ht Hy].
      constructor; [now apply IH|].
      eapply Permutation_Forall; [symmetry; apply insert_perm|]. constructor; [lia|exact Hy].
Qed.
Lemma isort_sorted l : StronglySorted le (isort Nat.leb l).
Proof. induction l as [|x t IH]; cbn; [constructor|]. now apply insert_sorted. Qed.
Lemma seq_sorted a n : StronglySorted le (seq a n).
Proof.
  revert a; induction n as [|n IH]; intros a; cbn; constructor; [apply IH|].
  apply Forall_forall. intros x Hx. apply in_seq in Hx. lia.
Qed.
Lemma sorted_perm_eq (l l' : list nat) :
  StronglySorted le l -> StronglySorted le l' -> Permutation l l' -> l = l'.
Proof.
  revert l'; induction l as [|a t IH]; intros l' Hl Hl' P.
  - now apply Permutation_nil in P.
  - destruct l' as [|b t']; [apply Permutation_sym, Permutation_nil in P; discriminate|].
    apply StronglySorted_inv in Hl. destruct Hl as [Ht Ha].
    apply StronglySorted_inv in Hl'. destruct Hl' as [Ht' Hb].
    assert (a = b).
    { assert (Ia : In a (b :: t')) by (eapply Permutation_in; [exact P|now left]).
      assert (Ib : In b (a :: t)) by (eapply Permutation_in; [symmetry; exact P|now left]).
      rewrite Forall_forall in Ha, Hb.
      destruct Ia as [->|Ia]; [reflexivity|]. destruct Ib as [->|Ib]; [reflexivity|].
      specialize (Ha b Ib). specialize (Hb a Ia). lia. }
    subst b. f_equal. apply IH; try assumption. now apply Permutation_cons_inv in P.
Qed.
Lemma isort_of_perm_seq (p : list nat) n : Permutation p (seq 0 n) -> isort Nat.leb p = seq 0 n.
Proof.
  intros P. apply sorted_perm_eq; [apply isort_sorted|apply seq_sorted|].
  now rewrite isort_perm.
Qed.

(* argsort of a permutation of 0..n-1 is its inverse *)
Lemma argsort_inverse (p : list nat) n j :
  Permutation p (seq 0 n) -> j < n -> nth (nth j (argsort Nat.leb p) 0) p 0 = j.
Proof.
  intros P Hj.
  pose proof (argsort_reads nat Nat.leb p 0) as R. rewrite (isort_of_perm_seq p n P) in R.
  assert (L : List.length (argsort Nat.leb p) = n).
  { rewrite argsort_length. rewrite (Permutation_length P). apply seq_length. }
  assert (E : nth j (map (fun i => nth i p 0) (argsort Nat.leb p)) (nth 0 p 0) = nth j (seq 0 n) (nth 0 p 0))
    by now rewrite R.
  rewrite (map_nth (fun i => nth i p 0)) in E. rewrite seq_nth in E by assumption. exact E.
Qed.

Lemma perm_seq_bound (p : list nat) n j : Permutation p (seq 0 n) -> j < n -> nth j p 0 < n.
Proof.
  intros P Hj. assert (I : In (nth j p 0) p).
  { apply nth_In. rewrite (Permutation_length P), seq_length. exact Hj. }
  eapply Permutation_in in I; [|exact P]. apply in_seq in I. lia.
Qed.

(* np.argsort(np.argsort(names)) sends the declaration position of a name to its alphabetical rank *)
Lemma original_order_rank (names : list string) j :
  j < List.length names ->
  let q := argsort Nat.leb (argsort String.leb names) in
  nth j q 0 < List.length names /\
  nth (nth j q 0) (isort String.leb names) EmptyString = nth j names EmptyString.
Proof.
  intros Hj q.
  set (n := List.length names). set (p := argsort String.leb names).
  assert (Pp : Permutation p (seq 0 n)) by apply argsort_perm.
  assert (Pq : Permutation q (seq 0 n)).
  { unfold q. fold p. pose proof (argsort_perm nat Nat.leb p) as H.
    rewrite (Permutation_length Pp), seq_length in H. exact H. }
  assert (Hk : nth j q 0 < n) by (now apply perm_seq_bound).
  split; [exact Hk|].
  rewrite <- (argsort_reads string String.leb names EmptyString). fold p.
  assert (Lp : List.length p = n) by (rewrite (Permutation_length Pp); apply seq_length).
  rewrite (nth_indep _ EmptyString (nth 0 names EmptyString)) by (rewrite map_length; lia).
  rewrite (map_nth (fun i => nth i names EmptyString)).
  cbv beta. unfold q. fold p. rewrite (argsort_inverse p n j Pp Hj).
  reflexivity.
Qed.

Lemma NoDup_app_l {A} (l l' : list A) : NoDup (l ++ l') -> NoDup l.
Proof.
  induction l as [|x t IH]; cbn; intros H; [constructor|].
  inversion H as [|? ? Hx H']; subst. constructor; [|now apply IH].
  intros I; apply Hx. apply in_or_app. now left.
Qed.
Lemma NoDup_app_r {A} (l l' : list A) : NoDup (l ++ l') -> NoDup l'.
Proof. induction l as [|x t IH]; cbn; intros H; [exact H|]. inversion H; subst. now apply IH. Qed.

Section Assignment.
  Variable V : Type.
  Variable d : V.
  Variable plus1 : V -> V.

  Lemma state_names_perm m : Permutation (state_names m) (decl_states m).
  Proof. apply isort_perm. Qed.
  Lemma const_names_perm m : Permutation (const_names m) (decl_consts m).
  Proof. apply isort_perm. Qed.
  Lemma parameter_names_length m : List.length (parameter_names m) = n_parameters m.
  Proof.
    unfold parameter_names, n_parameters, n_states. rewrite app_length.
    now rewrite (Permutation_length (state_names_perm m)), (Permutation_length (const_names_perm m)).
  Qed.

  (* the state whose name is published at position i receives entry i *)
  Theorem state_receives (m : sbml) (th : list V) i j :
    NoDup (decl_states m) -> i < n_states m -> j < n_states m ->
    nth i (state_names m) EmptyString = nth j (decl_states m) EmptyString ->
    nth j (take V d (original_order m) th) d = nth i th d.
  Proof.
    intros ND Hi Hj E. unfold take, original_order.
    destruct (original_order_rank (decl_states m) j Hj) as [Hk Hn]. cbn zeta in Hk, Hn.
    set (q := argsort Nat.leb (argsort String.leb (decl_states m))) in *.
    assert (Lq : List.length q = n_states m).
    { unfold q. now rewrite !argsort_length. }
    rewrite (nth_indep _ d ((fun i0 => nth i0 th d) 0)) by (rewrite map_length; unfold n_states in *; lia).
    rewrite (map_nth (fun i0 => nth i0 th d)).
    assert (nth j q 0 = i); [|now subst].
    assert (NDs : NoDup (state_names m)) by (eapply Permutation_NoDup; [symmetry; apply state_names_perm|exact ND]).
    apply (proj1 (NoDup_nth (state_names m) EmptyString) NDs).
    - rewrite (Permutation_length (state_names_perm m)). exact Hk.
    - rewrite (Permutation_length (state_names_perm m)). exact Hi.
    - unfold state_names at 1. rewrite Hn. now rewrite E.
  Qed.

  Lemma index_of_nth (l : list string) j :
    NoDup l -> j < List.length l -> index_of (nth j l EmptyString) l = Some j.
  Proof.
    revert j; induction l as [|x t IH]; intros j ND Hj; cbn in *; [lia|].
    inversion ND as [|? ? Hx ND']; subst.
    destruct j as [|j].
    - now rewrite String.eqb_refl.
    - destruct (String.eqb (nth j t EmptyString) x) eqn:E.
      + apply String.eqb_eq in E. exfalso. apply Hx. rewrite <- E. apply nth_In. lia.
      + rewrite IH; [reflexivity|assumption|lia].
  Qed.
  Lemma index_of_none n (l : list string) : ~ In n l -> index_of n l = None.
  Proof.
    induction l as [|x t IH]; cbn; intros H; [reflexivity|].
    destruct (String.eqb n x) eqn:E; [apply String.eqb_eq in E; subst; exfalso; apply H; now left|].
    rewrite IH; [reflexivity|]. intros I; apply H; now right.
  Qed.

  Lemma last_state_app cs cs' acc :
    last_state V (cs ++ cs') acc = last_state V cs' (last_state V cs acc).
  Proof. revert acc; induction cs as [|c t IH]; intros acc; cbn; [reflexivity|]. destruct c; apply IH. Qed.
  Lemma last_const_app cs cs' n acc :
    last_const V (cs ++ cs') n acc = last_const V cs' n (last_const V cs n acc).
  Proof. revert acc; induction cs as [|c t IH]; intros acc; cbn; [reflexivity|]. destruct c; apply IH. Qed.
  Lemma last_state_consts names th acc : last_state V (set_const_calls V d names th) acc = acc.
  Proof. revert th; induction names as [|n ns IH]; intros th; cbn; [reflexivity|]. apply IH. Qed.
  Lemma last_const_consts names th k acc :
    NoDup names -> k < List.length names ->
    last_const V (set_const_calls V d names th) (nth k names EmptyString) acc = Some (nth k th d).
  Proof.
    revert th k acc; induction names as [|n ns IH]; intros th k acc ND Hk; cbn in *; [lia|].
    inversion ND as [|? ? Hn ND']; subst.
    destruct k as [|k].
    - rewrite String.eqb_refl.
      assert (G : forall th' a, last_const V (set_const_calls V d ns th') n a = a).
      { clear - Hn. induction ns as [|x t IH]; intros th' a; cbn; [reflexivity|].
        destruct (String.eqb n x) eqn:E; [apply String.eqb_eq in E; subst; exfalso; apply Hn; now left|].
        apply IH. intros I; apply Hn; now right. }
      now rewrite G.
    - rewrite IH; [|assumption|lia]. destruct th; cbn; [now destruct k|reflexivity].
  Qed.

  (* every published parameter name is bound, inside the solver, to the vector entry at its position *)
  Theorem assignment (m : sbml) (outs : list string) (th times : list V) i :
    NoDup (decl_states m ++ decl_consts m) -> List.length th = n_parameters m -> i < n_parameters m ->
    assigned V m (simulate_calls V d plus1 m outs th times) (nth i (parameter_names m) EmptyString)
    = Some (nth i th d).
  Proof.
    intros ND L Hi.
    pose proof (NoDup_app_l _ _ ND) as NDs. pose proof (NoDup_app_r _ _ ND) as NDc.
    assert (Ls : List.length (state_names m) = n_states m) by apply (Permutation_length (state_names_perm m)).
    assert (Lc : List.length (const_names m) = List.length (decl_consts m))
      by apply (Permutation_length (const_names_perm m)).
    unfold assigned, simulate_calls, simulate_with, parameter_names, set_state_calls.
    destruct (Nat.lt_ge_cases i (n_states m)) as [Hs|Hs].
    - rewrite app_nth1 by lia.
      assert (I : In (nth i (state_names m) EmptyString) (decl_states m)).
      { eapply Permutation_in; [apply state_names_perm|]. apply nth_In. lia. }
      destruct (In_nth _ _ EmptyString I) as [j [Hj Ej]].
      rewrite <- Ej at 1. rewrite (index_of_nth _ j NDs Hj).
      cbn [last_state app]. rewrite last_state_app, last_state_consts. cbn [last_state].
      assert (Lt : List.length (take V d (original_order m) (firstn (n_states m) th)) = n_states m).
      { unfold take, original_order. now rewrite map_length, !argsort_length. }
      rewrite (nth_error_nth' _ d) by (rewrite Lt; exact Hj).
      f_equal. rewrite (state_receives m _ i j NDs Hs Hj (eq_sym Ej)).
      rewrite <- (firstn_skipn (n_states m) th) at 2.
      rewrite app_nth1; [reflexivity|]. rewrite firstn_length. unfold n_parameters in *. lia.
    - rewrite app_nth2 by lia. rewrite Ls.
      set (k := i - n_states m).
      assert (Hk : k < List.length (const_names m)) by (unfold n_parameters in *; lia).
      assert (NI : ~ In (nth k (const_names m) EmptyString) (decl_states m)).
      { intros I. assert (I' : In (nth k (const_names m) EmptyString) (decl_consts m)).
        { eapply Permutation_in; [apply const_names_perm|]. now apply nth_In. }
        clear - ND I I'. induction (decl_states m) as [|x t IH]; [contradiction|].
        cbn in ND. inversion ND as [|? ? Hx ND']; subst. destruct I as [->|I].
        - apply Hx. apply in_or_app. now right.
        - now apply IH. }
      rewrite (index_of_none _ _ NI).
      cbn [last_const app]. rewrite last_const_app.
      rewrite last_const_consts; [|eapply Permutation_NoDup; [symmetry; apply const_names_perm|exact NDc]|exact Hk].
      cbn [last_const]. f_equal.
      rewrite <- (firstn_skipn (n_states m) th) at 2.
      rewrite app_nth2; rewrite firstn_length; unfold n_parameters in *; [|lia].
      f_equal. lia.
  Qed.

  (* what is logged: exactly the selected outputs, in their order, at the requested times *)
  Theorem logged (m : sbml) (outs : list string) (th times : list V) :
    run_of V (simulate_calls V d plus1 m outs th times) = Some (plus1 (last times d), outs, times).
  Proof.
    unfold simulate_calls, simulate_with, set_state_calls. cbn [run_of app].
    assert (G : forall names th' rest, run_of V (set_const_calls V d names th' ++ rest) = run_of V rest).
    { induction names as [|n ns IH]; intros th' rest; cbn; [reflexivity|]. apply IH. }
    rewrite G. reflexivity.
  Qed.
End Assignment.

(* sensitivity request = the targets of the selected parameters, in published order *)
Lemma sens_names_targets m : sens_names m = map target_name (param_targets m).
Proof. unfold sens_names, param_targets. rewrite map_app, !map_map. f_equal. cbn. now rewrite map_id. Qed.

Theorem sens_request_spec (m : sbml) (publics : list string) (sel : option (list string)) :
  sens_request m publics sel =
  map target_name (map snd (filter (fun p => selected sel (fst p)) (combine publics (param_targets m)))).
Proof.
  unfold sens_request. rewrite sens_names_targets.
  generalize (param_targets m). intros ts. revert ts.
  induction publics as [|p ps IH]; intros [|t ts]; cbn; try reflexivity.
  destruct (selected sel p); cbn; now rewrite IH.
Qed.

Theorem sens_request_all (m : sbml) (publics : list string) :
  List.length publics = n_parameters m ->
  sens_request m publics None = map target_name (param_targets m).
Proof.
  intros L. rewrite sens_request_spec. f_equal.
  assert (Lt : List.length (param_targets m) = n_parameters m).
  { unfold param_targets. rewrite app_length, !map_length.
    unfold n_parameters, n_states.
    now rewrite (Permutation_length (state_names_perm m)), (Permutation_length (const_names_perm m)). }
  rewrite <- Lt in L. clear Lt. revert L. generalize (param_targets m). intros ts. revert ts.
  induction publics as [|p ps IH]; intros [|t ts]; cbn; intros L; try reflexivity; try discriminate.
  f_equal. apply IH. lia.
Qed.

(* the k-th selected parameter (counting published positions whose displayed name is requested) is the target of
   the k-th column; unselected parameters are absent *)
Theorem sens_request_length (m : sbml) (publics : list string) (sel : option (list string)) :
  List.length (sens_request m publics sel)
  = List.length (filter (fun p => selected sel (fst p)) (combine publics (param_targets m))).
Proof. rewrite sens_request_spec. now rewrite !map_length. Qed.

(* with the solver as an oracle: simulate returns the solution of the initial-value problem in which the i-th
   vector entry is bound to the i-th published name, logged for the selected outputs in their order *)
Section Oracle.
  Variables (V Y : Type) (d : V) (plus1 : V -> V).
  Variable solver : sbml -> list (call V) -> Y.
  Variable ivp : sbml -> (string -> option V) -> list string -> list V -> Y.
  (* what is assumed of the solver: it integrates the model with the values it was handed (states by declaration
     position, constants by name) and logs what the final run call names; the result depends on the binding only
     through the model's states and literal constants *)
  Hypothesis solver_sem : forall m cs du lg ts,
    run_of V cs = Some (du, lg, ts) -> solver m cs = ivp m (assigned V m cs) lg ts.
  Hypothesis ivp_ext : forall m a b lg ts,
    (forall n, In n (parameter_names m) -> a n = b n) -> ivp m a lg ts = ivp m b lg ts.

  Definition by_position (m : sbml) (th : list V) (n : string) : option V :=
    option_map (fun i => nth i th d) (index_of n (parameter_names m)).

  Lemma parameter_names_nodup m : NoDup (decl_states m ++ decl_consts m) -> NoDup (parameter_names m).
  Proof.
    intros ND. eapply Permutation_NoDup; [|exact ND]. unfold parameter_names.
    apply Permutation_app; symmetry; [apply state_names_perm|apply const_names_perm].
  Qed.

  Theorem simulate_is_ivp (m : sbml) (outs : list string) (th times : list V) :
    NoDup (decl_states m ++ decl_consts m) -> List.length th = n_parameters m ->
    solver m (simulate_calls V d plus1 m outs th times) = ivp m (by_position m th) outs times.
  Proof.
    intros ND L. rewrite (solver_sem m _ _ _ _ (logged V d plus1 m outs th times)).
    apply ivp_ext. intros n I.
    destruct (In_nth _ _ EmptyString I) as [i [Hi Ei]]. rewrite parameter_names_length in Hi.
    rewrite <- Ei. rewrite (assignment V d plus1 m outs th times i ND L Hi).
    unfold by_position. rewrite index_of_nth; [reflexivity|now apply parameter_names_nodup|].
    now rewrite parameter_names_length.
  Qed.
End Oracle.

(* ReducedMechanisticModel: the wrapped model is simulated at the substituted vector (C08's `expand`), and the
   sensitivities requested are those of the free parameters, in published order *)
From Chi Require Import Model.Fixing.
Section Reduced.
  Variable V : Type.

  Lemma restrict_filter {T} (s : state V) (F : list string) (ts : list T) :
    (forall p, In p s -> mem (fst p) F = is_free p) ->
    map snd (filter (fun p => mem (fst p) F) (combine (map fst s) ts)) = restrict s ts.
  Proof.
    revert ts; induction s as [|p t IH]; intros ts H; cbn; [reflexivity|].
    destruct ts as [|x xs]; cbn; [reflexivity|].
    rewrite (H p (or_introl eq_refl)).
    destruct (is_free p); cbn; rewrite IH; try reflexivity; intros q Iq; apply H; now right.
  Qed.

  Lemma mem_in n l : mem n l = true <-> In n l.
  Proof.
    unfold mem. rewrite existsb_exists. split.
    - intros [x [I E]]. apply String.eqb_eq in E. now subst.
    - intros I. exists n. split; [exact I|apply String.eqb_refl].
  Qed.

  Lemma free_names_mem (s : state V) :
    NoDup (map fst s) -> forall p, In p s -> mem (fst p) (free_names s) = is_free p.
  Proof.
    intros ND p Ip. destruct (is_free p) eqn:Ef.
    - apply mem_in. unfold free_names. apply in_map. apply filter_In. now split.
    - destruct (mem (fst p) (free_names s)) eqn:Em; [|reflexivity]. exfalso.
      apply mem_in in Em. unfold free_names in Em. apply in_map_iff in Em. destruct Em as [q [Eq Iq]].
      apply filter_In in Iq. destruct Iq as [Iq Fq].
      assert (q = p); [|subst; congruence].
      clear - ND Ip Iq Eq. induction s as [|a t IH]; [contradiction|].
      cbn in ND. inversion ND as [|? ? Ha ND']; subst.
      destruct Ip as [->|Ip], Iq as [->|Iq]; try reflexivity.
      + exfalso. apply Ha. rewrite <- Eq. now apply in_map.
      + exfalso. apply Ha. rewrite Eq. now apply in_map.
      + now apply IH.
  Qed.

  Theorem reduced_sens_request (m : sbml) (s : state V) :
    NoDup (map fst s) ->
    sens_request m (map fst s) (Some (free_names s)) = map target_name (restrict s (param_targets m)).
  Proof.
    intros ND. rewrite sens_request_spec. f_equal. cbn [selected].
    apply restrict_filter. now apply free_names_mem.
  Qed.
End Reduced.
