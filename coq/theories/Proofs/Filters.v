(* Proofs about Model/Filters.v (C12). *)
From Coq Require Import Reals Lra List Sorting.Permutation ssreflect.
From Coquelicot Require Import Coquelicot.
From Chi Require Import Base.RSum Model.Filters.
Import ListNotations.
Open Scope R_scope.

(* ---------------- generic facts ---------------- *)
Lemma Rsum_perm l l' : Permutation l l' -> Rsum l = Rsum l'.
Proof. elim=> //= [x a b _ -> //|x y a|a b c _ -> _ -> //]. lra. Qed.

Lemma Rsum_exp_pos l : l <> [] -> 0 < Rsum (map exp l).
Proof.
  case: l => [//|a l] _ /=. have := exp_pos a.
  suff : 0 <= Rsum (map exp l) by lra.
  elim: l => [|b l IH] /=; first lra. have := exp_pos b. lra.
Qed.

Lemma ln_sqrt_half x : 0 < x -> ln (sqrt x) = ln x / 2.
Proof.
  move=> Hx. have Hs : 0 < sqrt x by apply sqrt_lt_R0.
  have E : ln x = ln (sqrt x) + ln (sqrt x) by rewrite -ln_mult // sqrt_sqrt //; lra. lra.
Qed.

(* the max-shift of logsumexp cancels: any shift m gives the same value *)
Theorem lse_shift l m : l <> [] ->
  ln (Rsum (map exp (map (fun a => a - m) l))) + m = lse l.
Proof.
  move=> Hl. rewrite /lse.
  have -> : Rsum (map exp (map (fun a => a - m) l)) = Rsum (map exp l) * exp (- m).
  { elim: l {Hl} => [|a l IH] /=; first lra. rewrite IH /Rminus exp_plus. lra. }
  rewrite ln_mult; [| by apply Rsum_exp_pos | by apply exp_pos]. rewrite ln_exp. lra.
Qed.

Lemma nR_pos {A} (l : list A) : l <> [] -> 0 < nR l.
Proof. case: l => [//|a l] _. rewrite /nR /=. case: (length l) => [|k]; [lra|]. have := pos_INR (S k). lra. Qed.

Theorem centered_sum_zero xs : xs <> [] -> Rsum (map (fun x => x - mean xs) xs) = 0.
Proof.
  move=> H. have Hn := nR_pos xs H.
  have -> : Rsum (map (fun x => x - mean xs) xs) = Rsum xs - nR xs * mean xs.
  { rewrite (Rsum_map_ext _ (fun x => x * 1 + - mean xs)); last by move=> a _; ring.
    rewrite Rsum_map_affine /nR map_id. ring. }
  rewrite /mean. field. lra.
Qed.

Theorem var_two_forms xs : xs <> [] -> nR xs <> 1 ->
  var xs = (Rsum (map (fun x => x^2) xs) - (Rsum xs)^2 / nR xs) / (nR xs - 1).
Proof.
  move=> H H1. have Hn := nR_pos xs H. rewrite /var. f_equal.
  have E : forall m, Rsum (map (fun x => (x - m)^2) xs)
                     = Rsum (map (fun x => x^2) xs) - 2 * m * Rsum xs + nR xs * m^2.
  { move=> m. rewrite /nR. elim: xs {H H1 Hn} => [|a l IH]; first by rewrite /=; ring.
    change (length (a :: l)) with (S (length l)). rewrite S_INR. cbn [map Rsum]. rewrite IH. ring. }
  rewrite E /mean. field. lra.
Qed.

(* ---------------- scores are the documented log-densities ---------------- *)
Lemma ln_normal_pdf_v v m y : 0 < v ->
  ln (normal_pdf_v v m y) = - (ln2PI + ln v + (y - m)^2 / v) / 2.
Proof.
  move=> Hv. rewrite /normal_pdf_v /ln2PI.
  have H2 : 0 < 2 * PI by have := PI_RGT_0; lra.
  have Hp : 0 < 2 * PI * v by apply Rmult_lt_0_compat.
  have Hs : 0 < sqrt (2 * PI * v) by apply sqrt_lt_R0.
  rewrite ln_mult; [| by apply Rinv_0_lt_compat | by apply exp_pos].
  rewrite ln_Rinv // ln_sqrt_half // ln_exp ln_mult //. field. lra.
Qed.

Theorem G_score xs ys : 0 < var xs ->
  GF_cell xs ys = Rsum (map (fun y => ln (normal_pdf_v (var xs) (mean xs) y)) ys).
Proof.
  move=> Hv. rewrite /GF_cell.
  rewrite (Rsum_map_ext (fun y => ln (normal_pdf_v (var xs) (mean xs) y))
             (fun y => (ln2PI + ln (var xs) + (y - mean xs)^2 / var xs) * (- / 2) + 0)); last first.
  { move=> y _. rewrite ln_normal_pdf_v //. field; lra. }
  rewrite Rsum_map_affine. field.
Qed.

Lemma ln_lognormal_pdf_v v m y : 0 < v -> 0 < y ->
  ln (lognormal_pdf_v v m y) = - (ln2PI + ln v + 2 * ln y + (ln y - m)^2 / v) / 2.
Proof.
  move=> Hv Hy. rewrite /lognormal_pdf_v /ln2PI.
  have H2 : 0 < 2 * PI by have := PI_RGT_0; lra.
  have Hp : 0 < 2 * PI * v by apply Rmult_lt_0_compat.
  have Hs : 0 < sqrt (2 * PI * v) by apply sqrt_lt_R0.
  have Hys : 0 < y * sqrt (2 * PI * v) by apply Rmult_lt_0_compat.
  rewrite ln_mult; [| by apply Rinv_0_lt_compat | by apply exp_pos].
  rewrite ln_Rinv // ln_mult // ln_sqrt_half // ln_exp ln_mult //. field. lra.
Qed.

Theorem LN_score xs ys : 0 < var (map ln xs) -> (forall y, In y ys -> 0 < y) ->
  LNF_cell xs ys
  = Rsum (map (fun y => ln (lognormal_pdf_v (var (map ln xs)) (mean (map ln xs)) y)) ys).
Proof.
  move=> Hv Hy. rewrite /LNF_cell. set lx := map ln xs in Hv |- *.
  rewrite (Rsum_map_ext (fun y => ln (lognormal_pdf_v (var lx) (mean lx) y))
             (fun y => (ln2PI + ln (var lx) + 2 * ln y + (ln y - mean lx)^2 / var lx) * (- / 2) + 0)); last first.
  { move=> y Hin. rewrite ln_lognormal_pdf_v //; last by apply Hy. field; lra. }
  rewrite Rsum_map_affine. field.
Qed.

(* kernel densities: log of the average of the kernel densities centred at the simulated values *)
Lemma kde_term zs b2 y : zs <> [] -> 0 < b2 ->
  ln (Rsum (map (fun z => normal_pdf_v b2 z y) zs) / nR zs)
  = lse (kde_scores zs b2 y) - ln (nR zs) - ln2PI / 2 - ln b2 / 2.
Proof.
  move=> Hz Hb. have Hn := nR_pos zs Hz.
  have H2 : 0 < 2 * PI by have := PI_RGT_0; lra.
  have Hp : 0 < 2 * PI * b2 by apply Rmult_lt_0_compat.
  have Hs : 0 < sqrt (2 * PI * b2) by apply sqrt_lt_R0.
  have -> : Rsum (map (fun z => normal_pdf_v b2 z y) zs)
            = Rsum (map exp (kde_scores zs b2 y)) * / sqrt (2 * PI * b2).
  { rewrite /kde_scores map_map.
    rewrite (Rsum_map_ext (fun z => normal_pdf_v b2 z y)
               (fun z => exp (- (z - y)^2 / b2 / 2) * / sqrt (2 * PI * b2) + 0)); last first.
    { move=> z _. rewrite /normal_pdf_v. have -> : - (y - z)^2 / (2 * b2) = - (z - y)^2 / b2 / 2 by field; lra.
      ring. }
    rewrite Rsum_map_affine. ring. }
  have Hse : 0 < Rsum (map exp (kde_scores zs b2 y)).
  { apply Rsum_exp_pos. rewrite /kde_scores. by case: zs Hz {Hn}. }
  rewrite /Rdiv ln_mult; [| apply Rmult_lt_0_compat => //; by apply Rinv_0_lt_compat | by apply Rinv_0_lt_compat].
  rewrite ln_mult //; last by apply Rinv_0_lt_compat.
  rewrite !ln_Rinv // ln_sqrt_half // ln_mult // /lse /ln2PI. field.
Qed.

Theorem GKDE_score xs ys : xs <> [] -> 0 < bw2 xs ->
  GKDE_cell xs ys = Rsum (map (fun y => ln (Rsum (map (fun x => normal_pdf_v (bw2 xs) x y) xs) / nR xs)) ys).
Proof.
  move=> Hx Hb. rewrite /GKDE_cell. apply Rsum_map_ext => y _. by rewrite kde_term.
Qed.

Lemma Rsum_map_pos {A} (f : A -> R) l : l <> [] -> (forall a, 0 < f a) -> 0 < Rsum (map f l).
Proof.
  case: l => [//|a l] _ Hf /=. have := Hf a.
  suff : 0 <= Rsum (map f l) by lra.
  elim: l => [|b l IH] /=; first lra. have := Hf b. lra.
Qed.

Lemma normal_pdf_v_pos v z w : 0 < v -> 0 < normal_pdf_v v z w.
Proof.
  move=> Hv. rewrite /normal_pdf_v. apply Rmult_lt_0_compat; last by apply exp_pos.
  apply Rinv_0_lt_compat, sqrt_lt_R0. apply Rmult_lt_0_compat => //. have := PI_RGT_0; lra.
Qed.

(* log-normal kernel: LN(y | location ln x_s, scale^2 = bw2) *)
Theorem LNKDE_score xs ys : xs <> [] -> 0 < bw2 (map ln xs) -> (forall y, In y ys -> 0 < y) ->
  LNKDE_cell xs ys
  = Rsum (map (fun y => ln (Rsum (map (fun l => lognormal_pdf_v (bw2 (map ln xs)) l y) (map ln xs)) / nR xs)) ys).
Proof.
  move=> Hx Hb Hy. rewrite /LNKDE_cell. set lx := map ln xs in Hb |- *.
  have Hlx : lx <> [] by rewrite /lx; move: Hx; case: (xs).
  have En : nR lx = nR xs by rewrite /nR /lx map_length.
  have Hn := nR_pos xs Hx.
  apply Rsum_map_ext => y Hin. have Hy0 := Hy y Hin.
  have -> : Rsum (map (fun l => lognormal_pdf_v (bw2 lx) l y) lx)
            = Rsum (map (fun l => normal_pdf_v (bw2 lx) l (ln y)) lx) * / y.
  { rewrite (Rsum_map_ext (fun l => lognormal_pdf_v (bw2 lx) l y)
               (fun l => normal_pdf_v (bw2 lx) l (ln y) * / y + 0)); last first.
    { move=> l _. rewrite /lognormal_pdf_v /normal_pdf_v.
      have Hs : 0 < sqrt (2 * PI * bw2 lx).
      { apply sqrt_lt_R0. apply Rmult_lt_0_compat => //. have := PI_RGT_0; lra. }
      field. split; lra. }
    rewrite Rsum_map_affine. ring. }
  have Hk := kde_term lx (bw2 lx) (ln y) Hlx Hb. rewrite En in Hk.
  have Hpos : 0 < Rsum (map (fun l => normal_pdf_v (bw2 lx) l (ln y)) lx).
  { apply Rsum_map_pos => // a. by apply normal_pdf_v_pos. }
  have -> : Rsum (map (fun l => normal_pdf_v (bw2 lx) l (ln y)) lx) * / y / nR xs
            = (Rsum (map (fun l => normal_pdf_v (bw2 lx) l (ln y)) lx) / nR xs) * / y by field; lra.
  rewrite ln_mult; [| by apply Rdiv_lt_0_compat | by apply Rinv_0_lt_compat].
  rewrite Hk ln_Rinv //.
Qed.

(* Gaussian mixture: log of the equal-weight average of the block Gaussians *)
Theorem GMIX_score k m xs ys : blocks k m xs <> [] -> (forall b, In b (blocks k m xs) -> 0 < var b) ->
  GMIX_cell k m xs ys
  = Rsum (map (fun y => ln (Rsum (map (fun b => normal_pdf_v (var b) (mean b) y) (blocks k m xs)) / INR k)) ys).
Proof.
  move=> Hb Hv. rewrite /GMIX_cell. apply Rsum_map_ext => y _.
  have Hk : 0 < INR k.
  { case: k Hb {Hv} => [//|k] _. have := pos_INR k. rewrite S_INR. lra. }
  set bs := blocks k m xs in Hb Hv |- *.
  have E : Rsum (map (fun b => normal_pdf_v (var b) (mean b) y) bs)
           = Rsum (map exp (map (fun b => mix_score b y) bs)) * / sqrt (2 * PI).
  { rewrite map_map.
    have -> : Rsum (map (fun b => normal_pdf_v (var b) (mean b) y) bs)
              = Rsum (map (fun b => exp (mix_score b y) * / sqrt (2 * PI) + 0) bs).
    { apply Rsum_map_ext => b Hin. have Hvb := Hv b Hin.
      have H2 : 0 < 2 * PI by have := PI_RGT_0; lra.
      rewrite /normal_pdf_v /mix_score.
      have -> : - (mean b - y)^2 / var b / 2 - ln (var b) / 2
                = - (y - mean b)^2 / (2 * var b) + - (ln (var b) / 2) by field; lra.
      rewrite exp_plus exp_Ropp -ln_sqrt_half // exp_ln; last by apply sqrt_lt_R0.
      rewrite sqrt_mult; [| lra | lra].
      have S1 : 0 < sqrt (2 * PI) by apply sqrt_lt_R0.
      have S2 : 0 < sqrt (var b) by apply sqrt_lt_R0.
      field. split; lra. }
    by rewrite Rsum_map_affine Rmult_0_r Rplus_0_r. }
  have Hse : 0 < Rsum (map exp (map (fun b => mix_score b y) bs)).
  { apply Rsum_exp_pos. by case: bs Hb {Hv E}. }
  have H2 : 0 < 2 * PI by have := PI_RGT_0; lra.
  have S1 : 0 < sqrt (2 * PI) by apply sqrt_lt_R0.
  rewrite E /Rdiv ln_mult; [| apply Rmult_lt_0_compat => //; by apply Rinv_0_lt_compat | by apply Rinv_0_lt_compat].
  rewrite ln_mult //; last by apply Rinv_0_lt_compat.
  rewrite !ln_Rinv // ln_sqrt_half // /lse /ln2PI. field.
Qed.

(* permuting the measured individuals (and hence padding: missing values never enter `ys`) *)
Theorem permute_individuals xs ys ys' k m : Permutation ys ys' ->
  GF_cell xs ys = GF_cell xs ys' /\ LNF_cell xs ys = LNF_cell xs ys' /\
  GKDE_cell xs ys = GKDE_cell xs ys' /\ LNKDE_cell xs ys = LNKDE_cell xs ys' /\
  GMIX_cell k m xs ys = GMIX_cell k m xs ys'.
Proof.
  move=> H.
  have P : forall f : R -> R, Rsum (map f ys) = Rsum (map f ys').
  { move=> f. by apply Rsum_perm, Permutation_map. }
  by rewrite /GF_cell /LNF_cell /GKDE_cell /LNKDE_cell /GMIX_cell !P.
Qed.

(* ---------------- the Gaussian filter's sensitivities are the derivatives ---------------- *)
(* one simulated value t moves; A, B = sum and sum of squares of the other simulated values of the cell *)
Definition m_of (A n t : R) : R := (A + t) / n.
Definition v_of (A B n t : R) : R := (B + t^2 - (A + t)^2 / n) / (n - 1).

Lemma G_term_derive A B n y x : 1 < n -> 0 < v_of A B n x ->
  is_derive (fun t => ln2PI + ln (v_of A B n t) + (y - m_of A n t)^2 / v_of A B n t) x
            (- 2 * ((y - m_of A n x) / v_of A B n x / n
                    + (- / v_of A B n x + (y - m_of A n x)^2 / (v_of A B n x)^2)
                      * (x - m_of A n x) / (n - 1))).
Proof.
  move=> H1 Hv. rewrite /v_of /m_of in Hv |- *.
  have Hn1 : n - 1 <> 0 by apply Rgt_not_eq; lra.
  have Hn0 : n <> 0 by apply Rgt_not_eq; lra.
  have Hv0 : (B + x ^ 2 - (A + x) ^ 2 / n) / (n - 1) <> 0 by apply Rgt_not_eq.
  have EQ : (B + x * (x * 1) + - ((A + x) * ((A + x) * 1) * / n)) * / (n - 1)
            = (B + x ^ 2 - (A + x) ^ 2 / n) / (n - 1) by field; split.
  have Hv1 : (B + x * (x * 1) + - ((A + x) * ((A + x) * 1) * / n)) * / (n - 1) <> 0 by rewrite EQ.
  have Hv2 : 0 < (B + x * (x * 1) + - ((A + x) * ((A + x) * 1) * / n)) * / (n - 1) by rewrite EQ.
  auto_derive; first by repeat split.
  field. repeat split => //. move=> E. apply Hv0.
  have -> : (B + x ^ 2 - (A + x) ^ 2 / n) / (n - 1) = ((B + x ^ 2) * n - (A + x) ^ 2) / (n * (n - 1))
    by field; split.
  rewrite E. field. by split.
Qed.

Lemma Rsum_middle pre post t : Rsum (pre ++ t :: post) = Rsum pre + Rsum post + t.
Proof. rewrite Rsum_app /=. lra. Qed.
Lemma nR_middle pre post (t x : R) : nR (pre ++ t :: post) = nR (pre ++ x :: post).
Proof. by rewrite /nR !app_length. Qed.

Lemma mean_v_middle pre post t :
  let n := nR (pre ++ t :: post) in
  let A := Rsum pre + Rsum post in
  let B := Rsum (map (fun x => x^2) pre) + Rsum (map (fun x => x^2) post) in
  n <> 1 ->
  mean (pre ++ t :: post) = m_of A n t /\ var (pre ++ t :: post) = v_of A B n t.
Proof.
  move=> n A B H1. split.
  - by rewrite /mean Rsum_middle.
  - have Hne : pre ++ t :: post <> [] by case: (pre).
    rewrite var_two_forms //.
    rewrite /v_of map_app Rsum_app. cbn [map Rsum]. rewrite Rsum_middle -/n -/A /B. f_equal. f_equal. ring.
Qed.

Lemma scal_neg_half (a : R) : scal (- / 2) a = - a / 2.
Proof. rewrite /scal /= /mult /=. field. Qed.

Theorem G_grad pre post x ys :
  let xs := pre ++ x :: post in
  1 < nR xs -> 0 < var xs ->
  is_derive (fun t => GF_cell (pre ++ t :: post) ys) x (GF_grad xs ys x).
Proof.
  move=> xs H1 Hv.
  set n := nR xs. set A := Rsum pre + Rsum post.
  set B := Rsum (map (fun z => z^2) pre) + Rsum (map (fun z => z^2) post).
  have Hn : 0 < n by apply nR_pos; rewrite /xs; case: (pre).
  have Hmv : forall t, mean (pre ++ t :: post) = m_of A n t /\ var (pre ++ t :: post) = v_of A B n t.
  { move=> t. have := mean_v_middle pre post t. rewrite (nR_middle pre post t x) -/xs -/n -/A -/B. apply. rewrite /n. lra. }
  have [Em Ev] := Hmv x. rewrite -/xs in Em Ev.
  apply is_derive_ext with
    (fun t => - Rsum (map (fun y => ln2PI + ln (v_of A B n t) + (y - m_of A n t)^2 / v_of A B n t) ys) / 2).
  { move=> t. rewrite /GF_cell. have [-> ->] := Hmv t. reflexivity. }
  have -> : GF_grad xs ys x
            = - Rsum (map (fun y => - 2 * ((y - m_of A n x) / v_of A B n x / n
                       + (- / v_of A B n x + (y - m_of A n x)^2 / (v_of A B n x)^2)
                         * (x - m_of A n x) / (n - 1))) ys) / 2.
  { rewrite /GF_grad -/n Em Ev. set M := m_of A n x. set V := v_of A B n x.
    have Hn1 : 1 < n by rewrite /n.
    have HV : 0 < V by rewrite /V -Ev.
    have C : Rsum (map (fun y => -2 * ((y - M) / V / n + (- / V + (y - M)^2 / V^2) * (x - M) / (n - 1))) ys)
             = -2 * (Rsum (map (fun y => (y - M) / V) ys) / n
                     + Rsum (map (fun y => - / V + (y - M)^2 / V^2) ys) * (x - M) / (n - 1)).
    { elim: ys => [|y l IH]; cbn [map Rsum]; first by field; repeat split; apply Rgt_not_eq; lra.
      rewrite IH. field. repeat split; apply Rgt_not_eq; lra. }
    rewrite C. field. repeat split; apply Rgt_not_eq; lra. }
  set F := fun t => Rsum (map (fun y => ln2PI + ln (v_of A B n t) + (y - m_of A n t)^2 / v_of A B n t) ys).
  set D := Rsum (map (fun y => - 2 * ((y - m_of A n x) / v_of A B n x / n
                       + (- / v_of A B n x + (y - m_of A n x)^2 / (v_of A B n x)^2)
                         * (x - m_of A n x) / (n - 1))) ys).
  have HF : is_derive F x D.
  { apply (is_derive_Rsum ys (fun y t => ln2PI + ln (v_of A B n t) + (y - m_of A n t)^2 / v_of A B n t)).
    move=> y _. apply G_term_derive; first by rewrite /n. by rewrite -Ev. }
  apply is_derive_ext with (fun t => scal (- / 2) (F t)).
  { move=> t. by rewrite scal_neg_half. }
  evar_last; first by apply: is_derive_scal; exact HF.
  lra.
Qed.

(* ---------------- the log-normal filter's sensitivities are the derivatives ---------------- *)
(* the log-normal cell is the Gaussian cell of the logarithms minus the sum of the log measurements *)
Lemma LNF_as_GF xs ys :
  LNF_cell xs ys = GF_cell (map ln xs) (map ln ys) - Rsum (map ln ys).
Proof.
  rewrite /LNF_cell /GF_cell. set lx := map ln xs.
  elim: ys => [|y l IH]; cbn [map Rsum]; first by field.
  lra.
Qed.

Theorem LN_grad pre post x ys :
  let xs := pre ++ x :: post in
  0 < x -> 1 < nR xs -> 0 < var (map ln xs) ->
  is_derive (fun t => LNF_cell (pre ++ t :: post) ys) x (LNF_grad xs ys x).
Proof.
  move=> xs Hx H1 Hv.
  have Hne : map ln xs <> [] by rewrite /xs map_app; case: (map ln pre).
  have E0 : mean (map (fun l => l - mean (map ln xs)) (map ln xs)) = 0.
  { rewrite /mean centered_sum_zero //. rewrite /Rdiv. ring. }
  have EG : LNF_grad xs ys x = GF_grad (map ln xs) (map ln ys) (ln x) * / x.
  { rewrite /LNF_grad /GF_grad E0 /nR !map_length -/(nR xs).
    have -> : Rsum (map (fun y => (ln y - mean (map ln xs)) / var (map ln xs)) ys)
              = Rsum (map (fun y => (y - mean (map ln xs)) / var (map ln xs)) (map ln ys)) by rewrite map_map.
    have -> : Rsum (map (fun y => (ln y - mean (map ln xs))^2 / (var (map ln xs))^2 - / var (map ln xs)) ys)
              = Rsum (map (fun y => - / var (map ln xs) + (y - mean (map ln xs))^2 / (var (map ln xs))^2) (map ln ys)).
    { rewrite map_map. f_equal. apply map_ext => y. ring. }
    field. repeat split; apply Rgt_not_eq; lra. }
  rewrite EG.
  apply is_derive_ext with
    (fun t => GF_cell (map ln pre ++ ln t :: map ln post) (map ln ys) - Rsum (map ln ys)).
  { move=> t. by rewrite LNF_as_GF map_app. }
  evar_last.
  - apply: is_derive_minus; last by apply: is_derive_const.
    apply: (is_derive_comp (fun u => GF_cell (map ln pre ++ u :: map ln post) (map ln ys)) ln x).
    + have := G_grad (map ln pre) (map ln post) (ln x) (map ln ys).
      rewrite /xs map_app in Hv. rewrite /= in Hv.
      apply; last by exact Hv.
      have -> : nR (map ln pre ++ ln x :: map ln post) = nR xs by rewrite /nR /xs !app_length /= !map_length.
      exact H1.
    + apply is_derive_ln. exact Hx.
  - rewrite /minus /plus /opp /zero /scal /= /mult /=. rewrite /xs map_app /=. ring.
Qed.

(* ---------------- the kernel-density filters' sensitivities are the derivatives ---------------- *)
Section KDEterm.
  Variables (v dv : R -> R) (c y : R).
  Hypothesis Hv : forall x, is_derive v x (dv x).
  Hypothesis Hc : 0 < c.

  Definition kg (z t : R) : R := - (z - y)^2 / (c * v t) / 2.

  Lemma kg_fixed z x : 0 < v x ->
    is_derive (kg z) x ((z - y)^2 / (2 * c) * dv x / (v x)^2).
  Proof.
    move=> Hp. rewrite /kg.
    have Ex : ex_derive v x by eexists; apply Hv.
    auto_derive; first by repeat split => //; apply Rgt_not_eq, Rmult_lt_0_compat.
    rewrite (is_derive_unique _ _ _ (Hv x)). field. split; apply Rgt_not_eq; lra.
  Qed.
  Lemma kg_moving x : 0 < v x ->
    is_derive (fun t => kg t t) x (- (x - y) / (c * v x) + (x - y)^2 / (2 * c) * dv x / (v x)^2).
  Proof.
    move=> Hp. rewrite /kg.
    have Ex : ex_derive v x by eexists; apply Hv.
    auto_derive; first by repeat split => //; apply Rgt_not_eq, Rmult_lt_0_compat.
    rewrite (is_derive_unique _ _ _ (Hv x)). field. split; apply Rgt_not_eq; lra.
  Qed.
End KDEterm.

Lemma Rsum_map_middle {T} (f : T -> R) pre x post :
  Rsum (map f (pre ++ x :: post)) = Rsum (map f pre) + f x + Rsum (map f post).
Proof. rewrite map_app Rsum_app /=. ring. Qed.

Lemma Rsum_exp_pos' (l : list R) : 0 <= Rsum (map exp l).
Proof. elim: l => [|a l IH] /=; first lra. have := exp_pos a. lra. Qed.

Section KDEcell.
  Variables (v dv : R -> R) (c y : R) (pre post : list R).
  Hypothesis Hv : forall x, is_derive v x (dv x).
  Hypothesis Hc : 0 < c.

  Definition kS (t : R) : R :=
    Rsum (map (fun z => exp (kg v c y z t)) pre) + exp (kg v c y t t) + Rsum (map (fun z => exp (kg v c y z t)) post).
  Definition kq (z x : R) : R := (z - y)^2 / (2 * c) * dv x / (v x)^2.
  Definition kdS (x : R) : R :=
    Rsum (map (fun z => exp (kg v c y z x) * kq z x) pre)
    + exp (kg v c y x x) * (- (x - y) / (c * v x) + kq x x)
    + Rsum (map (fun z => exp (kg v c y z x) * kq z x) post).

  Lemma kS_pos t : 0 < kS t.
  Proof.
    rewrite /kS. have := exp_pos (kg v c y t t).
    have H1 : 0 <= Rsum (map (fun z => exp (kg v c y z t)) pre).
    { have -> : map (fun z => exp (kg v c y z t)) pre = map exp (map (fun z => kg v c y z t) pre) by rewrite map_map.
      apply Rsum_exp_pos'. }
    have H2 : 0 <= Rsum (map (fun z => exp (kg v c y z t)) post).
    { have -> : map (fun z => exp (kg v c y z t)) post = map exp (map (fun z => kg v c y z t) post) by rewrite map_map.
      apply Rsum_exp_pos'. }
    lra.
  Qed.

  Lemma exp_comp_derive (g : R -> R) x d : is_derive g x d -> is_derive (fun t => exp (g t)) x (exp (g x) * d).
  Proof.
    move=> H. evar_last.
    - apply: (is_derive_comp exp g x); last by exact H. apply is_derive_exp.
    - rewrite /scal /= /mult /=. ring.
  Qed.

  Lemma kS_derive x : 0 < v x -> is_derive kS x (kdS x).
  Proof.
    move=> Hp. rewrite /kS /kdS.
    apply: is_derive_plus; first apply: is_derive_plus.
    - apply (is_derive_Rsum pre (fun z t => exp (kg v c y z t)) (fun z => exp (kg v c y z x) * kq z x)).
      move=> z _. apply exp_comp_derive. by apply kg_fixed.
    - apply (exp_comp_derive (fun t => kg v c y t t)). by apply kg_moving.
    - apply (is_derive_Rsum post (fun z t => exp (kg v c y z t)) (fun z => exp (kg v c y z x) * kq z x)).
      move=> z _. apply exp_comp_derive. by apply kg_fixed.
  Qed.

  (* one measurement's contribution: ln S - K - ln (c v) / 2 *)
  Definition kF (K : R) (t : R) : R := ln (kS t) - K - ln (c * v t) / 2.
  Lemma kF_derive K x : 0 < v x -> is_derive (kF K) x (kdS x / kS x - dv x / (2 * v x)).
  Proof.
    move=> Hp. rewrite /kF. have HS := kS_pos x.
    evar_last.
    - apply: is_derive_minus.
      + apply: is_derive_minus; last by apply: is_derive_const.
        apply: (is_derive_comp ln kS x); first by apply is_derive_ln.
        by apply kS_derive.
      + apply: (is_derive_scal_l (fun t => ln (c * v t))).
        apply: (is_derive_comp ln (fun t => c * v t) x).
        * apply is_derive_ln. by apply Rmult_lt_0_compat.
        * apply: is_derive_scal. apply Hv.
    - rewrite /minus /plus /opp /zero /scal /= /mult /=. field.
      repeat split; apply Rgt_not_eq; lra.
  Qed.
End KDEcell.

(* ---------------- the Gaussian KDE filter's sensitivities are the derivatives ---------------- *)
Lemma v_of_derive A B n x : n <> 0 -> n - 1 <> 0 ->
  is_derive (v_of A B n) x (2 * (x - m_of A n x) / (n - 1)).
Proof. move=> H0 H1. rewrite /v_of /m_of. auto_derive; first done. field. by split. Qed.

Lemma bwf_pos n : 0 < bwf n. Proof. apply exp_pos. Qed.

Theorem GKDE_grad_correct pre post x ys :
  let xs := pre ++ x :: post in
  1 < nR xs -> 0 < var xs ->
  is_derive (fun t => GKDE_cell (pre ++ t :: post) ys) x (GKDE_grad xs ys x).
Proof.
  move=> xs H1 Hvar.
  set n := nR xs. set A := Rsum pre + Rsum post.
  set B := Rsum (map (fun z => z^2) pre) + Rsum (map (fun z => z^2) post).
  set c := bwf n. have Hc : 0 < c by apply bwf_pos.
  set v := v_of A B n. set dv := fun t => 2 * (t - m_of A n t) / (n - 1).
  have Hn0 : n <> 0 by apply Rgt_not_eq; rewrite /n; lra.
  have Hn1 : n - 1 <> 0 by apply Rgt_not_eq; rewrite /n; lra.
  have Hv : forall t, is_derive v t (dv t) by move=> t; apply v_of_derive.
  have Hmv : forall t, mean (pre ++ t :: post) = m_of A n t /\ var (pre ++ t :: post) = v t.
  { move=> t. have := mean_v_middle pre post t. rewrite (nR_middle pre post t x) -/xs -/n -/A -/B. apply. rewrite /n. lra. }
  have [Em Ev] := Hmv x. rewrite -/xs in Em Ev.
  have Hvx : 0 < v x by rewrite -Ev.
  set K := ln n + ln2PI / 2.
  (* the cell as a sum of kF terms *)
  have Ecell : forall t, GKDE_cell (pre ++ t :: post) ys = Rsum (map (fun y => kF v c y pre post K t) ys).
  { move=> t. rewrite /GKDE_cell /bw2 (nR_middle pre post t x) -/xs -/n -/c. have [_ ->] := Hmv t.
    f_equal. apply map_ext => y. rewrite /kF /kS /lse /kde_scores /kg /K.
    rewrite map_map Rsum_map_middle. ring. }
  apply is_derive_ext with (fun t => Rsum (map (fun y => kF v c y pre post K t) ys)).
  { move=> t. by rewrite Ecell. }
  have -> : GKDE_grad xs ys x
            = Rsum (map (fun y => kdS v dv c y pre post x / kS v c y pre post x - dv x / (2 * v x)) ys).
  { rewrite /GKDE_grad /KDE_grad_z /bw2 -/n -/c Ev Em. f_equal. apply map_ext => y.
    set S := kS v c y pre post x. have HS : 0 < S by apply kS_pos.
    have Elist : kde_scores xs (c * v x) y = map (fun z => kg v c y z x) xs by rewrite /kde_scores /kg.
    have Else : lse (kde_scores xs (c * v x) y) = ln S.
    { rewrite Elist /lse map_map /xs Rsum_map_middle. reflexivity. }
    set L := map (fun z => kg v c y z x) (pre ++ x :: post).
    have ElseL : lse L = ln S by rewrite -Else Elist.
    have Esm : forall a, smax L a = exp a / S.
    { move=> a. rewrite /smax ElseL /Rminus exp_plus exp_Ropp exp_ln //. }
    rewrite Elist -/L map_map /xs Rsum_map_middle. cbv beta. rewrite !Esm.
    have Eq : forall z, kq v dv c y z x = - kg v c y z x * (dv x / v x).
    { move=> z. rewrite /kq /kg. field. split; apply Rgt_not_eq; lra. }
    rewrite /kdS.
    have E1 : forall l, Rsum (map (fun z => exp (kg v c y z x) * kq v dv c y z x) l)
                        = - (dv x / v x) * Rsum (map (fun z => exp (kg v c y z x) * kg v c y z x) l).
    { move=> l. rewrite -Rsum_map_scal. f_equal. apply map_ext => z. rewrite Eq. ring. }
    have E2 : forall l, Rsum (map (fun z => smax L (kg v c y z x) * kg v c y z x) l)
                        = / S * Rsum (map (fun z => exp (kg v c y z x) * kg v c y z x) l).
    { move=> l. rewrite -Rsum_map_scal. f_equal. apply map_ext => z. rewrite Esm /Rdiv. ring. }
    rewrite !E1 !E2 Eq.
    have -> : - (x - y)^2 / (c * v x) / 2 = kg v c y x x by rewrite /kg.
    have Hn1' : 0 < n - 1 by rewrite /n; lra.
    rewrite /dv. field. repeat split; apply Rgt_not_eq; lra. }
  apply (is_derive_Rsum ys (fun y t => kF v c y pre post K t)
           (fun y => kdS v dv c y pre post x / kS v c y pre post x - dv x / (2 * v x))).
  move=> y _. by apply kF_derive.
Qed.

(* ---------------- log-normal KDE filter: chain rule through the Gaussian KDE cell of the logarithms ---------------- *)
Lemma LNKDE_as_GKDE xs ys :
  LNKDE_cell xs ys = GKDE_cell (map ln xs) (map ln ys) - Rsum (map ln ys).
Proof.
  rewrite /LNKDE_cell /GKDE_cell. have -> : nR xs = nR (map ln xs) by rewrite /nR map_length.
  elim: ys => [|y l IH]; cbn [map Rsum]; first by ring.
  rewrite IH. ring.
Qed.

Theorem LNKDE_grad_correct pre post x ys :
  let xs := pre ++ x :: post in
  0 < x -> 1 < nR xs -> 0 < var (map ln xs) ->
  is_derive (fun t => LNKDE_cell (pre ++ t :: post) ys) x (LNKDE_grad xs ys x).
Proof.
  move=> xs Hx H1 Hv.
  apply is_derive_ext with
    (fun t => GKDE_cell (map ln pre ++ ln t :: map ln post) (map ln ys) - Rsum (map ln ys)).
  { move=> t. by rewrite LNKDE_as_GKDE map_app. }
  rewrite /LNKDE_grad.
  evar_last.
  - apply: is_derive_minus; last by apply: is_derive_const.
    apply: (is_derive_comp (fun u => GKDE_cell (map ln pre ++ u :: map ln post) (map ln ys)) ln x).
    + have := GKDE_grad_correct (map ln pre) (map ln post) (ln x) (map ln ys).
      rewrite /xs map_app /= in Hv.
      apply; last by exact Hv.
      have -> : nR (map ln pre ++ ln x :: map ln post) = nR xs by rewrite /nR /xs !app_length /= !map_length.
      exact H1.
    + apply is_derive_ln. exact Hx.
  - rewrite /minus /plus /opp /zero /scal /= /mult /= /GKDE_grad /xs map_app /=. field. lra.
Qed.

(* ---------------- the Gaussian mixture filter's sensitivities are the derivatives ---------------- *)
(* the mixture cell in terms of its blocks (GMIX_cell k m xs ys is this with bs = blocks k m xs) *)
Definition GMIX_cell_blocks (k : nat) (bs : list (list R)) (ys : list R) : R :=
  Rsum (map (fun y => lse (map (fun b => mix_score b y) bs) - ln (INR k) - ln2PI / 2) ys).
Lemma GMIX_cell_is_blocks k m xs ys : GMIX_cell k m xs ys = GMIX_cell_blocks k (blocks k m xs) ys.
Proof. by []. Qed.

(* score of one block as a function of one of its simulated values *)
Lemma mix_score_derive pre post x y :
  let b := pre ++ x :: post in
  1 < nR b -> 0 < var b ->
  is_derive (fun t => mix_score (pre ++ t :: post) y) x
            ((y - mean b) / var b / nR b + (- / var b + (y - mean b)^2 / (var b)^2) * (x - mean b) / (nR b - 1)).
Proof.
  move=> b H1 Hv.
  set n := nR b. set A := Rsum pre + Rsum post.
  set B := Rsum (map (fun z => z^2) pre) + Rsum (map (fun z => z^2) post).
  have Hmv : forall t, mean (pre ++ t :: post) = m_of A n t /\ var (pre ++ t :: post) = v_of A B n t.
  { move=> t. have := mean_v_middle pre post t. rewrite (nR_middle pre post t x) -/b -/n -/A -/B. apply. rewrite /n. lra. }
  have [Em Ev] := Hmv x. rewrite -/b in Em Ev.
  have Hvx : 0 < v_of A B n x by rewrite -Ev.
  apply is_derive_ext with
    (fun t => scal (- / 2) (ln2PI + ln (v_of A B n t) + (y - m_of A n t)^2 / v_of A B n t) + ln2PI / 2).
  { move=> t. rewrite /mix_score. have [-> ->] := Hmv t. rewrite /scal /= /mult /= /Rdiv. ring. }
  evar_last.
  - apply: is_derive_plus; last by apply: is_derive_const.
    apply: is_derive_scal. apply G_term_derive; [by rewrite /n | exact Hvx].
  - rewrite /plus /zero /scal /= /mult /= Em Ev. field.
    have Hn : 0 < n - 1 by rewrite /n; lra. repeat split; apply Rgt_not_eq; lra.
Qed.

Lemma lse_pos_sum l : l <> [] -> 0 < Rsum (map exp l).
Proof. by apply Rsum_exp_pos. Qed.

(* lse of a list one of whose entries moves *)
Lemma lse_middle_derive (f : R -> R) (d : R) pre post x :
  is_derive f x d ->
  is_derive (fun t => lse (pre ++ f t :: post)) x (smax (pre ++ f x :: post) (f x) * d).
Proof.
  move=> Hf. rewrite /lse /smax.
  have HS : forall t, 0 < Rsum (map exp (pre ++ f t :: post)) by move=> t; apply Rsum_exp_pos; case: (pre).
  apply is_derive_ext with (fun t => ln (Rsum (map exp pre) + exp (f t) + Rsum (map exp post))).
  { move=> t. by rewrite Rsum_map_middle. }
  evar_last.
  - apply: (is_derive_comp ln (fun t => Rsum (map exp pre) + exp (f t) + Rsum (map exp post)) x).
    + apply is_derive_ln. rewrite -Rsum_map_middle. apply HS.
    + apply: is_derive_plus; last by apply: is_derive_const.
      apply: is_derive_plus; first by apply: is_derive_const.
      apply: (is_derive_comp exp f x); [apply is_derive_exp | exact Hf].
  - rewrite /plus /zero /scal /= /mult /=. rewrite -Rsum_map_middle.
    rewrite /Rminus exp_plus exp_Ropp exp_ln; last by apply HS. field. apply Rgt_not_eq, HS.
Qed.

(* the mixture filter's sensitivity w.r.t. a simulated value x of block b = bpre ++ x :: bpost *)
Theorem GMIX_grad_correct k (bs1 bs2 : list (list R)) bpre bpost x ys :
  let b := bpre ++ x :: bpost in
  let bs := bs1 ++ b :: bs2 in
  1 < nR b -> 0 < var b ->
  is_derive (fun t => GMIX_cell_blocks k (bs1 ++ (bpre ++ t :: bpost) :: bs2) ys) x
            (Rsum (map (fun y =>
               smax (map (fun c => mix_score c y) bs) (mix_score b y)
               * ((y - mean b) / var b / nR b
                  + (- / var b + (y - mean b)^2 / (var b)^2) * (x - mean b) / (nR b - 1))) ys)).
Proof.
  move=> b bs H1 Hv. rewrite /GMIX_cell_blocks.
  apply (is_derive_Rsum ys
           (fun y t => lse (map (fun c => mix_score c y) (bs1 ++ (bpre ++ t :: bpost) :: bs2)) - ln (INR k) - ln2PI / 2)).
  move=> y _.
  evar_last.
  - apply: is_derive_minus; last by apply: is_derive_const.
    apply: is_derive_minus; last by apply: is_derive_const.
    apply is_derive_ext with
      (fun t => lse (map (fun c => mix_score c y) bs1 ++ mix_score (bpre ++ t :: bpost) y :: map (fun c => mix_score c y) bs2)).
    { move=> t. by rewrite map_app. }
    apply (lse_middle_derive (fun t => mix_score (bpre ++ t :: bpost) y)).
    by apply mix_score_derive.
  - rewrite /minus /plus /opp /zero /=. rewrite /bs /b map_app /=. ring.
Qed.

Theorem GMIX_grad_model k m xs ys (bs1 bs2 : list (list R)) bpre bpost x :
  let b := bpre ++ x :: bpost in
  blocks k m xs = bs1 ++ b :: bs2 -> nR b = INR m -> 1 < INR m -> 0 < var b ->
  is_derive (fun t => GMIX_cell_blocks k (bs1 ++ (bpre ++ t :: bpost) :: bs2) ys) x (GMIX_grad k m xs ys b x).
Proof.
  move=> b Eb En H1 Hv. rewrite /GMIX_grad Eb -En.
  apply GMIX_grad_correct; [by rewrite En | exact Hv].
Qed.
