(* C03: the gradient assembled by LogLikelihood.evaluateS1 / the posteriors is the derivative of the score. *)
From Coq Require Import Reals Lra List Arith ssreflect.
From Coquelicot Require Import Coquelicot.
From Chi Require Import Base.RSum Base.Score Model.ErrorModels Model.TimeGrid Model.LogLik Proofs.ErrorModels.
Import ListNotations.
Open Scope R_scope.

(* one output: its error model kind, error parameters and observations (each with the model output as a
   function of the mechanistic parameter that moves and the output sensitivity chi is handed) *)
Record output := { okind : ekind; opar : list R; oobs : list obs }.
Definition out_total (o : output) (t : R) : R :=
  let p := opar o in let ms := outs (oobs o) t in let ys := ysof (oobs o) in
  match okind o with
  | KG => G_total (nth 0 p 0) ms ys
  | KMG => MG_total (nth 0 p 0) ms ys
  | KCMG => CMG_total (nth 0 p 0) (nth 1 p 0) ms ys
  | KLN => LN_total (nth 0 p 0) ms ys
  end.
Definition out_dpsi (o : output) (x : R) : R :=
  let p := opar o in let ms := outs (oobs o) x in let ys := ysof (oobs o) in let col := sensof (oobs o) in
  match okind o with
  | KG => G_dpsi (nth 0 p 0) ms ys col
  | KMG => MG_dpsi (nth 0 p 0) ms ys col
  | KCMG => CMG_dpsi (nth 0 p 0) (nth 1 p 0) ms ys col
  | KLN => LN_dpsi (nth 0 p 0) ms ys col
  end.
(* inside the support, with differentiable outputs *)
Definition out_ok (o : output) (x : R) : Prop :=
  let p := opar o in
  (forall b, In b (oobs o) -> is_derive (out b) x (sens b)) /\
  match okind o with
  | KG => 0 < nth 0 p 0
  | KMG => forall b, In b (oobs o) -> 0 < nth 0 p 0 * out b x
  | KCMG => forall b, In b (oobs o) -> 0 < nth 0 p 0 + nth 1 p 0 * out b x
  | KLN => 0 < nth 0 p 0 /\ forall b, In b (oobs o) -> 0 < out b x
  end.

Lemma out_dpsi_correct o x : out_ok o x -> is_derive (out_total o) x (out_dpsi o x).
Proof.
  rewrite /out_ok /out_total /out_dpsi. case: (okind o) => [[Hd Hs]|[Hd Hs]|[Hd Hs]|[Hd [Hs Hp]]].
  - by apply G_dpsi_correct.
  - apply MG_dpsi_correct => b Hb. split; [by apply Hs | by apply Hd].
  - apply CMG_dpsi_correct => b Hb. split; [by apply Hs | by apply Hd].
  - apply LN_dpsi_correct => // b Hb. split; [by apply Hp | by apply Hd].
Qed.

(* the mechanistic block: the k-th entry accumulates, over ALL outputs, the error model's sensitivity through
   that output's own predictions; it is the partial derivative of the total score *)
Theorem ll_dmech_correct (os : list output) x : (forall o, In o os -> out_ok o x) ->
  is_derive (fun t => Rsum (map (fun o => out_total o t) os)) x (Rsum (map (fun o => out_dpsi o x) os)).
Proof.
  move=> H. apply (is_derive_Rsum os (fun o t => out_total o t) (fun o => out_dpsi o x)) => o Ho.
  by apply out_dpsi_correct, H.
Qed.

(* an error parameter only enters its own output's term: whatever the other outputs contribute (A), the
   entry placed at that parameter's slot is the partial derivative *)
Theorem ll_derr_G A s ms ys : 0 < s -> length ms = length ys ->
  is_derive (fun t => A + G_total t ms ys) s (G_dsigma s ms ys).
Proof.
  move=> Hs Hl. evar_last; first by apply: is_derive_plus; [apply: is_derive_const | apply G_dsigma_correct].
  rewrite /plus /zero /=. ring.
Qed.
Theorem ll_derr_LN A s ms ys : 0 < s -> length ms = length ys ->
  is_derive (fun t => A + LN_total t ms ys) s (LN_dsigma s ms ys).
Proof.
  move=> Hs Hl. evar_last; first by apply: is_derive_plus; [apply: is_derive_const | apply LN_dsigma_correct].
  rewrite /plus /zero /=. ring.
Qed.
Theorem ll_derr_MG A sr ms ys : length ms = length ys -> (forall m, In m ms -> 0 < sr * m) ->
  is_derive (fun t => A + MG_total t ms ys) sr (MG_dsigma sr ms ys).
Proof.
  move=> Hl Hs. evar_last; first by apply: is_derive_plus; [apply: is_derive_const | apply MG_dsigma_correct].
  rewrite /plus /zero /=. ring.
Qed.
Theorem ll_derr_CMG_base A sb sr ms ys : length ms = length ys -> (forall m, In m ms -> 0 < sb + sr * m) ->
  is_derive (fun t => A + CMG_total t sr ms ys) sb (CMG_dsb sb sr ms ys).
Proof.
  move=> Hl Hs. evar_last; first by apply: is_derive_plus; [apply: is_derive_const | apply CMG_dsb_correct].
  rewrite /plus /zero /=. ring.
Qed.
Theorem ll_derr_CMG_rel A sb sr ms ys : length ms = length ys -> (forall m, In m ms -> 0 < sb + sr * m) ->
  is_derive (fun t => A + CMG_total sb t ms ys) sr (CMG_dsr sb sr ms ys).
Proof.
  move=> Hl Hs. evar_last; first by apply: is_derive_plus; [apply: is_derive_const | apply CMG_dsr_correct].
  rewrite /plus /zero /=. ring.
Qed.

(* posteriors: the prior's sensitivity is added to the likelihood's (sum rule), for any differentiable prior *)
Theorem posterior_sum_rule (L P : R -> R) x dL dP : is_derive L x dL -> is_derive P x dP ->
  is_derive (fun t => L t + P t) x (dL + dP).
Proof. move=> HL HP. by apply: is_derive_plus. Qed.

(* the score returned with the sensitivities is the plain score, and both are -inf on the same inputs, for
   every error model kind *)
Theorem em_S1_score_agrees k p ms ys cols : fst (em_S1 k p ms ys cols) = em_ll k p ms ys.
Proof.
  case: k; rewrite /em_S1 /em_ll.
  - rewrite /G_S1 /G_ll. by case: Rle_dec.
  - rewrite /MG_S1 /MG_ll. by case: Rle_dec.
  - rewrite /CMG_S1 /CMG_ll. by case: CMG_guard.
  - rewrite /LN_S1 /LN_ll. by case: LN_guard.
Qed.

Lemma map_snd_combine_seq {A} (l : list A) : forall a n, (length l <= n)%nat ->
  map snd (combine (seq a n) l) = l.
Proof.
  elim: l => [|x l IH] a n Hn; first by case: (seq a n).
  case: n Hn => [|n] Hn /=; first by inversion Hn.
  rewrite IH //. by apply le_S_n.
Qed.

(* LogLikelihood: evaluateS1's score is __call__'s score (same -inf cases), for any number of outputs *)
Theorem ll_S1_score_agrees pred sens n_mech ks ts obs th :
  fst (ll_S1_spec pred sens n_mech ks ts obs th) = ll_spec pred n_mech ks ts obs th.
Proof.
  rewrite /ll_S1_spec /ll_spec. cbn [fst]. f_equal. rewrite map_map.
  set cs := calls_spec pred n_mech (map n_err ks) ts obs th.
  rewrite -[in RHS](map_snd_combine_seq (combine ks cs) 0 (length ks)).
  - rewrite map_map. apply map_ext => [[o [k c]]]. cbn [fst snd]. by rewrite em_S1_score_agrees.
  - rewrite combine_length. apply Nat.le_min_l.
Qed.
