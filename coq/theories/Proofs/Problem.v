(* Proofs about Model/Problem.v. *)
From Coq Require Import List Bool String QArith Lia Permutation.
From Chi Require Import Model.Problem.
Import ListNotations.

Lemma keep_app {A B} (f : A -> option B) l l' : keep f (l ++ l') = keep f l ++ keep f l'.
Proof. induction l as [|x t IH]; cbn; [reflexivity|]. destruct (f x); cbn; now rewrite IH. Qed.
Lemma keep_In {A B} (f : A -> option B) l y : In y (keep f l) <-> exists x, In x l /\ f x = Some y.
Proof.
  induction l as [|x t IH]; cbn.
  - split; [contradiction|]. intros [x [[] _]].
  - destruct (f x) eqn:E; cbn; rewrite IH; split.
    + intros [->|[x' [I Ex]]]; [exists x; split; [now left|exact E]|exists x'; split; [now right|exact Ex]].
    + intros [x' [[->|I] Ex]]; [left; congruence|right; exists x'; split; assumption].
    + intros [x' [I Ex]]. exists x'. split; [now right|exact Ex].
    + intros [x' [[->|I] Ex]]; [congruence|exists x'; split; assumption].
Qed.

(* (1) exactly the individual's own non-missing measurements of the mapped observable, at their own times *)
Theorem measurements_spec d i o t v :
  In (t, v) (measurements d i o) <->
  exists r, In r d /\ r_id r = i /\ r_obs r = Some o /\ r_time r = Some t /\ r_value r = Some v.
Proof.
  unfold measurements. rewrite keep_In. split.
  - intros [r [I M]]. apply filter_In in I. destruct I as [I Ho]. apply filter_In in I. destruct I as [I Hi].
    exists r. unfold has_id in Hi. apply String.eqb_eq in Hi. unfold has_obs in Ho.
    destruct (r_obs r) as [o'|] eqn:Eo; [|discriminate]. apply String.eqb_eq in Ho. subst o'.
    unfold measurement in M. destruct (r_time r), (r_value r); try discriminate. inversion M; subst.
    repeat split; auto.
  - intros [r (I & Hi & Ho & Ht & Hv)]. exists r. split.
    + apply filter_In. split; [apply filter_In; split; [exact I|]|].
      * unfold has_id. now apply String.eqb_eq.
      * unfold has_obs. rewrite Ho. apply String.eqb_refl.
    + unfold measurement. now rewrite Ht, Hv.
Qed.

(* (2) row order is kept, and the result is a function of the individual's own rows only *)
Theorem measurements_app d d' i o : measurements (d ++ d') i o = measurements d i o ++ measurements d' i o.
Proof. unfold measurements. now rewrite !filter_app, keep_app. Qed.
Theorem regimen_app d d' i : regimen (d ++ d') i = regimen d i ++ regimen d' i.
Proof. unfold regimen. now rewrite filter_app, keep_app. Qed.
Theorem covariate_app d d' i c : covariate_values (d ++ d') i c = covariate_values d i c ++ covariate_values d' i c.
Proof. unfold covariate_values. now rewrite !filter_app, keep_app. Qed.

Lemma filter_filter_id i d : filter (has_id i) (filter (has_id i) d) = filter (has_id i) d.
Proof. induction d as [|r t IH]; cbn; [reflexivity|]. destruct (has_id i r) eqn:E; cbn; [rewrite E|]; now rewrite ?IH. Qed.
Theorem own_rows_only d d' i :
  filter (has_id i) d = filter (has_id i) d' ->
  (forall o, measurements d i o = measurements d' i o) /\ regimen d i = regimen d' i /\
  (forall c, covariate_values d i c = covariate_values d' i c).
Proof. intros E. unfold measurements, regimen, covariate_values. rewrite E. repeat split. Qed.

(* (3) unrelated rows change nothing: a row of another individual, of an unmapped observable, or with a missing
   time or value contributes no measurement; a row without dose (or time) contributes no dose event *)
Definition irrelevant_measurement (r : row) (i o : string) : Prop :=
  r_id r <> i \/ r_obs r <> Some o \/ r_time r = None \/ r_value r = None.
Theorem unrelated_row_measurements d d' r i o :
  irrelevant_measurement r i o -> measurements (d ++ r :: d') i o = measurements (d ++ d') i o.
Proof.
  intros H. rewrite !measurements_app. f_equal. change (r :: d') with ([r] ++ d'). rewrite measurements_app.
  assert (E : measurements [r] i o = []); [|now rewrite E].
  unfold measurements. cbn. unfold has_id. destruct (String.eqb (r_id r) i) eqn:Ei; cbn; [|reflexivity].
  unfold has_obs. destruct (r_obs r) as [o'|] eqn:Eo; cbn; [|reflexivity].
  destruct (String.eqb o' o) eqn:Eo'; cbn; [|reflexivity].
  apply String.eqb_eq in Ei, Eo'. subst. unfold measurement.
  destruct H as [H|[H|[H|H]]]; try congruence; rewrite H; [reflexivity|]. now destruct (r_time r).
Qed.
Theorem unrelated_row_regimen d d' r i :
  (r_id r <> i \/ r_dose r = None \/ r_time r = None) -> regimen (d ++ r :: d') i = regimen (d ++ d') i.
Proof.
  intros H. rewrite !regimen_app. f_equal. change (r :: d') with ([r] ++ d'). rewrite regimen_app.
  assert (E : regimen [r] i = []); [|now rewrite E].
  unfold regimen. cbn. unfold has_id. destruct (String.eqb (r_id r) i) eqn:Ei; cbn; [|reflexivity].
  apply String.eqb_eq in Ei. unfold dose_event.
  destruct H as [H|[H|H]]; try congruence; rewrite H; [reflexivity|]. now destruct (r_dose r).
Qed.

(* (4) every dose row of the individual becomes one event that starts at the row's time and delivers the row's
   amount over the given duration — 0.01 time units (a bolus) when none is given *)
Theorem regimen_spec d i lv st du :
  In (lv, st, du) (regimen d i) <->
  exists r a, In r d /\ r_id r = i /\ r_dose r = Some a /\ r_time r = Some st /\
              du = (match r_dur r with Some x => x | None => default_duration end) /\ lv = a / du.
Proof.
  unfold regimen. rewrite keep_In. split.
  - intros [r [I M]]. apply filter_In in I. destruct I as [I Hi]. apply String.eqb_eq in Hi.
    unfold dose_event in M. destruct (r_dose r) as [a|] eqn:Ea; [|discriminate].
    destruct (r_time r) as [t|] eqn:Et; [|discriminate]. inversion M; subst. exists r, a. repeat split; auto.
  - intros [r [a (I & Hi & Ha & Ht & Hd & Hl)]]. exists r. split.
    + apply filter_In. split; [exact I|]. unfold has_id. now apply String.eqb_eq.
    + unfold dose_event. rewrite Ha, Ht. subst. reflexivity.
Qed.
Theorem event_delivers_amount (a du : Q) : ~ du == 0 -> (a / du) * du == a.
Proof. intros H. field. exact H. Qed.

(* (5) IDs: every ID of the dataset exactly once, in order of first appearance; depends on the ID column only *)
Lemma uniq_In seen l x : In x (uniq seen l) <-> In x l /\ ~ In x seen.
Proof.
  revert seen; induction l as [|y t IH]; intros seen; cbn.
  - split; [contradiction|intros [[] _]].
  - destruct (existsb (String.eqb y) seen) eqn:E.
    + rewrite IH. apply existsb_exists in E. destruct E as [z [Iz Ez]]. apply String.eqb_eq in Ez. subst z.
      split; [intros [I N]; split; [now right|exact N]|]. intros [[->|I] N]; [contradiction|split; assumption].
    + cbn. rewrite IH. split.
      * intros [->|[I N]]; [split; [now left|]|split; [now right|]].
        -- intros I. assert (X : existsb (String.eqb x) seen = true); [|congruence].
           apply existsb_exists. exists x. split; [exact I|apply String.eqb_refl].
        -- intros I'. apply N. now right.
      * intros [[->|I] N]; [now left|].
        destruct (String.eqb x y) eqn:Exy; [apply String.eqb_eq in Exy; now left|].
        right. split; [exact I|]. intros [->|I']; [now rewrite String.eqb_refl in Exy|contradiction].
Qed.
Lemma uniq_NoDup seen l : NoDup (uniq seen l).
Proof.
  revert seen; induction l as [|y t IH]; intros seen; cbn; [constructor|].
  destruct (existsb (String.eqb y) seen); [apply IH|]. constructor; [|apply IH].
  intros I. apply uniq_In in I. destruct I as [_ N]. apply N. now left.
Qed.
Theorem ids_spec d : NoDup (ids d) /\ (forall i, In i (ids d) <-> exists r, In r d /\ r_id r = i).
Proof.
  split; [apply uniq_NoDup|]. intros i. unfold ids. rewrite uniq_In. rewrite in_map_iff. split.
  - intros [[r [E I]] _]. now exists r.
  - intros [r [I E]]. split; [now exists r|intros []].
Qed.
Lemma uniq_app seen l l' : uniq seen (l ++ l') = uniq seen l ++ uniq (rev (uniq seen l) ++ seen) l'.
Proof.
  revert seen; induction l as [|y t IH]; intros seen; cbn; [reflexivity|].
  destruct (existsb (String.eqb y) seen) eqn:E; [apply IH|].
  cbn. f_equal. rewrite IH. f_equal. rewrite <- app_assoc. reflexivity.
Qed.
(* first-appearance order: the IDs of a prefix come first, in their order *)
Theorem ids_prefix d d' : exists rest, ids (d ++ d') = ids d ++ rest.
Proof. unfold ids. rewrite map_app, uniq_app. eexists. reflexivity. Qed.
Theorem ids_column_only d d' : map r_id d = map r_id d' -> ids d = ids d'.
Proof. unfold ids. now intros ->. Qed.

(* (6) the whole routing is invariant under any rearrangement of rows that keeps the ID column's first-appearance
   order and every individual's own row order (e.g. interleaving or un-interleaving individuals' blocks) *)
Theorem routed_rearranged d d' obs cov :
  ids d = ids d' -> (forall i, filter (has_id i) d = filter (has_id i) d') ->
  routed d obs cov = routed d' obs cov.
Proof.
  intros Ei H. unfold routed. rewrite <- Ei. apply map_ext. intros i.
  destruct (own_rows_only d d' i (H i)) as (Hm & Hr & Hc).
  rewrite Hr. f_equal; [f_equal; f_equal; apply map_ext; intros o; apply Hm|apply map_ext; intros c; apply Hc].
Qed.

(* ---------------- row labels ---------------- *)
Lemma loc_single (f : lframe) l r : NoDup (map fst f) -> In (l, r) f ->
  map snd (filter (fun lr => Nat.eqb (fst lr) l) f) = [r].
Proof.
  induction f as [|[l' r'] f IH]; intros ND H; [destruct H|].
  inversion ND as [|? ? Hl ND']; subst. cbn [filter fst].
  destruct (Nat.eqb l' l) eqn:E.
  - apply Nat.eqb_eq in E. subst l'. destruct H as [H|H].
    + inversion H; subst. cbn [map snd]. f_equal.
      assert (G : filter (fun lr : nat * row => Nat.eqb (fst lr) l) f = []).
      { clear -Hl. induction f as [|[a b] f IHf]; [reflexivity|]. cbn [filter fst].
        destruct (Nat.eqb a l) eqn:Ea.
        - apply Nat.eqb_eq in Ea. subst. exfalso. apply Hl. left. reflexivity.
        - apply IHf. intros Hin. apply Hl. right. exact Hin. }
      rewrite G. reflexivity.
    + exfalso. apply Hl. apply (in_map fst) in H. exact H.
  - destruct H as [H|H]; [inversion H; subst; rewrite Nat.eqb_refl in E; discriminate|].
    apply IH; assumption.
Qed.

(* with unique labels, selecting by the labels of the matching rows is selecting the matching rows *)
Theorem label_select_unique (p : row -> bool) (f : lframe) :
  NoDup (map fst f) -> label_select p f = mask_select p f.
Proof.
  intros ND. unfold label_select, mask_select, labels_where, loc, rows_of.
  assert (G : forall g, (forall x, In x g -> In x f) ->
     flat_map (fun l => map snd (filter (fun lr => Nat.eqb (fst lr) l) f)) (map fst (filter (fun lr => p (snd lr)) g))
     = filter p (map snd g)).
  { induction g as [|[l r] g IH]; intros Hsub; [reflexivity|].
    cbn [filter map snd fst]. destruct (p r) eqn:Ep.
    - cbn [map fst flat_map]. rewrite (loc_single f l r ND (Hsub _ (or_introl eq_refl))).
      cbn [app]. f_equal. apply IH. intros x Hx. apply Hsub. right. exact Hx.
    - apply IH. intros x Hx. apply Hsub. right. exact Hx. }
  apply G. auto.
Qed.

(* with repeated labels it is not: rows of other individuals come along *)
Theorem label_select_refuted : exists (p : row -> bool) (f : lframe), label_select p f <> mask_select p f.
Proof.
  pose (ra := {| r_id := "a"%string; r_time := Some 1%Q; r_obs := None; r_value := None; r_dose := None; r_dur := None |}).
  pose (rb := {| r_id := "b"%string; r_time := Some 2%Q; r_obs := None; r_value := None; r_dose := None; r_dur := None |}).
  exists (has_id "a"%string), [(0%nat, ra); (0%nat, rb)]. cbv. discriminate.
Qed.
