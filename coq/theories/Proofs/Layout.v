(* Proofs about Model/Layout.v (C17, C02).  Axiom-free. *)
From Coq Require Import List Arith Lia Bool.
From Chi Require Import Model.Layout.
Import ListNotations.

Section NamesProofs.
Variable N : Type.
Variables (nm_param : nat -> kind -> nat -> nat -> N) (nm_cov : nat -> nat -> nat -> nat -> N)
          (nm_dim : nat -> N) (nm_id : nat -> N -> N).
Notation names_base := (names_base N nm_param).
Notation names_cov := (names_cov N nm_cov).
Notation names_sub := (names_sub N nm_param nm_cov).
Notation names_top := (names_top N nm_param nm_cov).
Notation names_bottom1 := (names_bottom1 N nm_dim).
Notation names := (names N nm_param nm_cov nm_dim nm_id).
Lemma length_flat_map_const {A B} (f : A -> list B) (l : list A) k :
  (forall a, length (f a) = k) -> length (flat_map f l) = length l * k.
Proof. intros H. induction l as [|a l IH]; cbn [flat_map length]; [reflexivity|]. rewrite app_length, H, IH. lia. Qed.

Lemma length_names_base n_ids i s : length (names_base n_ids i s) = n_base n_ids s.
Proof.
  unfold names_base. rewrite (length_flat_map_const _ _ (sdim s)); [|intros; now rewrite map_length, seq_length].
  rewrite seq_length. unfold rows, n_base. destruct (sk s); lia.
Qed.
Lemma length_names_cov i s : length (names_cov i s) = n_covp s.
Proof.
  unfold names_cov, n_covp. destruct (scov s) as [[nc sel]|]; [|reflexivity].
  apply length_flat_map_const. intros; now rewrite map_length, seq_length.
Qed.
Lemma length_names_top n_ids c : forall i, length (names_top n_ids i c) = N_top n_ids c.
Proof.
  induction c as [|s c IH]; intros i; cbn [names_top]; [reflexivity|].
  unfold names_sub. rewrite !app_length, length_names_base, length_names_cov, IH. reflexivity.
Qed.
Lemma length_names_bottom1 c : forall start, length (names_bottom1 start c) = N_hdim c.
Proof.
  induction c as [|s c IH]; intros start; cbn [names_bottom1]; [reflexivity|].
  rewrite app_length, IH. unfold N_hdim at 2. cbn [sum_of fold_right]. unfold n_hdim at 1.
  destruct (special (sk s)); cbn [length]; [reflexivity|]. now rewrite map_length, seq_length.
Qed.

Theorem C17_lengths n_ids c :
  length (names n_ids c) = N_parameters n_ids c /\ length (ids n_ids c) = N_parameters n_ids c.
Proof.
  unfold names, ids, N_parameters, N_bottom. rewrite !app_length, length_names_top, repeat_length. split.
  - rewrite (length_flat_map_const _ _ (N_hdim c)); [|intros; now rewrite map_length, length_names_bottom1]. now rewrite seq_length.
  - rewrite (length_flat_map_const _ _ (N_hdim c)); [|intros; apply repeat_length]. now rewrite seq_length.
Qed.

(* ids mark exactly the bottom block *)
Theorem C17_ids_mark_bottom n_ids c k :
  k < N_parameters n_ids c -> (nth k (ids n_ids c) None <> None <-> k < N_bottom n_ids c).
Proof.
  intros Hk. unfold ids.
  assert (L : length (flat_map (fun i => repeat (Some i) (N_hdim c)) (seq 0 n_ids)) = N_bottom n_ids c).
  { rewrite (length_flat_map_const _ _ (N_hdim c)); [|intros; apply repeat_length]. now rewrite seq_length. }
  destruct (Nat.lt_ge_cases k (N_bottom n_ids c)) as [H|H].
  - rewrite app_nth1 by lia. split; [auto|]. intros _.
    assert (F : Forall (fun o => o <> None) (flat_map (fun i => repeat (Some i) (N_hdim c)) (seq 0 n_ids))).
    { apply Forall_flat_map. apply Forall_forall. intros i _. apply Forall_forall. intros o Ho. apply repeat_spec in Ho. now subst. }
    rewrite Forall_forall in F. apply F. apply nth_In. lia.
  - rewrite app_nth2 by lia. rewrite nth_repeat. split; [congruence | lia].
Qed.
End NamesProofs.

Section ShapeProofs.
Variable V : Type.
Notation shape := (shape V).
Notation gather := (gather V).
Lemma nth_error_map_Some {A} (l : list A) k :
  nth_error (map Some l) k = match nth_error l k with Some v => Some (Some v) | None => None end.
Proof. rewrite nth_error_map. destruct (nth_error l k); reflexivity. Qed.

Lemma nth_error_skipn {A} (l : list A) a k : nth_error (skipn a l) k = nth_error l (a + k).
Proof. revert l; induction a as [|a IH]; intros l; simpl; [reflexivity|]. destruct l; [destruct k; reflexivity|]. apply IH. Qed.

Lemma nth_error_firstn {A} (l : list A) a k : k < a -> nth_error (firstn a l) k = nth_error l k.
Proof. revert l k; induction a as [|a IH]; intros l k H; [lia|]. destruct l; [destruct k; reflexivity|]. destruct k; simpl; [reflexivity|]. apply IH; lia. Qed.

Lemma nth_error_repeat_None k n : k < n -> nth_error (repeat (@None V) n) k = Some None.
Proof. revert k; induction n as [|n IH]; intros k H; [lia|]. destruct k; simpl; [reflexivity|]. apply IH; lia. Qed.

(* generalised statement with the loop invariant: shift = number of special dims below start,
   all entries of sp lie at or above start, row long enough *)
Lemma shape_gather_gen : forall sp start shift row n_dim d,
  wf start sp n_dim -> shift <= start ->
  length row = n_dim - (shift + n_special sp) -> shift + n_special sp <= n_dim ->
  start <= d -> d < n_dim ->
  nth_error (shape sp start shift row) (d - start) =
    (if is_special sp d then Some None
     else match nth_error row (d - (shift + special_below sp d)) with Some v => Some (Some v) | None => None end).
Proof.
  induction sp as [|[s0 s1] rest IH]; intros start shift row n_dim d Hwf Hsh Hlen Hn Hd Hdn; simpl in *.
  - rewrite nth_error_map_Some, nth_error_skipn. f_equal. replace (start - shift + (d - start)) with (d - (shift + 0)) by lia. reflexivity.
  - destruct Hwf as (H0 & H1 & Hwf).
    assert (Hlen1 : length (map Some (firstn (s0 - start) (skipn (start - shift) row))) = s0 - start).
    { rewrite map_length, firstn_length, skipn_length.
      assert (Hs1 : s1 + n_special rest <= n_dim). { clear -Hwf. revert s1 Hwf. induction rest as [|[a b] r IHr]; simpl; intros; [lia|]. destruct Hwf as (?&?&?). specialize (IHr _ H1). lia. }
      lia. }
    destruct (d <? s0) eqn:E0; [apply Nat.ltb_lt in E0 | apply Nat.ltb_ge in E0].
    + (* leading regular dims *)
      rewrite nth_error_app1 by lia.
      replace ((s0 <=? d) && (d <? s1)) with false by (symmetry; apply andb_false_iff; left; apply Nat.leb_gt; lia).
      simpl.
      assert (Hr : is_special rest d = false /\ special_below rest d = 0).
      { clear -Hwf E0 H1. revert s1 Hwf H1. induction rest as [|[a b] r IHr]; simpl; intros s1 Hwf H1; [auto|].
        destruct Hwf as (Ha & Hb & Hwf). destruct (IHr b Hwf ltac:(lia)) as [E1 E2].
        replace (a <=? d) with false by (symmetry; apply Nat.leb_gt; lia). rewrite E1.
        replace (d <? a) with true by (symmetry; apply Nat.ltb_lt; lia). rewrite E2. auto. }
      destruct Hr as [-> ->].
      rewrite nth_error_map_Some, nth_error_firstn by lia. rewrite nth_error_skipn.
      replace (start - shift + (d - start)) with (d - (shift + (0 + 0))) by lia. reflexivity.
    + rewrite nth_error_app2 by lia. rewrite Hlen1.
      destruct (d <? s1) eqn:E1; [apply Nat.ltb_lt in E1 | apply Nat.ltb_ge in E1].
      * (* inside the special range *)
        replace (s0 <=? d) with true by (symmetry; apply Nat.leb_le; lia).
        simpl. rewrite nth_error_app1 by (rewrite repeat_length; lia).
        apply nth_error_repeat_None. lia.
      * rewrite andb_false_r.
        simpl. rewrite nth_error_app2 by (rewrite repeat_length; lia). rewrite repeat_length.
        replace (d - start - (s0 - start) - (s1 - s0)) with (d - s1) by lia.
        rewrite (IH s1 (shift + (s1 - s0)) row n_dim d); try lia; try assumption.
        replace (shift + (s1 - s0) + special_below rest d) with (shift + (s1 - s0 + special_below rest d)) by lia.
        reflexivity.
Qed.

Theorem shape_eta_is_gather : forall sp row n_dim d,
  wf 0 sp n_dim -> length row = n_dim - n_special sp -> n_special sp <= n_dim -> d < n_dim ->
  nth_error (shape sp 0 0 row) d = gather sp row d.
Proof.
  intros sp row n_dim d Hwf Hlen Hn Hd. unfold gather.
  pose proof (shape_gather_gen sp 0 0 row n_dim d Hwf (le_n 0)) as H. simpl in H.
  rewrite Nat.sub_0_r in H. apply H; try lia.
Qed.
End ShapeProofs.

(* the special ranges of ANY composition are well formed, and the number of special dimensions is
   N_dim - N_hdim, so the gather theorem applies to every composition *)
Lemma wf_weaken_start sp : forall a b n, a <= b -> wf b sp n -> wf a sp n.
Proof.
  destruct sp as [|[x y] l]; cbn [wf]; intros a b n Hab H; [lia | intuition lia].
Qed.

Lemma N_dim_cons s c : N_dim (s :: c) = sdim s + N_dim c. Proof. reflexivity. Qed.
Lemma N_hdim_cons s c : N_hdim (s :: c) = n_hdim s + N_hdim c. Proof. reflexivity. Qed.

Lemma special_ranges_wf c : forall start, wf start (special_ranges start c) (start + N_dim c).
Proof.
  induction c as [|s c IH]; intros start.
  - cbn. lia.
  - rewrite N_dim_cons. cbn [special_ranges]. specialize (IH (start + sdim s)).
    replace (start + (sdim s + N_dim c)) with (start + sdim s + N_dim c) by lia.
    destruct (special (sk s)); cbn [app wf].
    + repeat split; try lia. exact IH.
    + apply (wf_weaken_start _ start (start + sdim s)); [lia | exact IH].
Qed.

Lemma n_special_app a b : n_special (a ++ b) = n_special a + n_special b.
Proof. induction a as [|[x y] a IH]; cbn [app n_special]; [reflexivity | rewrite IH; lia]. Qed.

Lemma special_ranges_count c : forall start, n_special (special_ranges start c) + N_hdim c = N_dim c.
Proof.
  induction c as [|s c IH]; intros start; [reflexivity|].
  rewrite N_dim_cons, N_hdim_cons. cbn [special_ranges]. rewrite n_special_app. specialize (IH (start + sdim s)).
  unfold n_hdim. destruct (special (sk s)); cbn [n_special]; lia.
Qed.

(* C02: for every composition, every position d of the reshaped row is either a dummy column of a special
   dimension or holds the bottom-level entry number (d - number of special dimensions below d) *)
Theorem shape_eta_composition (V : Type) (c : comp) (row : list V) d :
  length row = N_hdim c -> d < N_dim c ->
  nth_error (shape V (special_ranges 0 c) 0 0 row) d = gather V (special_ranges 0 c) row d.
Proof.
  intros Hl Hd. apply (shape_eta_is_gather V (special_ranges 0 c) row (N_dim c) d).
  - apply (special_ranges_wf c 0).
  - pose proof (special_ranges_count c 0). lia.
  - pose proof (special_ranges_count c 0). lia.
  - exact Hd.
Qed.

(* ---------------- distinct parameters carry distinct names ---------------- *)
Lemma NoDup_app_intro {A} (l1 l2 : list A) :
  NoDup l1 -> NoDup l2 -> (forall x, In x l1 -> In x l2 -> False) -> NoDup (l1 ++ l2).
Proof.
  induction l1 as [|a l1 IH]; intros H1 H2 Hd; cbn [app]; [assumption|].
  inversion H1 as [|? ? Hn H1']; subst. constructor.
  - rewrite in_app_iff. intros [H|H]; [contradiction | apply (Hd a); [now left | assumption]].
  - apply IH; try assumption. intros x Hx1 Hx2. apply (Hd x); [now right | assumption].
Qed.

Lemma NoDup_flat_map_intro {A B} (f : A -> list B) (l : list A) :
  NoDup l -> (forall a, In a l -> NoDup (f a)) ->
  (forall a b x, In a l -> In b l -> a <> b -> In x (f a) -> In x (f b) -> False) ->
  NoDup (flat_map f l).
Proof.
  induction l as [|a l IH]; intros Hl Hf Hd; cbn [flat_map]; [constructor|].
  inversion Hl as [|? ? Hn Hl']; subst. apply NoDup_app_intro.
  - apply Hf. now left.
  - apply IH; [assumption | intros; apply Hf; now right |].
    intros b c x Hb Hc Hbc. apply (Hd b c x); [now right | now right | assumption].
  - intros x Hx1 Hx2. apply in_flat_map in Hx2. destruct Hx2 as [b [Hb Hxb]].
    apply (Hd a b x); [now left | now right | | assumption | assumption]. intros ->. contradiction.
Qed.

Lemma NoDup_map_inj {A B} (f : A -> B) (l : list A) :
  (forall a b, In a l -> In b l -> f a = f b -> a = b) -> NoDup l -> NoDup (map f l).
Proof.
  induction l as [|a l IH]; intros Hinj Hl; cbn [map]; [constructor|].
  inversion Hl as [|? ? Hn Hl']; subst. constructor.
  - intros Hin. apply in_map_iff in Hin. destruct Hin as [b [E Hb]].
    assert (b = a) by (apply Hinj; [now right | now left | assumption]). subst. contradiction.
  - apply IH; [|assumption]. intros x y Hx Hy. apply Hinj; now right.
Qed.

Section Unique.
Variable N : Type.
Variables (nm_param : nat -> kind -> nat -> nat -> N) (nm_cov : nat -> nat -> nat -> nat -> N)
          (nm_dim : nat -> N) (nm_id : nat -> N -> N).
(* the naming scheme is injective and its three families are disjoint (true of chi's default names once the
   dimension names are distinct, cf. harness/c17.py which checks chi's actual strings) *)
Hypothesis id_inj : forall i j a b, nm_id i a = nm_id j b -> i = j /\ a = b.
Hypothesis dim_inj : forall d e, nm_dim d = nm_dim e -> d = e.
Hypothesis param_inj : forall i k p d i' k' p' d', nm_param i k p d = nm_param i' k' p' d' -> i = i' /\ p = p' /\ d = d'.
Hypothesis cov_inj : forall i p d c i' p' d' c', nm_cov i p d c = nm_cov i' p' d' c' -> i = i' /\ p = p' /\ d = d' /\ c = c'.
Hypothesis id_param : forall i a j k p d, nm_id i a <> nm_param j k p d.
Hypothesis id_cov : forall i a j p d c, nm_id i a <> nm_cov j p d c.
Hypothesis param_cov : forall i k p d j p' d' c, nm_param i k p d <> nm_cov j p' d' c.

Notation names_base := (names_base N nm_param).
Notation names_cov := (names_cov N nm_cov).
Notation names_sub := (names_sub N nm_param nm_cov).
Notation names_top := (names_top N nm_param nm_cov).
Notation names_bottom1 := (names_bottom1 N nm_dim).
Notation names := (names N nm_param nm_cov nm_dim nm_id).

Definition sel_ok (s : sub) : Prop := match scov s with Some (_, sel) => NoDup sel | None => True end.

Lemma in_names_base n_ids i s x : In x (names_base n_ids i s) -> exists p d, x = nm_param i (sk s) p d.
Proof.
  unfold Layout.names_base. intros H. apply in_flat_map in H. destruct H as [p [_ H]].
  apply in_map_iff in H. destruct H as [d [<- _]]. eauto.
Qed.
Lemma in_names_cov i s x : In x (names_cov i s) -> exists p d c, x = nm_cov i p d c.
Proof.
  unfold Layout.names_cov. destruct (scov s) as [[nc sel]|]; [|intros []].
  intros H. apply in_flat_map in H. destruct H as [pd [_ H]]. apply in_map_iff in H. destruct H as [c [<- _]]. eauto.
Qed.
Lemma in_names_sub n_ids i s x : In x (names_sub n_ids i s) ->
  (exists p d, x = nm_param i (sk s) p d) \/ (exists p d c, x = nm_cov i p d c).
Proof.
  unfold Layout.names_sub. rewrite in_app_iff. intros [H|H]; [left; now apply in_names_base with n_ids | right; now apply in_names_cov with s].
Qed.

Lemma NoDup_names_base n_ids i s : NoDup (names_base n_ids i s).
Proof.
  unfold Layout.names_base. apply NoDup_flat_map_intro.
  - apply seq_NoDup.
  - intros p _. apply NoDup_map_inj; [|apply seq_NoDup]. intros d e _ _ E. now apply param_inj in E.
  - intros p q x _ _ Hpq Hx Hy. apply in_map_iff in Hx. apply in_map_iff in Hy.
    destruct Hx as [d [<- _]]. destruct Hy as [e [E _]]. apply param_inj in E. intuition.
Qed.
Lemma NoDup_names_cov i s : sel_ok s -> NoDup (names_cov i s).
Proof.
  unfold Layout.names_cov, sel_ok. destruct (scov s) as [[nc sel]|]; [|constructor]. intros Hs.
  apply NoDup_flat_map_intro; [assumption | |].
  - intros pd _. apply NoDup_map_inj; [|apply seq_NoDup]. intros c e _ _ E. now apply cov_inj in E.
  - intros [p d] [p' d'] x _ _ Hne Hx Hy. apply in_map_iff in Hx. apply in_map_iff in Hy.
    destruct Hx as [c [<- _]]. destruct Hy as [e [E _]]. cbn [fst snd] in E. apply cov_inj in E.
    apply Hne. f_equal; intuition.
Qed.
Lemma NoDup_names_sub n_ids i s : sel_ok s -> NoDup (names_sub n_ids i s).
Proof.
  intros Hs. unfold Layout.names_sub. apply NoDup_app_intro; [apply NoDup_names_base | now apply NoDup_names_cov |].
  intros x Hx Hy. apply in_names_base in Hx. apply in_names_cov in Hy.
  destruct Hx as [p [d ->]]. destruct Hy as [p' [d' [c E]]]. now apply param_cov in E.
Qed.

Lemma in_names_top n_ids c : forall i x, In x (names_top n_ids i c) ->
  exists j, i <= j /\ ((exists k p d, x = nm_param j k p d) \/ (exists p d cc, x = nm_cov j p d cc)).
Proof.
  induction c as [|s c IH]; intros i x H; cbn [Layout.names_top] in H; [destruct H|].
  apply in_app_iff in H. destruct H as [H|H].
  - exists i. split; [lia|]. apply in_names_sub in H. destruct H as [[p [d ->]]|[p [d [cc ->]]]]; [left|right]; eauto.
  - destruct (IH (S i) x H) as [j [Hj Hx]]. exists j. split; [lia | assumption].
Qed.

Lemma NoDup_names_top n_ids c : Forall sel_ok c -> forall i, NoDup (names_top n_ids i c).
Proof.
  induction 1 as [|s c Hs Hc IH]; intros i; cbn [Layout.names_top]; [constructor|].
  apply NoDup_app_intro; [now apply NoDup_names_sub | apply IH |].
  intros x Hx Hy. apply in_names_sub in Hx. apply in_names_top in Hy. destruct Hy as [j [Hj Hy]].
  destruct Hx as [[p [d ->]]|[p [d [cc ->]]]]; destruct Hy as [[k' [p' [d' E]]]|[p' [d' [cc' E]]]].
  - apply param_inj in E. lia.
  - now apply param_cov in E.
  - symmetry in E. now apply param_cov in E.
  - apply cov_inj in E. lia.
Qed.

Lemma in_names_bottom1 c : forall start x, In x (names_bottom1 start c) -> exists d, x = nm_dim d.
Proof.
  induction c as [|s c IH]; intros start x H; cbn [Layout.names_bottom1] in H; [destruct H|].
  apply in_app_iff in H. destruct H as [H|H]; [|now apply IH with (start + sdim s)].
  destruct (special (sk s)); [destruct H|]. apply in_map_iff in H. destruct H as [d [<- _]]. eauto.
Qed.
Lemma in_names_bottom1_range c : forall start x, In x (names_bottom1 start c) -> exists d, start <= d /\ x = nm_dim d.
Proof.
  induction c as [|s c IH]; intros start x H; cbn [Layout.names_bottom1] in H; [destruct H|].
  apply in_app_iff in H. destruct H as [H|H].
  - destruct (special (sk s)); [destruct H|]. apply in_map_iff in H. destruct H as [d [<- Hd]].
    apply in_seq in Hd. exists d. split; [lia | reflexivity].
  - destruct (IH _ _ H) as [d [Hd ->]]. exists d. split; [lia | reflexivity].
Qed.
Lemma in_names_bottom1_upper c : forall start x, In x (names_bottom1 start c) ->
  exists d, d < start + N_dim c /\ x = nm_dim d.
Proof.
  induction c as [|s c IH]; intros start x H; cbn [Layout.names_bottom1] in H; [destruct H|].
  rewrite N_dim_cons. apply in_app_iff in H. destruct H as [H|H].
  - destruct (special (sk s)); [destruct H|]. apply in_map_iff in H. destruct H as [d [<- Hd]].
    apply in_seq in Hd. exists d. split; [lia | reflexivity].
  - destruct (IH _ _ H) as [d [Hd ->]]. exists d. split; [lia | reflexivity].
Qed.
Lemma NoDup_names_bottom1 c : forall start, NoDup (names_bottom1 start c).
Proof.
  induction c as [|s c IH]; intros start; cbn [Layout.names_bottom1]; [constructor|].
  apply NoDup_app_intro; [| apply IH |].
  - destruct (special (sk s)); [constructor|]. apply NoDup_map_inj; [|apply seq_NoDup]. intros; now apply dim_inj.
  - intros x Hx Hy. destruct (special (sk s)); [destruct Hx|]. apply in_map_iff in Hx. destruct Hx as [d [<- Hd]].
    apply in_seq in Hd. apply in_names_bottom1_range in Hy. destruct Hy as [e [He E]]. apply dim_inj in E. lia.
Qed.

(* With an injective naming scheme, distinct parameters carry distinct names once prefixed by their ID *)
Theorem names_unique n_ids c : Forall sel_ok c -> NoDup (names n_ids c).
Proof.
  intros Hc. unfold Layout.names. apply NoDup_app_intro; [| now apply NoDup_names_top |].
  - apply NoDup_flat_map_intro; [apply seq_NoDup | |].
    + intros i _. apply NoDup_map_inj; [|apply NoDup_names_bottom1]. intros a b _ _ E. now apply id_inj in E.
    + intros i j x _ _ Hij Hx Hy. apply in_map_iff in Hx. apply in_map_iff in Hy.
      destruct Hx as [a [<- _]]. destruct Hy as [b [E _]]. apply id_inj in E. intuition.
  - intros x Hx Hy. apply in_flat_map in Hx. destruct Hx as [i [_ Hx]]. apply in_map_iff in Hx.
    destruct Hx as [a [<- _]]. apply in_names_top in Hy. destruct Hy as [j [_ [[k [p [d E]]]|[p [d [cc E]]]]]].
    + now apply id_param in E.
    + now apply id_cov in E.
Qed.
End Unique.
