(* Proofs about Model/TimeGrid.v and Model/LogLik.v (C01). *)
From Coq Require Import Reals ZArith List Bool Arith Lia Sorted.
From Chi Require Import Base.RSum Base.Score Model.ErrorModels Model.TimeGrid Model.LogLik.
Import ListNotations.
Open Scope Z_scope.

Definition sinc := StronglySorted Z.lt.

Lemma insert_uniq_In x y l : In y (insert_uniq x l) <-> y = x \/ In y l.
Proof.
  induction l as [|z l IH]; cbn [insert_uniq In]; [intuition|].
  destruct (Z.ltb_spec x z); [cbn [In]; intuition|].
  destruct (Z.eqb_spec x z); [subst; cbn [In]; intuition|]. cbn [In]. rewrite IH. intuition.
Qed.

Lemma insert_uniq_sinc x l : sinc l -> sinc (insert_uniq x l).
Proof.
  unfold sinc. induction l as [|z l IH]; cbn [insert_uniq]; intros H.
  - constructor; constructor.
  - destruct (Z.ltb_spec x z).
    + constructor; [assumption|]. constructor; [assumption|]. inversion H; subst.
      eapply Forall_impl; [|eassumption]. intros; cbn in *; lia.
    + destruct (Z.eqb_spec x z); [assumption|]. inversion H as [|? ? Hs Hf]; subst.
      constructor; [now apply IH|]. apply Forall_forall. intros y Hy. apply insert_uniq_In in Hy.
      destruct Hy as [->|Hy]; [lia|]. rewrite Forall_forall in Hf. now apply Hf.
Qed.

Lemma union_sinc ts : sinc (union ts).
Proof.
  unfold union. induction (concat ts) as [|x l IH]; cbn [fold_right];
    [constructor | now apply insert_uniq_sinc].
Qed.

Lemma union_In ts y : In y (union ts) <-> In y (concat ts).
Proof.
  unfold union. induction (concat ts) as [|x l IH]; cbn [fold_right In]; [tauto|].
  rewrite insert_uniq_In, IH. intuition.
Qed.

(* searchsorted on a strictly increasing list returns the position of a member *)
Lemma index_of_correct {V} (f : Z -> V) (d : V) u t :
  sinc u -> In t u -> nth (index_of u t) (map f u) d = f t.
Proof.
  unfold sinc. induction u as [|x u IH]; intros Hs Hin; [destruct Hin|].
  inversion Hs as [|? ? Hs' Hf]; subst. cbn [index_of map].
  destruct (Z.ltb_spec x t) as [Hlt|Hge].
  - cbn [nth]. apply IH; [assumption|]. destruct Hin as [->|]; [lia | assumption].
  - cbn [nth]. destruct Hin as [->|Hin]; [reflexivity|].
    rewrite Forall_forall in Hf. specialize (Hf _ Hin). lia.
Qed.

Lemma index_of_lt u t : sinc u -> In t u -> (index_of u t < length u)%nat.
Proof.
  unfold sinc. induction u as [|x u IH]; intros Hs Hin; [destruct Hin|].
  inversion Hs as [|? ? Hs' Hf]; subst. cbn [index_of length].
  destruct (Z.ltb_spec x t); [|lia].
  apply -> Nat.succ_lt_mono. apply IH; [assumption|]. destruct Hin as [->|]; [lia|assumption].
Qed.

(* THE PAIRING THEOREM: for every family of grids — overlapping, nested, interleaved, with repeated
   times, sorted or not — the predictions handed to output o's error model are the predictions for
   output o at that output's own measurement times, in order. *)
Theorem paired_is_spec {V} (d : V) (pred : nat -> Z -> V) ts o :
  paired d pred ts o = paired_spec pred ts o.
Proof.
  unfold paired, paired_spec, sim. apply map_ext_in. intros t Ht.
  apply index_of_correct; [apply union_sinc|]. apply union_In.
  destruct (Nat.lt_ge_cases o (length ts)) as [Hlt|Hge].
  - apply in_concat. exists (nth o ts []). split; [now apply nth_In | assumption].
  - rewrite nth_overflow in Ht by assumption. destruct Ht.
Qed.

Theorem calls_is_spec {P V} (d : V) (pred : nat -> Z -> V) n_mech counts ts obs (th : list P) :
  calls d pred n_mech counts ts obs th = calls_spec pred n_mech counts ts obs th.
Proof.
  unfold calls, calls_spec. do 2 f_equal. apply map_ext. intros o. apply paired_is_spec.
Qed.

(* every measurement exactly once: the (prediction, observation) pairs of output o are the images of
   its (time, observation) pairs *)
Theorem pairs_each_once {V} (d : V) (pred : nat -> Z -> V) ts (ys : list V) o :
  combine (paired d pred ts o) ys
  = map (fun ty => (pred o (fst ty), snd ty)) (combine (nth o ts []) ys).
Proof.
  rewrite paired_is_spec. unfold paired_spec. revert ys.
  induction (nth o ts []) as [|t l IH]; intros [|y ys]; cbn [map combine]; try reflexivity.
  now rewrite IH.
Qed.

(* slices: consecutive, of the reported sizes, and together the whole error-parameter block *)
Lemma slices_length {A} counts (th : list A) : length (slices counts th) = length counts.
Proof. revert th. induction counts as [|c r IH]; intros th; cbn [slices length]; [reflexivity | now rewrite IH]. Qed.

Theorem slices_partition {A} counts (th : list A) :
  length th = fold_right Nat.add O counts ->
  concat (slices counts th) = th /\ map (@length A) (slices counts th) = counts.
Proof.
  revert th. induction counts as [|c r IH]; intros th H; cbn [slices concat map fold_right] in *.
  - destruct th; [split; reflexivity | discriminate].
  - destruct (IH (skipn c th)) as [H1 H2].
    { rewrite skipn_length. lia. }
    split.
    + rewrite H1. apply firstn_skipn.
    + rewrite H2. f_equal. rewrite firstn_length. lia.
Qed.

(* a constructed object can be evaluated: every error model receives as many predictions as
   observations (chi's error models raise ValueError otherwise) *)
Lemma shapes_ok_nth {A} ts (obs : list (list A)) o :
  shapes_ok ts obs = true -> length (nth o ts []) = length (nth o obs []).
Proof.
  revert obs o. induction ts as [|t ts IH]; intros [|ob obs] o H; cbn [shapes_ok] in H; try discriminate.
  - destruct o; reflexivity.
  - apply andb_prop in H. destruct H as [H1 H2]. destruct o as [|o]; cbn [nth].
    + now apply Nat.eqb_eq.
    + now apply IH.
Qed.

Theorem constructed_evaluates {V} (d : V) (pred : nat -> Z -> V) n_out n_em ts (obs : list (list V)) o :
  constructs n_out n_em ts obs = true ->
  length (paired d pred ts o) = length (nth o obs []).
Proof.
  unfold constructs. intros H. repeat (apply andb_prop in H; destruct H as [H ?]).
  unfold paired. rewrite map_length. now apply shapes_ok_nth.
Qed.

Theorem n_obs_counts {A} (obs : list (list A)) :
  fold_right Nat.add O (n_obs obs) = length (concat obs).
Proof.
  unfold n_obs. induction obs as [|o obs IH]; cbn [map fold_right concat]; [reflexivity|].
  rewrite app_length, IH. reflexivity.
Qed.

(* ---------------- the score ---------------- *)
Open Scope R_scope.

Theorem ll_is_spec pred n_mech ks ts obs th :
  ll pred n_mech ks ts obs th = ll_spec pred n_mech ks ts obs th.
Proof. unfold ll, ll_spec. now rewrite calls_is_spec. Qed.

Theorem pointwise_is_spec pred n_mech ks ts obs th :
  pointwise pred n_mech ks ts obs th = pointwise_spec pred n_mech ks ts obs th.
Proof. unfold pointwise, pointwise_spec. now rewrite calls_is_spec. Qed.

(* the pointwise values add up to the total, whenever every output is inside the support *)
Definition sval (a : score) : R := match a with Fin r => r | NegInf => 0 end.
Definition all_fin (l : list score) : Prop := Forall (fun a => sfinite a = true) l.

Lemma ssum_fin l : all_fin l -> ssum l = Fin (Rsum (map sval l)).
Proof.
  induction 1 as [|a l Ha Hl IH]; cbn [ssum map Rsum]; [reflexivity|].
  rewrite IH. destruct a; [reflexivity | discriminate].
Qed.
