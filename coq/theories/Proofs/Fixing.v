(* Proofs about Model/Fixing.v (C08). Axiom-free. *)
From Coq Require Import List Bool String Arith Lia.
From Chi Require Import Model.Fixing.
Import ListNotations.

Section P.
  Variable V : Type.
  Variable junk : V.
  Notation state := (state V).
  Notation dict := (dict V).

  Lemma fix_params_names (s : state) (d : dict) : map fst (fix_params s d) = map fst s.
  Proof.
    unfold fix_params. rewrite map_map. apply map_ext. intros [n c]. cbn.
    destruct (lookup d n); reflexivity.
  Qed.

  Lemma fold_fix_names (h : list dict) (s : state) : map fst (fold_left fix_params h s) = map fst s.
  Proof.
    revert s. induction h as [|d h IH]; intros s; cbn [fold_left]; [reflexivity|].
    now rewrite IH, fix_params_names.
  Qed.

  (* the state after a history, entry by entry *)
  Lemma fold_fix_entry (h : list dict) (s : state) :
    fold_left fix_params h s
    = map (fun p => (fst p, match net h (fst p) with Some r => r | None => snd p end)) s.
  Proof.
    revert s. induction h as [|d h IH]; intros s; cbn [fold_left net].
    - rewrite <- (map_id s) at 1. apply map_ext. intros [n c]. reflexivity.
    - rewrite IH. unfold fix_params. rewrite map_map. apply map_ext. intros [n c]. cbn [fst snd].
      destruct (lookup d n) as [v|] eqn:E; cbn [fst snd]; destruct (net h n); reflexivity.
  Qed.

  (* effective fixed value of a name after a history that started from "nothing fixed" *)
  Definition eff (h : list dict) (n : string) : option V :=
    match net h n with Some r => r | None => None end.

  Theorem history_independent (names : list string) (h1 h2 : list dict) :
    (forall n, In n names -> eff h1 n = eff h2 n) ->
    fold_left fix_params h1 (init names) = fold_left fix_params h2 (init names).
  Proof.
    intros H. rewrite !fold_fix_entry. unfold init. rewrite !map_map. apply map_ext_in.
    intros n Hn. cbn [fst snd]. f_equal. apply (H n Hn).
  Qed.

  Theorem state_is_net (names : list string) (h : list dict) :
    fold_left fix_params h (init names) = map (fun n => (n, eff h n)) names.
  Proof. rewrite fold_fix_entry. unfold init. rewrite map_map. reflexivity. Qed.

  Theorem release (h : list dict) (s : state) n :
    fix_params s [(n, None)]
    = map (fun p => if String.eqb n (fst p) then (fst p, None) else p) s.
  Proof.
    unfold fix_params. apply map_ext. intros [k c]. cbn [lookup fst snd].
    destruct (String.eqb n k); reflexivity.
  Qed.

  (* fixing then releasing the same names restores the previous state, when they were free before *)
  Theorem fix_then_release (s : state) (d : dict) :
    (forall n v, lookup d n = Some v -> forall c, In (n, c) s -> c = None) ->
    fix_params (fix_params s d) (map (fun kv => (fst kv, None)) d) = s.
  Proof.
    intros H. unfold fix_params. rewrite map_map. rewrite <- (map_id s) at 2. apply map_ext_in.
    intros [n c] Hin. cbn [fst snd].
    assert (L : forall d0 : dict, lookup (map (fun kv => (fst kv, @None V)) d0) n
                = match lookup d0 n with Some _ => Some None | None => None end).
    { induction d0 as [|[k v] d0 IHd]; cbn [map lookup fst]; [reflexivity|].
      rewrite IHd. destruct (lookup d0 n); [reflexivity|]. destruct (String.eqb k n); reflexivity. }
    destruct (lookup d n) as [v|] eqn:E; cbn [fst snd]; rewrite L, E; [|reflexivity].
    f_equal. symmetry. apply (H n v E c Hin).
  Qed.

  (* ---------------- expand / restrict ---------------- *)
  Lemma n_free_fixed (s : state) : List.length (free_names s) + n_fixed s = List.length s.
  Proof.
    unfold free_names, n_fixed. rewrite map_length.
    induction s as [|p s IH]; cbn [filter List.length]; [reflexivity|].
    destruct (is_free p); cbn [negb List.length]; lia.
  Qed.

  Lemma free_names_sub (s : state) : free_names s = map fst (filter is_free s).
  Proof. reflexivity. Qed.

  Theorem expand_defined (s : state) (free : list V) :
    List.length free = List.length (free_names s) <-> exists l, expand s free = Some l.
  Proof.
    revert free. induction s as [|[n [v|]] s IH]; intros free; cbn [expand free_names filter is_free snd map List.length].
    - destruct free; cbn; split; intros H; try eauto; try discriminate. destruct H as [l H]. discriminate.
    - unfold free_names in IH. rewrite IH. split; intros [l H].
      + rewrite H. eexists. reflexivity.
      + destruct (expand s free); [eauto | discriminate].
    - destruct free as [|x xs]; cbn [List.length].
      + split; [discriminate | intros [l H]; discriminate].
      + unfold free_names in IH. split.
        * intros H. injection H as H. apply IH in H. destruct H as [l H]. rewrite H. eexists. reflexivity.
        * intros [l H]. f_equal. apply IH. destruct (expand s xs); [eauto | discriminate].
  Qed.

  (* exact substitution: the full vector has the fixed values at the fixed positions and the free
     values, in order, at the free positions; its length is the original parameter count *)
  Theorem expand_spec (s : state) (free l : list V) :
    expand s free = Some l ->
    List.length l = List.length s /\ restrict s l = free /\
    (forall i n v, nth_error s i = Some (n, Some v) -> nth_error l i = Some v).
  Proof.
    revert free l. induction s as [|[n [v|]] s IH]; intros free l H; cbn [expand] in H.
    - destruct free; [|discriminate]. injection H as <-. repeat split. intros [|i] ? ? E; discriminate.
    - destruct (expand s free) as [l'|] eqn:E; [|discriminate]. injection H as <-.
      destruct (IH _ _ E) as (H1 & H2 & H3). repeat split.
      + cbn. now rewrite H1.
      + cbn [restrict is_free snd]. exact H2.
      + intros [|i] n' v' Hn; cbn in *; [now inversion Hn | now apply (H3 i n' v')].
    - destruct free as [|x xs]; [discriminate|].
      destruct (expand s xs) as [l'|] eqn:E; [|discriminate]. injection H as <-.
      destruct (IH _ _ E) as (H1 & H2 & H3). repeat split.
      + cbn. now rewrite H1.
      + cbn [restrict is_free snd]. now rewrite H2.
      + intros [|i] n' v' Hn; cbn in *; [discriminate | now apply (H3 i n' v')].
  Qed.

  (* nothing fixed: the wrapper is the identity on parameter vectors *)
  Theorem expand_nothing_fixed (names : list string) (free : list V) :
    List.length free = List.length names -> expand (init names) free = Some free.
  Proof.
    revert free. induction names as [|n names IH]; intros [|x xs] H; cbn in *; try discriminate; [reflexivity|].
    rewrite IH by lia. reflexivity.
  Qed.

  Lemma free_names_init (names : list string) : free_names (V:=V) (init names) = names.
  Proof. unfold free_names, init. induction names as [|n ns IH]; cbn; [reflexivity | now rewrite IH]. Qed.

  (* free names are the original names, in the original order, with the fixed ones removed *)
  Theorem free_names_order (s : state) :
    free_names s = map fst (filter is_free s) /\
    (forall n, In n (free_names s) -> In n (map fst s)).
  Proof.
    split; [reflexivity|]. intros n H. unfold free_names in H. apply in_map_iff in H.
    destruct H as [p [E Hp]]. apply filter_In in Hp. apply in_map_iff. exists p. tauto.
  Qed.

  (* ---------------- refinement: the (mask, values) buffers implement the specification ---------------- *)
  Definition wf (s : cstate V) : Prop :=
    match cbuf s with
    | None => True
    | Some b => List.length b = List.length (cnames s) /\ existsb fst b = true
    end.

  Lemma wf_init names : wf (cinit names).
  Proof. exact I. Qed.

  Lemma abs_names (s : cstate V) : wf s -> map fst (abs s) = cnames s.
  Proof.
    unfold wf, abs. destruct (cbuf s) as [b|].
    - intros [Hl _]. rewrite map_map. cbn [fst].
      revert b Hl. induction (cnames s) as [|n ns IH]; intros [|x b] Hl; cbn in *; try discriminate; [reflexivity|].
      f_equal. apply IH. lia.
    - intros _. unfold init. rewrite map_map. cbn. apply map_id.
  Qed.

  Lemma forallb_negb_existsb {A} (f : A -> bool) l : forallb (fun a => negb (f a)) l = negb (existsb f l).
  Proof. induction l as [|a l IH]; cbn; [reflexivity|]. rewrite IH. destruct (f a); reflexivity. Qed.

  (* the body of cfix on an explicit buffer equals fix_params on its abstraction *)
  Definition absb (ns : list string) (b : list (bool * V)) : state :=
    map (fun nb : string * (bool * V) => (fst nb, if fst (snd nb) then Some (snd (snd nb)) else @None V))
        (combine ns b).
  Definition stepb (d : dict) (ns : list string) (b : list (bool * V)) : list (bool * V) :=
    map (fun nb : string * (bool * V) =>
           match lookup d (fst nb) with
           | Some (Some v) => (true, v) | Some None => (false, junk) | None => snd nb end) (combine ns b).

  Lemma stepb_length d ns b : List.length b = List.length ns -> List.length (stepb d ns b) = List.length ns.
  Proof. intros H. unfold stepb. rewrite map_length, combine_length. lia. Qed.

  Lemma absb_stepb d ns b : List.length b = List.length ns ->
    absb ns (stepb d ns b) = fix_params (absb ns b) d.
  Proof.
    revert b. induction ns as [|n ns IH]; intros [|[m v] b] H; cbn in *; try discriminate; [reflexivity|].
    unfold absb, stepb, fix_params in *. cbn [combine map fst snd].
    f_equal.
    - destruct (lookup d n) as [[w|]|]; reflexivity.
    - apply IH. lia.
  Qed.

  Lemma absb_all_free ns b : List.length b = List.length ns -> existsb fst b = false ->
    absb ns b = init ns.
  Proof.
    revert b. induction ns as [|n ns IH]; intros [|[m v] b] H E; cbn in *; try discriminate; [reflexivity|].
    apply orb_false_iff in E. destruct E as [-> E]. unfold absb, init in *. cbn. f_equal. apply IH; [lia|assumption].
  Qed.

  Lemma absb_junk ns : absb ns (map (fun _ => (false, junk)) ns) = init ns.
  Proof. unfold absb, init. induction ns as [|n ns IH]; cbn; [reflexivity | now rewrite IH]. Qed.

  Theorem cfix_refines (s : cstate V) (d : dict) :
    wf s -> wf (cfix junk s d) /\ abs (cfix junk s d) = fix_params (abs s) d /\ cnames (cfix junk s d) = cnames s.
  Proof.
    intros Hwf. unfold cfix.
    set (b0 := match cbuf s with Some b => b | None => map (fun _ => (false, junk)) (cnames s) end).
    assert (Hl : List.length b0 = List.length (cnames s)).
    { unfold b0, wf in *. destruct (cbuf s); [tauto | now rewrite map_length]. }
    assert (Habs : abs s = absb (cnames s) b0).
    { unfold abs, b0. destruct (cbuf s); [reflexivity | now rewrite absb_junk]. }
    fold (stepb d (cnames s) b0). rewrite forallb_negb_existsb.
    destruct (existsb fst (stepb d (cnames s) b0)) eqn:E; cbn [negb].
    - split; [|split; [|reflexivity]].
      + unfold wf. cbn [cbuf cnames]. split; [now apply stepb_length | assumption].
      + unfold abs at 1. cbn [cbuf cnames]. fold (absb (cnames s) (stepb d (cnames s) b0)).
        now rewrite absb_stepb, Habs.
    - split; [exact I|split; [|reflexivity]].
      unfold abs at 1. cbn [cbuf cnames]. rewrite Habs, <- absb_stepb by assumption.
      symmetry. apply absb_all_free; [now apply stepb_length | assumption].
  Qed.

  (* the published names, counts and the substituted vector computed from the buffers are those of the
     specification *)
  Theorem cobserve_refines (s : cstate V) (free : list V) :
    wf s ->
    cfree_names s = free_names (abs s) /\ cn_fixed s = n_fixed (abs s) /\
    (List.length free = List.length (cfree_names s) -> cexpand s free = expand (abs s) free).
  Proof.
    unfold wf, cfree_names, cn_fixed, cexpand, abs. destruct (cbuf s) as [b|].
    - intros [Hl _]. revert b Hl free. induction (cnames s) as [|n ns IH]; intros [|[m v] b] Hl free;
        cbn in Hl; try discriminate.
      + repeat split.
      + destruct (IH b ltac:(lia) free) as (H1 & H2 & H3).
        unfold free_names, n_fixed in *. cbn [combine map filter fst snd is_free negb List.length cwrite expand].
        destruct m; cbn [negb fst snd is_free map filter List.length].
        * repeat split; [assumption | now rewrite H2 | ].
          intros Hf. cbn [cwrite]. now rewrite H3.
        * repeat split; [now rewrite H1 | assumption | ].
          intros Hf. destruct free as [|x xs]; [reflexivity|].
          destruct (IH b ltac:(lia) xs) as (_ & _ & H3').
          cbn in Hf. rewrite H3'; [reflexivity | lia].
    - intros _. rewrite free_names_init. repeat split.
      + unfold n_fixed, init. induction (cnames s); cbn; [reflexivity | assumption].
      + intros H. symmetry. now apply expand_nothing_fixed.
  Qed.

  (* after ANY history the buffers represent the net name -> value map *)
  Theorem chistory (names : list string) (h : list dict) :
    let s := fold_left (cfix junk) h (cinit names) in
    wf s /\ abs s = fold_left fix_params h (init names) /\ cnames s = names.
  Proof.
    cbn zeta. rewrite <- (fold_left_rev_right (fun d s => cfix junk s d)).
    rewrite <- (fold_left_rev_right (fun d s => fix_params s d)).
    induction (rev h) as [|d r IH]; cbn [fold_right].
    - repeat split.
    - destruct IH as (Hw & Ha & Hn). destruct (cfix_refines _ d Hw) as (H1 & H2 & H3).
      repeat split; [assumption | now rewrite H2, Ha | now rewrite H3].
  Qed.
End P.

(* ---------------- renaming ---------------- *)
Local Open Scope string_scope.
Lemma rename_is_spec : forall mask ps new,
  List.length mask = List.length ps -> List.length new = n_free mask ->
  rename mask ps new = rename_spec mask ps new.
Proof.
  unfold rename, set_bases.
  induction mask as [|b m IH]; intros [|p r] new Lm Ln; cbn in Lm; try discriminate; [reflexivity|].
  destruct b; cbn [map merge rename_spec].
  - cbn [combine map fst snd]. destruct p as [bn dn]. cbn. f_equal. apply IH; [lia | exact Ln].
  - unfold n_free in Ln. cbn [filter negb List.length] in Ln. destruct new as [|n ns]; [discriminate|].
    cbn [combine map fst snd]. f_equal. apply IH; [lia | cbn in Ln; unfold n_free; lia].
Qed.

(* the published name of a fixed parameter is untouched, so it can still be released by that name *)
Theorem fixed_names_kept : forall mask ps new i p,
  List.length mask = List.length ps -> List.length new = n_free mask ->
  nth_error mask i = Some true -> nth_error ps i = Some p ->
  nth_error (rename mask ps new) i = Some p.
Proof.
  intros mask ps new i p Lm Ln Hm Hp. rewrite rename_is_spec by assumption.
  revert ps new i p Lm Ln Hm Hp.
  induction mask as [|b m IH]; intros [|q r] new i p Lm Ln Hm Hp; cbn in Lm; try discriminate;
    [destruct i; discriminate|].
  destruct i as [|i]; cbn in Hm, Hp.
  - injection Hm as ->. injection Hp as ->. reflexivity.
  - destruct b; cbn [rename_spec].
    + cbn [nth_error]. apply IH; [lia | exact Ln | exact Hm | exact Hp].
    + unfold n_free in Ln. cbn [filter negb List.length] in Ln. destruct new as [|n ns]; [discriminate|].
      cbn [nth_error]. apply IH; [lia | cbn in Ln; unfold n_free; lia | exact Hm | exact Hp].
Qed.

Lemma rename_length : forall mask ps new,
  List.length mask = List.length ps -> List.length new = n_free mask ->
  List.length (rename mask ps new) = List.length ps.
Proof.
  intros mask ps new Lm Ln. rewrite rename_is_spec by assumption. revert ps new Lm Ln.
  induction mask as [|b m IH]; intros [|q r] new Lm Ln; cbn in Lm; try discriminate; [reflexivity|].
  destruct b; cbn [rename_spec List.length].
  - f_equal. apply IH; [lia | exact Ln].
  - unfold n_free in Ln. cbn [filter negb List.length] in Ln. destruct new as [|n ns]; [discriminate|].
    cbn [List.length]. f_equal. apply IH; [lia | cbn in Ln; unfold n_free; lia].
Qed.

(* reading the published names instead doubles the dimension name of every fixed parameter *)
Theorem rename_old_refuted : exists mask ps new i p,
  List.length mask = List.length ps /\ List.length new = n_free mask /\
  nth_error mask i = Some true /\ nth_error ps i = Some p /\
  nth_error (rename_old mask ps new) i <> Some p.
Proof.
  exists [true; false], [("Mean", "Dim. 1"); ("Std.", "Dim. 1")], ["a"], 0, ("Mean", "Dim. 1").
  repeat split; cbn; discriminate.
Qed.

(* ---------------- sensitivity requests follow the free parameters ---------------- *)
Lemma rstep_ok {V} (r : rstate V) o : rok (rstep r o).
Proof.
  destruct o as [d|[|]]; unfold rok; cbn; [|reflexivity|exact I].
  unfold refresh. destruct (rsens r); [reflexivity | exact I].
Qed.

(* after ANY history of fix / release / sensitivity switches the sensitivities asked for are those of the free
   parameters, in their order *)
Theorem sens_follow_free {V} names (ops : list (rop V)) : rok (rrun rstep names ops).
Proof.
  unfold rrun. assert (G : forall r, rok r -> rok (fold_left rstep ops r)).
  { induction ops as [|o ops IH]; intros r H; [exact H|]. cbn [fold_left]. apply IH, rstep_ok. }
  apply G. exact I.
Qed.

Theorem sens_refresh_on_count_refuted : exists names (ops : list (rop nat)), ~ rok (rrun rstep_count names ops).
Proof.
  exists ["a"; "b"; "c"], [RFix [("b", Some 1)]; RSens true; RFix [("b", None); ("a", Some 2)]].
  cbv. discriminate.
Qed.
Theorem sens_early_return_refuted : exists names (ops : list (rop nat)), ~ rok (rrun rstep_early names ops).
Proof.
  exists ["a"; "b"; "c"], [RFix [("b", Some 1)]; RSens true; RFix [("b", None)]].
  cbv. discriminate.
Qed.
