(* Proofs about Model/Predictive.v. *)
From Coq Require Import List Bool String Arith Lia Permutation.
From Chi Require Import Model.Predictive Proofs.Inference.
Import ListNotations.

Section PredictiveProofs.
  Variables T V : Type.
  Variable t0 : T.
  Variable v0 : V.
  Notation row := (row T V).
  Definition r0 : row := (0, t0, EmptyString, v0).

  Lemma length_flat_map_const {A B} (f : A -> list B) l k :
    (forall x, In x l -> List.length (f x) = k) -> List.length (flat_map f l) = List.length l * k.
  Proof. apply length_flat_map_uniform. Qed.

  (* (1) one row per (output, time, sample); the row of (o, t, s) sits at index (o * n_times + t) * n_samples + s
     and carries sample ID s+1, the t-th time, the o-th output name and the value of exactly that triple *)
  Theorem table_ots_length names times n value :
    List.length (table_ots T V t0 names times n value) = List.length names * (List.length times * n).
  Proof.
    unfold table_ots. rewrite (length_flat_map_const _ _ (List.length times * n)); [now rewrite seq_length|].
    intros o _. rewrite (length_flat_map_const _ _ n); [now rewrite seq_length|].
    intros t _. now rewrite map_length, seq_length.
  Qed.
  Theorem table_ots_row names times n value o t s :
    o < List.length names -> t < List.length times -> s < n ->
    nth ((o * List.length times + t) * n + s) (table_ots T V t0 names times n value) r0
    = (S s, nth t times t0, nth o names EmptyString, value o t s).
  Proof.
    intros Ho Ht Hs. unfold table_ots.
    replace ((o * List.length times + t) * n + s) with (o * (List.length times * n) + (t * n + s)) by lia.
    rewrite (nth_flat_map_uniform _ (seq 0 (List.length names)) (List.length times * n) o (t * n + s) 0 r0).
    - rewrite seq_nth by exact Ho. cbn [plus].
      rewrite (nth_flat_map_uniform _ (seq 0 (List.length times)) n t s 0 r0).
      + rewrite seq_nth by exact Ht. cbn [plus].
        rewrite (nth_indep _ r0 ((fun s0 => (S s0, nth t times t0, nth o names EmptyString, value o t s0)) 0))
          by (rewrite map_length, seq_length; exact Hs).
        rewrite (map_nth (fun s0 => (S s0, nth t times t0, nth o names EmptyString, value o t s0))).
        now rewrite seq_nth by exact Hs.
      + intros x _. now rewrite map_length, seq_length.
      + now rewrite seq_length.
      + exact Hs.
    - intros x _. rewrite (length_flat_map_const _ _ n); [now rewrite seq_length|].
      intros y _. now rewrite map_length, seq_length.
    - now rewrite seq_length.
    - nia.
  Qed.

  (* (2) prior / posterior predictive tables: the row of (s, o, t) sits at (s * n_outputs + o) * n_times + t *)
  Theorem table_sot_length names times n value :
    List.length (table_sot T V t0 names times n value) = n * (List.length names * List.length times).
  Proof.
    unfold table_sot. rewrite (length_flat_map_const _ _ (List.length names * List.length times)); [now rewrite seq_length|].
    intros s _. rewrite (length_flat_map_const _ _ (List.length times)); [now rewrite seq_length|].
    intros o _. now rewrite map_length, seq_length.
  Qed.
  Theorem table_sot_row names times n value s o t :
    s < n -> o < List.length names -> t < List.length times ->
    nth ((s * List.length names + o) * List.length times + t) (table_sot T V t0 names times n value) r0
    = (S s, nth t times t0, nth o names EmptyString, value o t s).
  Proof.
    intros Hs Ho Ht. unfold table_sot.
    replace ((s * List.length names + o) * List.length times + t)
      with (s * (List.length names * List.length times) + (o * List.length times + t)) by lia.
    rewrite (nth_flat_map_uniform _ (seq 0 n) (List.length names * List.length times) s (o * List.length times + t) 0 r0).
    - rewrite seq_nth by exact Hs. cbn [plus].
      rewrite (nth_flat_map_uniform _ (seq 0 (List.length names)) (List.length times) o t 0 r0).
      + rewrite seq_nth by exact Ho. cbn [plus].
        rewrite (nth_indep _ r0 ((fun t1 => (S s, nth t1 times t0, nth o names EmptyString, value o t1 s)) 0))
          by (rewrite map_length, seq_length; exact Ht).
        rewrite (map_nth (fun t1 => (S s, nth t1 times t0, nth o names EmptyString, value o t1 s))).
        now rewrite seq_nth by exact Ht.
      + intros x _. now rewrite map_length, seq_length.
      + now rewrite seq_length.
      + exact Ht.
    - intros x _. rewrite (length_flat_map_const _ _ (List.length times)); [now rewrite seq_length|].
      intros y _. now rewrite map_length, seq_length.
    - now rewrite seq_length.
    - nia.
  Qed.

  (* (3) population predictive model: patient p is the model's transform of draw p *)
  Theorem patients_spec {E P} (indiv : E -> P) (draws : list E) p (e0 : E) :
    p < List.length draws -> nth p (patients indiv draws) (indiv e0) = indiv (nth p draws e0).
  Proof. intros _. unfold patients. apply map_nth. Qed.

  (* (4) posterior predictive model: every row of the pool is ONE joint draw — all its entries come from the same
     (chain, draw) — and every (chain, draw) contributes exactly one row *)
  Theorem posterior_rows_joint n_chains n_draws (params : list (nat -> nat -> V)) c d :
    c < n_chains -> d < n_draws ->
    nth (c * n_draws + d) (posterior_rows V n_chains n_draws params) [] = map (fun f => f c d) params.
  Proof.
    intros Hc Hd. unfold posterior_rows.
    rewrite (nth_flat_map_uniform _ (seq 0 n_chains) n_draws c d 0 []).
    - rewrite seq_nth by exact Hc. cbn [plus].
      rewrite (nth_indep _ [] ((fun d0 => map (fun f => f c d0) params) 0)) by (rewrite map_length, seq_length; exact Hd).
      rewrite (map_nth (fun d0 => map (fun f => f c d0) params)). now rewrite seq_nth by exact Hd.
    - intros x _. now rewrite map_length, seq_length.
    - now rewrite seq_length.
    - exact Hd.
  Qed.
  Theorem posterior_rows_length n_chains n_draws (params : list (nat -> nat -> V)) :
    List.length (posterior_rows V n_chains n_draws params) = n_chains * n_draws.
  Proof.
    unfold posterior_rows. rewrite (length_flat_map_const _ _ n_draws); [now rewrite seq_length|].
    intros c _. now rewrite map_length, seq_length.
  Qed.

  (* (5) averaged model: the IDs of model m are shifted past those of the models before it *)
  Lemma shift_ids_In k rows i t o v : In (i, t, o, v) (shift_ids T V k rows) <-> exists j, i = j + k /\ In (j, t, o, v) rows.
  Proof.
    unfold shift_ids. rewrite in_map_iff. split.
    - intros [[[[j t'] o'] v'] [E I]]. inversion E; subst. now exists j.
    - intros [j [-> I]]. now exists (j, t, o, v).
  Qed.
  Theorem pam_ids_in_range tables before i t o v :
    (forall n rows, In (n, rows) tables -> forall j t' o' v', In (j, t', o', v') rows -> 1 <= j <= n) ->
    In (i, t, o, v) (pam_tables T V tables before) ->
    before < i <= before + list_sum (map fst tables).
  Proof.
    revert before; induction tables as [|[n rows] rest IH]; intros before H I; [cbn in I; contradiction|].
    change (list_sum (map fst ((n, rows) :: rest))) with (n + list_sum (map fst rest)).
    cbn [pam_tables] in I. apply in_app_or in I. destruct I as [I|I].
    - destruct (Nat.eqb n 0); [contradiction|]. apply shift_ids_In in I. destruct I as [j [-> Ij]].
      specialize (H n rows (or_introl eq_refl) j t o v Ij). lia.
    - assert (H' : forall n0 rows0, In (n0, rows0) rest -> forall j t' o' v', In (j, t', o', v') rows0 -> 1 <= j <= n0)
        by (intros n0 rows0 I0; apply H; now right).
      specialize (IH (before + n) H' I). lia.
  Qed.
End PredictiveProofs.

(* ---------------- param_map and PAM counts ---------------- *)
Lemma translate_length m names : List.length (translate m names) = List.length names.
Proof. apply map_length. Qed.

Lemma translate_nth m names j : nth j (translate m names) ""%string = if Nat.ltb j (List.length names) then lookup_map m (nth j names ""%string) else ""%string.
Proof.
  unfold translate. destruct (Nat.ltb j (List.length names)) eqn:E.
  - apply Nat.ltb_lt in E. rewrite (nth_indep _ ""%string (lookup_map m ""%string)) by (rewrite map_length; exact E).
    apply map_nth.
  - apply Nat.ltb_ge in E. apply nth_overflow. rewrite map_length. exact E.
Qed.

(* the order of the dictionary does not matter when its keys are distinct *)
Lemma find_key_in (m : list (string * string)) n v : NoDup (map fst m) -> In (n, v) m ->
  find (fun kv => String.eqb (fst kv) n) m = Some (n, v).
Proof.
  induction m as [|[k w] m IH]; intros ND H; [destruct H|].
  cbn [find fst]. inversion ND as [|? ? Hk ND']; subst.
  destruct (String.eqb k n) eqn:E.
  - apply String.eqb_eq in E. subst k. destruct H as [H|H]; [congruence|].
    exfalso. apply Hk. apply (in_map fst) in H. exact H.
  - destruct H as [H|H]; [inversion H; subst; rewrite String.eqb_refl in E; discriminate|].
    apply IH; assumption.
Qed.
Lemma find_key_none (m : list (string * string)) n : ~ In n (map fst m) -> find (fun kv => String.eqb (fst kv) n) m = None.
Proof.
  induction m as [|[k w] m IH]; intros H; [reflexivity|].
  cbn [find fst]. destruct (String.eqb k n) eqn:E.
  - apply String.eqb_eq in E. subst. exfalso. apply H. left. reflexivity.
  - apply IH. intros Hn. apply H. right. exact Hn.
Qed.
Lemma lookup_perm (m m' : list (string * string)) n : NoDup (map fst m) -> Permutation m m' -> lookup_map m n = lookup_map m' n.
Proof.
  intros ND P. unfold lookup_map.
  assert (ND' : NoDup (map fst m')) by (eapply Permutation_NoDup; [apply Permutation_map, P | exact ND]).
  destruct (in_dec string_dec n (map fst m)) as [Hin|Hout].
  - apply in_map_iff in Hin. destruct Hin as [[k v] [Hk Hin]]. cbn in Hk. subst k.
    rewrite (find_key_in m n v ND Hin).
    rewrite (find_key_in m' n v ND' (Permutation_in _ P Hin)). reflexivity.
  - rewrite (find_key_none m n Hout).
    rewrite (find_key_none m' n); [reflexivity|].
    intros H. apply Hout. eapply Permutation_in; [apply Permutation_sym, Permutation_map, P | exact H].
Qed.
Theorem translate_order_independent (m m' : list (string * string)) names :
  NoDup (map fst m) -> Permutation m m' -> translate m names = translate m' names.
Proof. intros ND P. unfold translate. apply map_ext. intros n. apply lookup_perm; assumption. Qed.

(* names that are not keys stay; keys go to their values, whatever the values are (also other parameter names) *)
Theorem translate_spec m names j n : nth_error names j = Some n ->
  nth_error (translate m names) j =
  Some (match find (fun kv => String.eqb (fst kv) n) m with Some kv => snd kv | None => n end).
Proof. intros H. unfold translate. rewrite nth_error_map, H. reflexivity. Qed.

Theorem translate_chained_refuted : exists m names,
  NoDup (map fst m) /\ NoDup names /\ translate_chained m names <> translate m names.
Proof.
  exists [("a", "b")%string; ("b", "c")%string], ["a"; "b"]%string. repeat split.
  - repeat constructor; cbn; intuition discriminate.
  - repeat constructor; cbn; intuition discriminate.
  - cbn. discriminate.
Qed.


Lemma list_sum_cons x l : list_sum (x :: l) = x + list_sum l.
Proof. reflexivity. Qed.

Lemma count_occ_sum k draws : Forall (fun d => d < k) draws -> list_sum (counts k draws) = List.length draws.
Proof.
  unfold counts. induction 1 as [|d draws Hd _ IH]; cbn [count_occ List.length].
  - induction (seq 0 k) as [|x l IHl]; [reflexivity | cbn; exact IHl].
  - rewrite <- IH. clear IH.
    assert (G : forall s, NoDup s -> list_sum (map (fun m => if Nat.eq_dec d m then S (count_occ Nat.eq_dec draws m) else count_occ Nat.eq_dec draws m) s)
                = (if in_dec Nat.eq_dec d s then 1 else 0) + list_sum (map (fun m => count_occ Nat.eq_dec draws m) s)).
    { induction s as [|x s IHs]; intros ND; [reflexivity|]. inversion ND; subst.
      cbn [map]. rewrite !list_sum_cons, IHs by assumption.
      destruct (Nat.eq_dec d x) as [->|Hne].
      - destruct (in_dec Nat.eq_dec x (x :: s)) as [_|Hn]; [|exfalso; apply Hn; left; reflexivity].
        destruct (in_dec Nat.eq_dec x s); [contradiction | lia].
      - destruct (in_dec Nat.eq_dec d (x :: s)) as [[He|Hi]|Hn]; [congruence | |].
        + destruct (in_dec Nat.eq_dec d s); [lia | contradiction].
        + destruct (in_dec Nat.eq_dec d s) as [Hi|_]; [exfalso; apply Hn; right; exact Hi | lia]. }
    replace (map (fun m => count_occ Nat.eq_dec (d :: draws) m) (seq 0 k))
      with (map (fun m => if Nat.eq_dec d m then S (count_occ Nat.eq_dec draws m) else count_occ Nat.eq_dec draws m) (seq 0 k)).
    2:{ apply map_ext. intros m. cbn [count_occ]. destruct (Nat.eq_dec d m); reflexivity. }
    rewrite (G _ (seq_NoDup k 0)).
    destruct (in_dec Nat.eq_dec d (seq 0 k)) as [_|Hn]; [lia|]. exfalso. apply Hn. apply in_seq. lia.
Qed.

Lemma id_models_length cs : List.length (id_models cs) = list_sum cs.
Proof.
  unfold id_models.
  assert (G : forall l, List.length (flat_map (fun m => repeat m (nth m cs 0)) l) = list_sum (map (fun m => nth m cs 0) l)).
  { induction l as [|x l IH]; [reflexivity|]. cbn [flat_map map]. rewrite list_sum_cons, app_length, repeat_length, IH. reflexivity. }
  rewrite G. f_equal. clear G.
  (* map (nth . cs 0) (seq 0 (List.length cs)) = cs *)
  induction cs as [|c cs IH] using rev_ind; [reflexivity|].
  rewrite app_length. cbn [List.length]. rewrite Nat.add_1_r, seq_S, map_app. cbn [map].
  rewrite app_nth2, Nat.sub_diag by lia. cbn [nth]. f_equal.
  rewrite <- IH at 2. apply map_ext_in. intros m Hm. apply in_seq in Hm. apply app_nth1. lia.
Qed.

(* every sample ID belongs to exactly one model; model m owns count m consecutive IDs *)
Theorem pam_partition k draws : Forall (fun d => d < k) draws ->
  List.length (id_models (counts k draws)) = List.length draws /\
  forall m, m < k -> count_occ Nat.eq_dec (id_models (counts k draws)) m = count_occ Nat.eq_dec draws m.
Proof.
  intros F. split; [rewrite id_models_length; apply count_occ_sum, F|].
  intros m Hm. unfold id_models. unfold counts at 2. rewrite map_length, seq_length.
  assert (G : forall l, NoDup l -> count_occ Nat.eq_dec (flat_map (fun j => repeat j (nth j (counts k draws) 0)) l) m =
                        if in_dec Nat.eq_dec m l then nth m (counts k draws) 0 else 0).
  { induction l as [|x l IH]; intros ND; [reflexivity|]. inversion ND; subst.
    cbn [flat_map]. rewrite count_occ_app, IH by assumption.
    destruct (Nat.eq_dec x m) as [->|Hne].
    - rewrite count_occ_repeat_eq by reflexivity.
      destruct (in_dec Nat.eq_dec m (m :: l)) as [_|Hn]; [|exfalso; apply Hn; left; reflexivity].
      destruct (in_dec Nat.eq_dec m l); [contradiction | lia].
    - rewrite count_occ_repeat_neq by (intro; apply Hne; congruence).
      destruct (in_dec Nat.eq_dec m (x :: l)) as [[He|Hi]|Hn]; [congruence | |].
      + destruct (in_dec Nat.eq_dec m l); [reflexivity | contradiction].
      + destruct (in_dec Nat.eq_dec m l) as [Hi|_]; [exfalso; apply Hn; right; exact Hi | reflexivity]. }
  rewrite (G _ (seq_NoDup k 0)).
  destruct (in_dec Nat.eq_dec m (seq 0 k)) as [_|Hn]; [|exfalso; apply Hn; apply in_seq; lia].
  unfold counts. rewrite (nth_indep _ 0 ((fun j => count_occ Nat.eq_dec draws j) 0)) by (rewrite map_length, seq_length; exact Hm).
  rewrite (map_nth (fun j => count_occ Nat.eq_dec draws j)), seq_nth by exact Hm. reflexivity.
Qed.

(* the counts of numpy.unique are those counts only if every model was drawn *)
Theorem counts_unique_refuted : exists k draws, Forall (fun d => d < k) draws /\
  id_models (counts_unique k draws) <> id_models (counts k draws).
Proof. exists 3, [0; 2; 2]. split; [repeat constructor | cbn; discriminate]. Qed.
