(* Proofs about Model/Predictive.v. *)
From Coq Require Import List Bool String Arith Lia.
From Chi Require Import Model.Predictive Proofs.Inference.
Import ListNotations.

Section PredictiveProofs.
  Variables T V : Type.
  Variable t0 : T.
  Variable v0 : V.
  Notation row := (row T V).
  Definition r0 : row := (0, t0, EmptyString, v0).

  Lemma length_flat_map_const {A B} (f : A -> list B) l k :
    (forall x, In x l -> List.length (f x) = k) -> List.length (flat_map f l) = List.length l * k.
  Proof. apply length_flat_map_uniform. Qed.

  (* (1) one row per (output, time, sample); the row of (o, t, s) sits at index (o * n_times + t) * n_samples + s
     and carries sample ID s+1, the t-th time, the o-th output name and the value of exactly that triple *)
  Theorem table_ots_length names times n value :
    List.length (table_ots T V t0 names times n value) = List.length names * (List.length times * n).
  Proof.
    unfold table_ots. rewrite (length_flat_map_const _ _ (List.length times * n)); [now rewrite seq_length|].
    intros o _. rewrite (length_flat_map_const _ _ n); [now rewrite seq_length|].
    intros t _. now rewrite map_length, seq_length.
  Qed.
  Theorem table_ots_row names times n value o t s :
    o < List.length names -> t < List.length times -> s < n ->
    nth ((o * List.length times + t) * n + s) (table_ots T V t0 names times n value) r0
    = (S s, nth t times t0, nth o names EmptyString, value o t s).
  Proof.
    intros Ho Ht Hs. unfold table_ots.
    replace ((o * List.length times + t) * n + s) with (o * (List.length times * n) + (t * n + s)) by lia.
    rewrite (nth_flat_map_uniform _ (seq 0 (List.length names)) (List.length times * n) o (t * n + s) 0 r0).
    - rewrite seq_nth by exact Ho. cbn [plus].
      rewrite (nth_flat_map_uniform _ (seq 0 (List.length times)) n t s 0 r0).
      + rewrite seq_nth by exact Ht. cbn [plus].
        rewrite (nth_indep _ r0 ((fun s0 => (S s0, nth t times t0, nth o names EmptyString, value o t s0)) 0))
          by (rewrite map_length, seq_length; exact Hs).
        rewrite (map_nth (fun s0 => (S s0, nth t times t0, nth o names EmptyString, value o t s0))).
        now rewrite seq_nth by exact Hs.
      + intros x _. now rewrite map_length, seq_length.
      + now rewrite seq_length.
      + exact Hs.
    - intros x _. rewrite (length_flat_map_const _ _ n); [now rewrite seq_length|].
      intros y _. now rewrite map_length, seq_length.
    - now rewrite seq_length.
    - nia.
  Qed.

  (* (2) prior / posterior predictive tables: the row of (s, o, t) sits at (s * n_outputs + o) * n_times + t *)
  Theorem table_sot_length names times n value :
    List.length (table_sot T V t0 names times n value) = n * (List.length names * List.length times).
  Proof.
    unfold table_sot. rewrite (length_flat_map_const _ _ (List.length names * List.length times)); [now rewrite seq_length|].
    intros s _. rewrite (length_flat_map_const _ _ (List.length times)); [now rewrite seq_length|].
    intros o _. now rewrite map_length, seq_length.
  Qed.
  Theorem table_sot_row names times n value s o t :
    s < n -> o < List.length names -> t < List.length times ->
    nth ((s * List.length names + o) * List.length times + t) (table_sot T V t0 names times n value) r0
    = (S s, nth t times t0, nth o names EmptyString, value o t s).
  Proof.
    intros Hs Ho Ht. unfold table_sot.
    replace ((s * List.length names + o) * List.length times + t)
      with (s * (List.length names * List.length times) + (o * List.length times + t)) by lia.
    rewrite (nth_flat_map_uniform _ (seq 0 n) (List.length names * List.length times) s (o * List.length times + t) 0 r0).
    - rewrite seq_nth by exact Hs. cbn [plus].
      rewrite (nth_flat_map_uniform _ (seq 0 (List.length names)) (List.length times) o t 0 r0).
      + rewrite seq_nth by exact Ho. cbn [plus].
        rewrite (nth_indep _ r0 ((fun t1 => (S s, nth t1 times t0, nth o names EmptyString, value o t1 s)) 0))
          by (rewrite map_length, seq_length; exact Ht).
        rewrite (map_nth (fun t1 => (S s, nth t1 times t0, nth o names EmptyString, value o t1 s))).
        now rewrite seq_nth by exact Ht.
      + intros x _. now rewrite map_length, seq_length.
      + now rewrite seq_length.
      + exact Ht.
    - intros x _. rewrite (length_flat_map_const _ _ (List.length times)); [now rewrite seq_length|].
      intros y _. now rewrite map_length, seq_length.
    - now rewrite seq_length.
    - nia.
  Qed.

  (* (3) population predictive model: patient p is the model's transform of draw p *)
  Theorem patients_spec {E P} (indiv : E -> P) (draws : list E) p (e0 : E) :
    p < List.length draws -> nth p (patients indiv draws) (indiv e0) = indiv (nth p draws e0).
  Proof. intros _. unfold patients. apply map_nth. Qed.

  (* (4) posterior predictive model: every row of the pool is ONE joint draw — all its entries come from the same
     (chain, draw) — and every (chain, draw) contributes exactly one row *)
  Theorem posterior_rows_joint n_chains n_draws (params : list (nat -> nat -> V)) c d :
    c < n_chains -> d < n_draws ->
    nth (c * n_draws + d) (posterior_rows V n_chains n_draws params) [] = map (fun f => f c d) params.
  Proof.
    intros Hc Hd. unfold posterior_rows.
    rewrite (nth_flat_map_uniform _ (seq 0 n_chains) n_draws c d 0 []).
    - rewrite seq_nth by exact Hc. cbn [plus].
      rewrite (nth_indep _ [] ((fun d0 => map (fun f => f c d0) params) 0)) by (rewrite map_length, seq_length; exact Hd).
      rewrite (map_nth (fun d0 => map (fun f => f c d0) params)). now rewrite seq_nth by exact Hd.
    - intros x _. now rewrite map_length, seq_length.
    - now rewrite seq_length.
    - exact Hd.
  Qed.
  Theorem posterior_rows_length n_chains n_draws (params : list (nat -> nat -> V)) :
    List.length (posterior_rows V n_chains n_draws params) = n_chains * n_draws.
  Proof.
    unfold posterior_rows. rewrite (length_flat_map_const _ _ n_draws); [now rewrite seq_length|].
    intros c _. now rewrite map_length, seq_length.
  Qed.

  (* (5) averaged model: the IDs of model m are shifted past those of the models before it *)
  Lemma shift_ids_In k rows i t o v : In (i, t, o, v) (shift_ids T V k rows) <-> exists j, i = j + k /\ In (j, t, o, v) rows.
  Proof.
    unfold shift_ids. rewrite in_map_iff. split.
    - intros [[[[j t'] o'] v'] [E I]]. inversion E; subst. now exists j.
    - intros [j [-> I]]. now exists (j, t, o, v).
  Qed.
  Theorem pam_ids_in_range tables before i t o v :
    (forall n rows, In (n, rows) tables -> forall j t' o' v', In (j, t', o', v') rows -> 1 <= j <= n) ->
    In (i, t, o, v) (pam_tables T V tables before) ->
    before < i <= before + list_sum (map fst tables).
  Proof.
    revert before; induction tables as [|[n rows] rest IH]; intros before H I; [cbn in I; contradiction|].
    change (list_sum (map fst ((n, rows) :: rest))) with (n + list_sum (map fst rest)).
    cbn [pam_tables] in I. apply in_app_or in I. destruct I as [I|I].
    - destruct (Nat.eqb n 0); [contradiction|]. apply shift_ids_In in I. destruct I as [j [-> Ij]].
      specialize (H n rows (or_introl eq_refl) j t o v Ij). lia.
    - assert (H' : forall n0 rows0, In (n0, rows0) rest -> forall j t' o' v', In (j, t', o', v') rows0 -> 1 <= j <= n0)
        by (intros n0 rows0 I0; apply H; now right).
      specialize (IH (before + n) H' I). lia.
  Qed.
End PredictiveProofs.
