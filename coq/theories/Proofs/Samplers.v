(* Proofs for C06: each sampling transform pushes the primitive law forward to the density the model scores. *)
From Coq Require Import Reals Lra List ssreflect.
From Coquelicot Require Import Coquelicot.
From Chi Require Import Base.RSum Base.Score Base.GaussInt Base.Normal Base.Phi
     Model.ErrorModels Model.PopModels Model.Samplers Proofs.ErrorModels Proofs.PopModels.
Import ListNotations.
Open Scope R_scope.

(* ---------------- affine transforms of a standard normal ---------------- *)
Lemma affine_pushforward a s (pdf : R -> R) : 0 < s ->
  (forall lo hi, is_RInt pdf lo hi (RInt phi ((lo - a) / s) ((hi - a) / s))) ->
  normal_pushforward (fun z => a + s * z) (fun y => (y - a) / s) (fun _ => True) pdf.
Proof.
  move=> Hs H. split; [|split; [|split]].
  - move=> z. split=> //. field. lra.
  - move=> y _. field. lra.
  - move=> z z' Hz. have := Rmult_lt_compat_l s z z' Hs Hz. lra.
  - move=> lo hi _ _. apply H.
Qed.

Theorem G_sampler s m : 0 < s ->
  normal_pushforward (G_sample s m) (fun y => (y - m) / s) (fun _ => True) (fun y => exp (G_pw s m y)).
Proof. move=> Hs. apply (affine_pushforward m s) => // lo hi. by apply G_interval_mass. Qed.

Theorem MG_sampler sr m : 0 < sr * m ->
  normal_pushforward (MG_sample sr m) (fun y => (y - m) / (sr * m)) (fun _ => True) (fun y => exp (MG_pw sr m y)).
Proof.
  move=> Hs. apply (affine_pushforward m (sr * m)) => // lo hi.
  apply is_RInt_ext with (normal_pdf (sr * m) m).
  - move=> y _. by rewrite MG_density.
  - by apply normal_interval_mass.
Qed.

(* the documented constant + multiplicative sampler: ONE variate scaled by sb + sr m *)
Theorem CMG_doc_sampler sb sr m : 0 < sb + sr * m ->
  normal_pushforward (CMG_sample_doc sb sr m) (fun y => (y - m) / (sb + sr * m)) (fun _ => True)
                     (fun y => exp (CMG_pw sb sr m y)).
Proof. move=> Hs. apply (affine_pushforward m (sb + sr * m)) => // lo hi. by apply CMG_interval_mass. Qed.

(* what chi's sampler does: two independent variates.  Its variance is sb^2 + (m sr)^2; the density it scores has
   variance (sb + sr m)^2.  They differ whenever sb, sr and m are all non-zero. *)
Lemma CMG_code_is_linear sb sr m z1 z2 : CMG_sample_code sb sr m z1 z2 = m + (sb * z1 + (m * sr) * z2).
Proof. rewrite /CMG_sample_code. ring. Qed.
Theorem CMG_code_variance_refuted sb sr m : sb * sr * m <> 0 ->
  lin_var [sb; m * sr] <> (sb + sr * m)^2.
Proof. move=> H. rewrite /lin_var /=. move=> E. apply H. nra. Qed.
Theorem CMG_code_variance_agrees_iff sb sr m :
  lin_var [sb; m * sr] = (sb + sr * m)^2 <-> sb * sr * m = 0.
Proof. rewrite /lin_var /=. split=> H; nra. Qed.

(* ---------------- log-normal transforms ---------------- *)
Theorem LN_sampler s m : 0 < s -> 0 < m ->
  normal_pushforward (LN_sample s m) (LN_g s m) (fun y => 0 < y) (fun y => exp (LN_pw s m y)).
Proof.
  move=> Hs Hm. split; [|split; [|split]].
  - move=> z. rewrite /LN_sample /LN_g.
    have Hp : 0 < m * exp (- s^2 / 2 + s * z) by apply Rmult_lt_0_compat; [|apply exp_pos].
    split=> //. rewrite ln_mult //; last by apply exp_pos. rewrite ln_exp. field. lra.
  - move=> y Hy. rewrite /LN_sample /LN_g.
    have -> : - s^2 / 2 + s * ((ln y - ln m + s^2 / 2) / s) = ln y - ln m by field; lra.
    rewrite /Rminus exp_plus exp_Ropp !exp_ln //. field. lra.
  - move=> z z' Hz. rewrite /LN_sample. apply Rmult_lt_compat_l => //. apply exp_increasing.
    have := Rmult_lt_compat_l s z z' Hs Hz. lra.
  - move=> a b Ha Hab. by apply LN_interval_mass.
Qed.

(* ---------------- population models ---------------- *)
Theorem Gpop_sampler mu sg : 0 < sg ->
  normal_pushforward (Gpop_sample mu sg) (fun y => (y - mu) / sg) (fun _ => True) (fun y => exp (G_lp mu sg y)).
Proof.
  move=> Hs. apply (affine_pushforward mu sg) => // lo hi.
  apply is_RInt_ext with (normal_pdf sg mu).
  - move=> y _. rewrite G_lp_density //.
  - by apply normal_interval_mass.
Qed.

Theorem LNpop_sampler mu sg : 0 < sg ->
  normal_pushforward (LNpop_sample mu sg) (fun y => (ln y - mu) / sg) (fun y => 0 < y)
                     (fun y => exp (LN_lp mu sg y)).
Proof.
  move=> Hs. set m := exp (mu + sg^2 / 2).
  have Hm : 0 < m by apply exp_pos.
  have Em : ln m = mu + sg^2 / 2 by rewrite /m ln_exp.
  have Eg y : LN_g sg m y = (ln y - mu) / sg by rewrite /LN_g Em; field; lra.
  split; [|split; [|split]].
  - move=> z. rewrite /LNpop_sample. split; first by apply exp_pos. rewrite ln_exp. field. lra.
  - move=> y Hy. rewrite /LNpop_sample.
    have -> : mu + sg * ((ln y - mu) / sg) = ln y by field; lra.
    by rewrite exp_ln.
  - move=> z z' Hz. rewrite /LNpop_sample. apply exp_increasing.
    have := Rmult_lt_compat_l sg z z' Hs Hz. lra.
  - move=> a b Ha Hab. rewrite -!Eg.
    apply is_RInt_ext with (fun y => exp (LN_pw sg m y)).
    + move=> y [Hy _]. rewrite Rmin_left in Hy; try lra.
      have Hy0 : 0 < y by lra.
      rewrite LN_density // LN_lp_density // /lognormal_pdf /lognormal_pdf_s Em.
      by have -> : mu + sg^2 / 2 - sg^2 / 2 = mu by lra.
    + by apply LN_interval_mass.
Qed.

(* non-centred models: the bottom-level parameter is eta = z, scored by the standard-normal log-density; chi's
   compute_individual_parameters then applies the centred transform, so psi has the centred law *)
Theorem NC_sampler :
  normal_pushforward NC_sample (fun y => y) (fun _ => True) (fun y => exp (NC_lp y)).
Proof.
  split; [|split; [|split]] => //.
  move=> a b _ _. apply is_RInt_ext with phi.
  - move=> y _. by rewrite NC_lp_density.
  - apply: RInt_correct. apply ex_RInt_phi.
Qed.
Theorem Gnc_individual_parameters mu sg z : Gnc_psi mu sg (NC_sample z) = Gpop_sample mu sg z.
Proof. by []. Qed.
Theorem LNnc_individual_parameters mu sg z : LNnc_psi mu sg (NC_sample z) = LNpop_sample mu sg z.
Proof. by []. Qed.

(* ---------------- truncated Gaussian ---------------- *)
(* the distribution function whose inverse scipy applies to a uniform variate: it starts at 0 in y = 0 and its
   derivative is the density the model scores, so P(a <= y <= b) = TG_cdf b - TG_cdf a = integral of the density *)
Lemma TG_cdf_zero mu sg : TG_cdf mu sg 0 = 0.
Proof. rewrite /TG_cdf. have -> : (0 - mu) / sg = - mu / sg by rewrite /Rdiv; ring. rewrite /Rdiv. ring. Qed.
Theorem TG_cdf_derive mu sg y : 0 < sg -> Phi (- mu / sg) < 1 ->
  is_derive (TG_cdf mu sg) y (exp (TG_lp mu sg y)).
Proof.
  move=> Hs HP. rewrite TG_lp_density // /truncnormal_pdf_s /TG_cdf.
  have Hq : 0 < 1 - Phi (- mu / sg) by lra.
  evar_last.
  - apply: is_derive_scal_l. apply: is_derive_minus; last by apply: is_derive_const.
    apply: (is_derive_comp Phi (fun t => (t - mu) / sg)); first by apply is_derive_Phi.
    auto_derive => //.
  - rewrite /scal /= /mult /= /minus /plus /opp /zero /=.
    have -> : normal_pdf_s mu sg y = / sg * phi ((y - mu) / sg).
    { rewrite /normal_pdf_s /phi. have Hq2 := sqrt2pi_pos.
      have -> : - (y - mu)^2 / (2 * sg^2) = - ((y - mu) / sg)^2 / 2 by field; lra.
      field; split; apply Rgt_not_eq; lra. }
    field; split; apply Rgt_not_eq; lra.
Qed.
Theorem TG_interval_mass mu sg a b : 0 < sg -> Phi (- mu / sg) < 1 ->
  is_RInt (fun y => exp (TG_lp mu sg y)) a b (TG_cdf mu sg b - TG_cdf mu sg a).
Proof.
  move=> Hs HP.
  have C : forall y, continuous (fun y => exp (TG_lp mu sg y)) y.
  { move=> y. apply: ex_derive_continuous. rewrite /TG_lp. auto_derive. done. }
  apply: (is_RInt_derive (TG_cdf mu sg)).
  - move=> y _. by apply TG_cdf_derive.
  - move=> y _. apply C.
Qed.

(* ---------------- moments reported by get_mean_and_std ---------------- *)
Lemma Phi_neg x : Phi (- x) = 1 - Phi x.
Proof. have := Phi_sym x. lra. Qed.
Lemma Phi_lim_p : is_lim Phi p_infty 1.
Proof.
  rewrite /Phi. replace (Finite 1) with (Finite (1/2 + 1/2)) by (f_equal; field).
  apply: is_lim_plus'.
  - apply is_lim_const.
  - apply phi_half_mass_right.
Qed.
Lemma lim_shift c : is_lim (fun t => t + c) p_infty p_infty.
Proof.
  replace p_infty with (Rbar_plus p_infty c) at 2 by done.
  apply: is_lim_plus; [apply is_lim_id | apply is_lim_const | done].
Qed.
Lemma Phi_window c : is_lim (fun t => Phi (t - c) - Phi (- t - c)) p_infty 1.
Proof.
  apply is_lim_ext with (fun t => Phi (t + - c) - (1 - Phi (t + c))).
  - move=> t. rewrite -Phi_neg. f_equal; f_equal; ring.
  - replace (Finite 1) with (Finite (1 - (1 - 1))) by (f_equal; ring).
    apply: is_lim_minus'.
    + apply (is_lim_comp Phi (fun t => t + - c) p_infty 1 p_infty); [apply Phi_lim_p | apply lim_shift |].
      exists 0 => y _. discriminate.
    + apply: is_lim_minus'; first by apply is_lim_const.
      apply (is_lim_comp Phi (fun t => t + c) p_infty 1 p_infty); [apply Phi_lim_p | apply lim_shift |].
      exists 0 => y _. discriminate.
Qed.
Lemma RInt_phi_Phi a b : RInt phi a b = Phi b - Phi a.
Proof.
  rewrite /Phi. have E := RInt_Chasles phi a 0 b (ex_RInt_phi a 0) (ex_RInt_phi 0 b).
  rewrite -E /plus /=. rewrite -(opp_RInt_swap phi 0 a); last by apply ex_RInt_phi.
  rewrite /opp /=. ring.
Qed.

(* exp(k (mu + sg u)) phi(u) = exp(k mu + k^2 sg^2 / 2) phi(u - k sg) *)
Lemma tilt k mu sg u : exp (k * (mu + sg * u)) * phi u = exp (k * mu + k^2 * sg^2 / 2) * phi (u - k * sg).
Proof.
  rewrite /phi.
  have -> : exp (k * (mu + sg * u)) * (/ sqrt (2 * PI) * exp (- u ^ 2 / 2))
            = / sqrt (2 * PI) * (exp (k * (mu + sg * u)) * exp (- u ^ 2 / 2)) by ring.
  have -> : exp (k * mu + k ^ 2 * sg ^ 2 / 2) * (/ sqrt (2 * PI) * exp (- (u - k * sg) ^ 2 / 2))
            = / sqrt (2 * PI) * (exp (k * mu + k ^ 2 * sg ^ 2 / 2) * exp (- (u - k * sg) ^ 2 / 2)) by ring.
  rewrite -!exp_plus. f_equal. f_equal. field.
Qed.

(* raw moments of the log-normal density: E[psi^k] = exp(k mu + k^2 sigma^2 / 2), as the limit over the intervals
   [exp(mu - sigma t), exp(mu + sigma t)] that exhaust (0, inf) *)
Theorem LN_raw_moment k mu sg : 0 < sg ->
  is_lim (fun t => RInt (fun y => exp (k * ln y) * exp (LN_lp mu sg y)) (exp (mu - sg * t)) (exp (mu + sg * t)))
         p_infty (exp (k * mu + k^2 * sg^2 / 2)).
Proof.
  move=> Hs. set g := fun y => (ln y - mu) / sg.
  apply is_lim_ext_loc with (fun t => exp (k * mu + k^2 * sg^2 / 2) * (Phi (t - k * sg) - Phi (- t - k * sg))).
  - exists 0 => t Ht. symmetry. apply is_RInt_unique.
    have Hab : exp (mu - sg * t) < exp (mu + sg * t).
    { apply exp_increasing. have := Rmult_lt_0_compat sg t Hs Ht. lra. }
    have Ga : g (exp (mu - sg * t)) = - t by rewrite /g ln_exp; field; lra.
    have Gb : g (exp (mu + sg * t)) = t by rewrite /g ln_exp; field; lra.
    apply is_RInt_ext with (fun y => scal (/ (sg * y)) ((fun u => exp (k * (mu + sg * u)) * phi u) (g y))).
    + move=> y [Hy _]. rewrite Rmin_left in Hy; last lra.
      have Hy0 : 0 < y by have := exp_pos (mu - sg * t); lra.
      rewrite LN_lp_density // /scal /= /mult /= /g /lognormal_pdf_s /phi.
      have -> : mu + sg * ((ln y - mu) / sg) = ln y by field; lra.
      have -> : - (ln y - mu)^2 / (2 * sg^2) = - ((ln y - mu) / sg)^2 / 2 by field; lra.
      have Hq := sqrt2pi_pos. field. split; [|split]; apply Rgt_not_eq; lra.
    + have -> : exp (k * mu + k ^ 2 * sg ^ 2 / 2) * (Phi (t - k * sg) - Phi (- t - k * sg))
                = RInt (fun u => exp (k * (mu + sg * u)) * phi u) (g (exp (mu - sg * t))) (g (exp (mu + sg * t))).
      { rewrite Ga Gb. symmetry. apply is_RInt_unique.
        apply is_RInt_ext with (fun u => scal (exp (k * mu + k^2 * sg^2 / 2)) (phi (1 * u + - (k * sg)))).
        - move=> u _. rewrite /scal /= /mult /= tilt. f_equal. f_equal. ring.
        - apply: is_RInt_scal.
          have -> : Phi (t - k * sg) - Phi (- t - k * sg)
                    = RInt phi (1 * - t + - (k * sg)) (1 * t + - (k * sg)).
          { rewrite RInt_phi_Phi. f_equal; f_equal; ring. }
          have H1 := is_RInt_comp_lin phi 1 (- (k * sg)) (- t) t (RInt phi (1 * - t + - (k * sg)) (1 * t + - (k * sg))).
          have H2 : is_RInt phi (1 * - t + - (k * sg)) (1 * t + - (k * sg))
                            (RInt phi (1 * - t + - (k * sg)) (1 * t + - (k * sg)))
            by apply: RInt_correct; apply ex_RInt_phi.
          move: (H1 H2). apply is_RInt_ext => u _. rewrite /scal /= /mult /=. ring. }
      apply: (is_RInt_comp (fun u => exp (k * (mu + sg * u)) * phi u) g (fun y => / (sg * y))).
      * move=> u _. apply: continuous_mult; last by apply cont_phi.
        apply: ex_derive_continuous. auto_derive. done.
      * move=> y [Hy _]. rewrite Rmin_left in Hy; last lra.
        have Hy0 : 0 < y by have := exp_pos (mu - sg * t); lra.
        split.
        -- rewrite /g. auto_derive; first lra. field. lra.
        -- apply: ex_derive_continuous. auto_derive. nra.
  - replace (Finite (exp (k * mu + k ^ 2 * sg ^ 2 / 2)))
      with (Rbar_mult (exp (k * mu + k ^ 2 * sg ^ 2 / 2)) 1) by (simpl; f_equal; ring).
    apply is_lim_scal_l. apply Phi_window.
Qed.

(* get_mean_and_std of the log-normal model: the mean is the first moment, the standard deviation the root of the
   second moment minus the squared mean *)
Theorem LN_mean_is_first_moment mu sg : 0 < sg ->
  is_lim (fun t => RInt (fun y => exp (1 * ln y) * exp (LN_lp mu sg y)) (exp (mu - sg * t)) (exp (mu + sg * t)))
         p_infty (LN_mean mu sg).
Proof.
  move=> Hs. have := LN_raw_moment 1 mu sg Hs. rewrite /LN_mean.
  by have -> : 1 * mu + 1^2 * sg^2 / 2 = mu + sg^2 / 2 by field.
Qed.
Theorem LN_std_from_moments mu sg :
  (LN_std mu sg)^2 = exp (2 * mu + 2^2 * sg^2 / 2) - (LN_mean mu sg)^2.
Proof.
  rewrite /LN_std /LN_mean.
  have Hpos : 0 <= (exp (sg^2) - 1) * exp (2 * mu + sg^2).
  { apply Rmult_le_pos; last by left; apply exp_pos.
    have := exp_ineq1_le (sg^2). nra. }
  rewrite -Rsqr_pow2 Rsqr_sqrt //.
  have -> : exp (mu + sg^2 / 2) ^ 2 = exp (2 * mu + sg^2).
  { rewrite -Rsqr_pow2 /Rsqr -exp_plus. f_equal. field. }
  have -> : 2 * mu + 2^2 * sg^2 / 2 = sg^2 + (2 * mu + sg^2) by field.
  set E := exp (2 * mu + sg^2). rewrite exp_plus -/E. ring.
Qed.

(* mean of the truncated Gaussian: limit of the integral of y * density over [0, b] *)
Lemma lim_lin a c : 0 < a -> is_lim (fun t => t * a + c) p_infty p_infty.
Proof.
  move=> Ha.
  apply (is_lim_comp (fun t => t + c) (fun t => t * a) p_infty p_infty p_infty).
  - apply lim_shift.
  - by apply lim_scal_pinfty.
  - exists 0 => y _. discriminate.
Qed.

Lemma TG_cdf_lim mu sg : 0 < sg -> Phi (- mu / sg) < 1 -> is_lim (TG_cdf mu sg) p_infty 1.
Proof.
  move=> Hs HP. set P0 := Phi (- mu / sg). have Hq : 0 < 1 - P0 by rewrite /P0; lra.
  apply is_lim_ext with (fun y => (Phi (y * / sg + - mu / sg) - P0) * / (1 - P0)).
  - move=> y. rewrite /TG_cdf -/P0. have -> : y * / sg + - mu / sg = (y - mu) / sg by field; lra. by rewrite /Rdiv.
  - replace (Finite 1) with (Rbar_mult (Finite (1 - P0)) (Finite (/ (1 - P0)))).
    2:{ simpl. f_equal. field. lra. }
    apply is_lim_scal_r. apply: is_lim_minus'; last by apply is_lim_const.
    apply (is_lim_comp Phi (fun y => y * / sg + - mu / sg) p_infty 1 p_infty).
    + apply Phi_lim_p.
    + apply lim_lin. by apply Rinv_0_lt_compat.
    + exists 0 => y _. discriminate.
Qed.

Lemma normal_pdf_s_lim mu sg : 0 < sg -> is_lim (normal_pdf_s mu sg) p_infty 0.
Proof.
  move=> Hs. have S2 := sqrt2_pos. have Hq := sqrt2pi_pos.
  set a := / (sqrt 2 * sg). have Ha : 0 < a by apply Rinv_0_lt_compat, Rmult_lt_0_compat.
  apply is_lim_ext with (fun y => / (sqrt (2 * PI) * sg) * exp (- (y * a + - mu * a)^2)).
  - move=> y. rewrite /normal_pdf_s. f_equal. f_equal. rewrite /a.
    have E : sqrt 2 * sqrt 2 = 2 by apply sqrt_sqrt; lra.
    have -> : (y * / (sqrt 2 * sg) + - mu * / (sqrt 2 * sg))^2 = (y - mu)^2 / ((sqrt 2 * sqrt 2) * sg^2)
      by field; split; apply Rgt_not_eq; lra.
    rewrite E. field. lra.
  - replace (Finite 0) with (Rbar_mult (Finite (/ (sqrt (2 * PI) * sg))) (Finite 0)) by (simpl; f_equal; ring).
    apply is_lim_scal_l.
    apply (is_lim_comp (fun t => exp (- t^2)) (fun y => y * a + - mu * a) p_infty 0 p_infty).
    + apply lim_exp_msq.
    + by apply lim_lin.
    + exists 0 => y _. discriminate.
Qed.

Definition TG_first_prim (mu sg y : R) : R :=
  mu * TG_cdf mu sg y - sg^2 * normal_pdf_s mu sg y / (1 - Phi (- mu / sg)).
Lemma TG_first_prim_derive mu sg y : 0 < sg -> Phi (- mu / sg) < 1 ->
  is_derive (TG_first_prim mu sg) y (y * exp (TG_lp mu sg y)).
Proof.
  move=> Hs HP. have Hq : 0 < 1 - Phi (- mu / sg) by lra. have Hq2 := sqrt2pi_pos.
  rewrite /TG_first_prim. evar_last.
  - apply: is_derive_minus.
    + apply: is_derive_scal. by apply TG_cdf_derive.
    + apply: (is_derive_scal_l (fun t => sg^2 * normal_pdf_s mu sg t)).
      apply: is_derive_scal. rewrite /normal_pdf_s. auto_derive; [done | reflexivity].
  - rewrite TG_lp_density // /truncnormal_pdf_s /normal_pdf_s.
    rewrite /scal /= /mult /= /minus /plus /opp /=.
    replace (exp (- ((y + - mu) * ((y + - mu) * 1)) * / (2 * (sg * (sg * 1)))))
      with (exp (- ((y - mu) * ((y - mu) * 1)) / (2 * (sg * (sg * 1))))) by (f_equal; field; lra).
    field. repeat split; apply Rgt_not_eq; lra.
Qed.

Theorem TG_mean_is_first_moment mu sg : 0 < sg -> Phi (- mu / sg) < 1 ->
  is_lim (fun b => RInt (fun y => y * exp (TG_lp mu sg y)) 0 b) p_infty (TG_mean mu sg).
Proof.
  move=> Hs HP. have Hq : 0 < 1 - Phi (- mu / sg) by lra. have Hq2 := sqrt2pi_pos.
  apply is_lim_ext with (fun b => TG_first_prim mu sg b - TG_first_prim mu sg 0).
  - move=> b. symmetry. apply is_RInt_unique. apply: (is_RInt_derive (TG_first_prim mu sg)).
    + move=> y _. by apply TG_first_prim_derive.
    + move=> y _. apply: continuous_mult; first by apply continuous_id.
      apply: ex_derive_continuous. rewrite /TG_lp. auto_derive. done.
  - have E0 : TG_first_prim mu sg 0 = - (sg * phi (mu / sg) / (1 - Phi (- mu / sg))).
    { rewrite /TG_first_prim TG_cdf_zero /normal_pdf_s /phi.
      have -> : - (0 - mu)^2 / (2 * sg^2) = - (mu / sg)^2 / 2 by field; lra.
      field. repeat split; apply Rgt_not_eq; lra. }
    rewrite E0 /TG_mean.
    replace (Finite (mu + sg * phi (mu / sg) / (1 - Phi (- mu / sg))))
      with (Finite ((mu * 1 - sg^2 * 0 / (1 - Phi (- mu / sg))) - - (sg * phi (mu / sg) / (1 - Phi (- mu / sg)))))
      by (f_equal; field; lra).
    apply: is_lim_minus'; last by apply is_lim_const.
    rewrite /TG_first_prim. apply: is_lim_minus'.
    + replace (Finite (mu * 1)) with (Rbar_mult (Finite mu) (Finite 1)) by done.
      apply is_lim_scal_l. by apply TG_cdf_lim.
    + apply is_lim_ext with (fun y => (sg^2 * / (1 - Phi (- mu / sg))) * normal_pdf_s mu sg y).
      * move=> y. field. lra.
      * replace (Finite (sg^2 * 0 / (1 - Phi (- mu / sg))))
          with (Rbar_mult (Finite (sg^2 * / (1 - Phi (- mu / sg)))) (Finite 0)) by (simpl; f_equal; field; lra).
        apply is_lim_scal_l. by apply normal_pdf_s_lim.
Qed.

(* second moment and standard deviation of the truncated Gaussian *)
Lemma lim_t_exp_msq : is_lim (fun t => t * exp (- t^2)) p_infty 0.
Proof.
  apply (is_lim_le_le_loc (fun _ => 0) (fun t => / t)).
  - exists 1 => t Ht. have Hp := exp_pos (- t^2). split; first by apply Rmult_le_pos; lra.
    have E : exp (t^2) * exp (- t^2) = 1.
    { rewrite -exp_plus. have -> : t^2 + - t^2 = 0 by ring. apply exp_0. }
    have H1 : t^2 <= exp (t^2) by have := exp_ineq1_le (t^2); lra.
    have Ht2 : 0 < t^2 by nra.
    have H2 : exp (- t^2) <= / t^2.
    { apply (Rmult_le_reg_l (exp (t^2))); first by apply exp_pos.
      rewrite E. have := Rinv_r (t^2) ltac:(lra). have Hi : 0 < / t^2 by apply Rinv_0_lt_compat. nra. }
    have -> : / t = t * / t^2 by field; lra.
    apply Rmult_le_compat_l; lra.
  - apply is_lim_const.
  - replace (Finite 0) with (Rbar_inv p_infty) by done. apply is_lim_inv; [apply is_lim_id | done].
Qed.

Lemma lim_y_normal_pdf mu sg : 0 < sg -> is_lim (fun y => (y + mu) * normal_pdf_s mu sg y) p_infty 0.
Proof.
  move=> Hs. have S2 := sqrt2_pos. have Hq := sqrt2pi_pos.
  set a := / (sqrt 2 * sg). have Ha : 0 < a by apply Rinv_0_lt_compat, Rmult_lt_0_compat.
  have E2 : sqrt 2 * sqrt 2 = 2 by apply sqrt_sqrt; lra.
  (* (y + mu) pdf = c1 * (u exp(-u^2)) + c2 * exp(-u^2) with u = (y - mu) a *)
  apply is_lim_ext with
    (fun y => / (sqrt (2 * PI) * sg) * (/ a) * ((y * a + - mu * a) * exp (- (y * a + - mu * a)^2))
              + 2 * mu * normal_pdf_s mu sg y).
  - move=> y. rewrite /normal_pdf_s.
    have -> : (y * a + - mu * a)^2 = (y - mu)^2 / (2 * sg^2).
    { rewrite /a. have -> : (y * / (sqrt 2 * sg) + - mu * / (sqrt 2 * sg))^2 = (y - mu)^2 / ((sqrt 2 * sqrt 2) * sg^2)
        by field; split; apply Rgt_not_eq; lra.
      by rewrite E2. }
    have -> : - ((y - mu)^2 / (2 * sg^2)) = - (y - mu)^2 / (2 * sg^2) by field; lra.
    rewrite /a. field. repeat split; apply Rgt_not_eq; lra.
  - replace (Finite 0) with (Finite (/ (sqrt (2 * PI) * sg) * (/ a) * 0 + 2 * mu * 0)) by (f_equal; ring).
    apply: is_lim_plus'.
    + apply is_lim_scal_l with (a := / (sqrt (2 * PI) * sg) * / a) (l := 0).
      apply (is_lim_comp (fun t => t * exp (- t^2)) (fun y => y * a + - mu * a) p_infty 0 p_infty).
      * apply lim_t_exp_msq.
      * by apply lim_lin.
      * exists 0 => y _. discriminate.
    + apply is_lim_scal_l with (a := 2 * mu) (l := 0). by apply normal_pdf_s_lim.
Qed.

Definition TG_second_prim (mu sg y : R) : R :=
  (mu^2 + sg^2) * TG_cdf mu sg y - sg^2 * ((y + mu) * normal_pdf_s mu sg y) / (1 - Phi (- mu / sg)).
Lemma TG_second_prim_derive mu sg y : 0 < sg -> Phi (- mu / sg) < 1 ->
  is_derive (TG_second_prim mu sg) y (y^2 * exp (TG_lp mu sg y)).
Proof.
  move=> Hs HP. have Hq : 0 < 1 - Phi (- mu / sg) by lra. have Hq2 := sqrt2pi_pos.
  rewrite /TG_second_prim. evar_last.
  - apply: is_derive_minus.
    + apply: is_derive_scal. by apply TG_cdf_derive.
    + apply: (is_derive_scal_l (fun t => sg^2 * ((t + mu) * normal_pdf_s mu sg t))).
      apply: is_derive_scal. rewrite /normal_pdf_s. auto_derive; [done | reflexivity].
  - rewrite TG_lp_density // /truncnormal_pdf_s /normal_pdf_s.
    rewrite /scal /= /mult /= /minus /plus /opp /=.
    replace (exp (- ((y + - mu) * ((y + - mu) * 1)) * / (2 * (sg * (sg * 1)))))
      with (exp (- ((y - mu) * ((y - mu) * 1)) / (2 * (sg * (sg * 1))))) by (f_equal; field; lra).
    field. repeat split; apply Rgt_not_eq; lra.
Qed.

Theorem TG_second_moment mu sg : 0 < sg -> Phi (- mu / sg) < 1 ->
  is_lim (fun b => RInt (fun y => y^2 * exp (TG_lp mu sg y)) 0 b) p_infty
         (mu^2 + sg^2 + sg * mu * (phi (mu / sg) / (1 - Phi (- mu / sg)))).
Proof.
  move=> Hs HP. have Hq : 0 < 1 - Phi (- mu / sg) by lra. have Hq2 := sqrt2pi_pos.
  apply is_lim_ext with (fun b => TG_second_prim mu sg b - TG_second_prim mu sg 0).
  - move=> b. symmetry. apply is_RInt_unique. apply: (is_RInt_derive (TG_second_prim mu sg)).
    + move=> y _. by apply TG_second_prim_derive.
    + move=> y _. apply: continuous_mult.
      * apply: ex_derive_continuous. auto_derive. done.
      * apply: ex_derive_continuous. rewrite /TG_lp. auto_derive. done.
  - have E0 : TG_second_prim mu sg 0 = - (sg * mu * (phi (mu / sg) / (1 - Phi (- mu / sg)))).
    { rewrite /TG_second_prim TG_cdf_zero /normal_pdf_s /phi.
      have -> : - (0 - mu)^2 / (2 * sg^2) = - (mu / sg)^2 / 2 by field; lra.
      field. repeat split; apply Rgt_not_eq; lra. }
    rewrite E0.
    replace (Finite (mu^2 + sg^2 + sg * mu * (phi (mu / sg) / (1 - Phi (- mu / sg)))))
      with (Finite (((mu^2 + sg^2) * 1 - sg^2 * / (1 - Phi (- mu / sg)) * 0)
                    - - (sg * mu * (phi (mu / sg) / (1 - Phi (- mu / sg))))))
      by (f_equal; field; lra).
    apply: is_lim_minus'; last by apply is_lim_const.
    rewrite /TG_second_prim. apply: is_lim_minus'.
    + apply is_lim_scal_l with (a := mu^2 + sg^2) (l := 1). by apply TG_cdf_lim.
    + apply is_lim_ext with (fun y => (sg^2 * / (1 - Phi (- mu / sg))) * ((y + mu) * normal_pdf_s mu sg y)).
      * move=> y. field. lra.
      * apply is_lim_scal_l with (a := sg^2 * / (1 - Phi (- mu / sg))) (l := 0). by apply lim_y_normal_pdf.
Qed.

(* get_mean_and_std of the truncated Gaussian: std^2 = second moment - mean^2 (where the reported radicand is
   non-negative) *)
Theorem TG_std_from_moments mu sg : 0 < sg -> Phi (- mu / sg) < 1 ->
  let F := phi (mu / sg) / (1 - Phi (- mu / sg)) in
  0 <= 1 - mu / sg * F - F^2 ->
  (TG_std mu sg)^2 = (mu^2 + sg^2 + sg * mu * F) - (TG_mean mu sg)^2.
Proof.
  move=> Hs HP F HF. rewrite /TG_std /TG_mean -/F.
  have -> : (sg * sqrt (1 - mu / sg * F - F^2))^2 = sg^2 * (sqrt (1 - mu / sg * F - F^2))^2 by ring.
  rewrite -(Rsqr_pow2 (sqrt _)) Rsqr_sqrt //.
  have -> : sg * phi (mu / sg) / (1 - Phi (- mu / sg)) = sg * F by rewrite /F; field; lra.
  field. lra.
Qed.
