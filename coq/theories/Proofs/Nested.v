(* Proofs about compositions of compositions (Model/Nested.v). Axiom-free. *)
From Coq Require Import List Arith Bool Lia.
From Chi Require Import Model.Layout Model.Nested Proofs.Layout.
Import ListNotations.

(* ---------------- induction principles for the rose trees ---------------- *)
Section TreeInd.
Variable P : tree -> Prop.
Hypothesis HL : forall s, P (Leaf s).
Hypothesis HN : forall ts, Forall P ts -> P (Node ts).
Fixpoint tree_rect' (t : tree) : P t :=
  match t with
  | Leaf s => HL s
  | Node ts => HN ts ((fix go (l : list tree) : Forall P l :=
                         match l with [] => Forall_nil P | x :: r => Forall_cons x (tree_rect' x) (go r) end) ts)
  end.
End TreeInd.

Lemma sum_of_app {A} (f : A -> nat) a b : sum_of f (a ++ b) = sum_of f a + sum_of f b.
Proof. unfold sum_of. induction a as [|x a IH]; simpl; [reflexivity|]. rewrite IH. lia. Qed.

Lemma sum_of_flat_map {A B} (f : B -> nat) (g : A -> list B) (h : A -> nat) l :
  Forall (fun x => h x = sum_of f (g x)) l -> sum_of h l = sum_of f (flat_map g l).
Proof.
  induction 1 as [|x l Hx _ IH]; [reflexivity|].
  cbn [flat_map]. rewrite sum_of_app, <- IH, <- Hx. reflexivity.
Qed.

Theorem t_dim_flat t : t_dim t = N_dim (flat t).
Proof.
  induction t as [s|ts IH] using tree_rect'; [cbn; unfold N_dim, sum_of; simpl; lia|].
  cbn [t_dim flat]. unfold N_dim. apply sum_of_flat_map. exact IH.
Qed.

Theorem t_hdim_flat t : t_hdim t = N_hdim (flat t).
Proof.
  induction t as [s|ts IH] using tree_rect'; [cbn; unfold N_hdim, sum_of; simpl; lia|].
  cbn [t_hdim flat]. unfold N_hdim. apply sum_of_flat_map. exact IH.
Qed.

Theorem t_par_flat n t : t_par n t = N_top n (flat t).
Proof.
  induction t as [s|ts IH] using tree_rect'; [cbn; unfold N_top, sum_of; simpl; lia|].
  cbn [t_par flat]. unfold N_top. apply sum_of_flat_map. exact IH.
Qed.

(* special ranges: shifting the start shifts every range *)
Lemma special_ranges_shift c : forall start,
  special_ranges start c = map (shift_range start) (special_ranges 0 c).
Proof.
  induction c as [|s c IH]; intros start; [reflexivity|].
  cbn [special_ranges]. rewrite map_app.
  rewrite (IH (start + sdim s)), (IH (0 + sdim s)), map_map.
  f_equal.
  - destruct (special (sk s)); [|reflexivity]. cbn. unfold shift_range. cbn. f_equal. f_equal; lia.
  - apply map_ext. intros [a b]. unfold shift_range. cbn. f_equal; lia.
Qed.

Lemma special_ranges_app a : forall b start,
  special_ranges start (a ++ b) = special_ranges start a ++ special_ranges (start + N_dim a) b.
Proof.
  induction a as [|s a IH]; intros b start.
  - cbn. f_equal. unfold N_dim, sum_of. simpl. lia.
  - cbn [app special_ranges]. rewrite IH, <- app_assoc, N_dim_cons.
    replace (start + sdim s + N_dim a) with (start + (sdim s + N_dim a)) by lia. reflexivity.
Qed.

Theorem t_special_flat t : t_special t = special_ranges 0 (flat t).
Proof.
  induction t as [s|ts IH] using tree_rect'.
  - cbn. destruct (special (sk s)); reflexivity.
  - cbn [t_special flat].
    (* generalise the running offset of the loop *)
    enough (G : forall off,
      (fix go (off : nat) (l : list tree) : list (nat * nat) :=
         match l with
         | [] => []
         | x :: r => map (shift_range off) (t_special x) ++ go (off + t_dim x) r
         end) off ts = special_ranges off (flat_map flat ts)) by apply G.
    induction IH as [|x r Hx _ IHr]; intros off; [reflexivity|].
    cbn [flat_map]. rewrite special_ranges_app, IHr, Hx, <- special_ranges_shift, t_dim_flat. reflexivity.
Qed.

Theorem nested_reports n_ids t :
  t_dim t = N_dim (flat t) /\ t_par n_ids t = N_top n_ids (flat t) /\ t_hdim t = N_hdim (flat t) /\
  t_special t = special_ranges 0 (flat t).
Proof. repeat split; [apply t_dim_flat | apply t_par_flat | apply t_hdim_flat | apply t_special_flat]. Qed.

(* ---------------- the number of individuals ---------------- *)
Section ObjInd.
Variable P : obj -> Prop.
Hypothesis HL : forall h n, P (OLeaf h n).
Hypothesis HN : forall n ts, Forall P ts -> P (ONode n ts).
Fixpoint obj_rect' (o : obj) : P o :=
  match o with
  | OLeaf h n => HL h n
  | ONode n ts => HN n ts ((fix go (l : list obj) : Forall P l :=
                         match l with [] => Forall_nil P | x :: r => Forall_cons x (obj_rect' x) (go r) end) ts)
  end.
End ObjInd.

Definition all_uniform (k : nat) (l : list obj) : Prop :=
  (fix all (l : list obj) : Prop := match l with [] => True | x :: r => uniform k x /\ all r end) l.
Lemma uniform_node k n ts : uniform k (ONode n ts) <-> n = k /\ all_uniform k ts.
Proof. reflexivity. Qed.
Lemma all_uniform_Forall k l : all_uniform k l <-> Forall (uniform k) l.
Proof.
  induction l as [|x r IH]; cbn; [split; auto|].
  rewrite IH. split; [intros [H1 H2]; constructor; assumption | intros H; inversion H; auto].
Qed.
Lemma uniform_o_n k o : uniform k o -> o_n o = k.
Proof. destruct o; cbn; [auto | intros [H _]; exact H]. Qed.

Lemma set_n_uniform k o : uniform (o_n o) o -> uniform k (set_n k o).
Proof.
  induction o as [h n|n ts IH] using obj_rect'; intros U; [reflexivity|].
  cbn [set_n]. destruct (Nat.eqb k n) eqn:E.
  - apply Nat.eqb_eq in E. subst k. exact U.
  - apply uniform_node. split; [reflexivity|].
    apply all_uniform_Forall. apply uniform_node in U. destruct U as [_ U]. cbn [o_n] in U.
    apply all_uniform_Forall in U. apply Forall_forall. intros y Hy. apply in_map_iff in Hy.
    destruct Hy as [x [<- Hx]]. rewrite Forall_forall in IH, U. apply IH; [exact Hx|].
    rewrite (uniform_o_n _ _ (U x Hx)). exact (U x Hx).
Qed.

Lemma first_gt1_ge1 l : 1 <= first_gt1 l.
Proof. induction l as [|x r IH]; cbn [first_gt1]; [lia|]. destruct (Nat.ltb 1 x) eqn:E; [apply Nat.ltb_lt in E; lia | exact IH]. Qed.
Lemma first_gt1_one l : first_gt1 l = 1 -> Forall (fun x => x <= 1) l.
Proof.
  induction l as [|x r IH]; cbn [first_gt1]; [constructor|]. destruct (Nat.ltb 1 x) eqn:E.
  - apply Nat.ltb_lt in E. lia.
  - apply Nat.ltb_ge in E. intros H. constructor; [exact E | apply IH, H].
Qed.

Section RecipeInd.
Variable P : recipe -> Prop.
Hypothesis HL : forall h n, P (RLeaf h n).
Hypothesis HN : forall rs, Forall P rs -> P (RNode rs).
Fixpoint recipe_rect' (r : recipe) : P r :=
  match r with
  | RLeaf h n => HL h n
  | RNode rs => HN rs ((fix go (l : list recipe) : Forall P l :=
                         match l with [] => Forall_nil P | x :: t => Forall_cons x (recipe_rect' x) (go t) end) rs)
  end.
End RecipeInd.
Lemma rwf_node rs : rwf (RNode rs) <-> Forall rwf rs.
Proof.
  cbn. induction rs as [|x t IH]; [split; auto|].
  rewrite IH. split; [intros [H1 H2]; constructor; assumption | intros H; inversion H; auto].
Qed.

Lemma make_ge1 r : rwf r -> 1 <= o_n (make build r).
Proof. destruct r as [h n|rs]; cbn [make o_n]; [auto|]. intros _. unfold build. cbn [o_n]. apply first_gt1_ge1. Qed.

Lemma uniform_build ts :
  (forall x, In x ts -> uniform (o_n x) x /\ 1 <= o_n x) -> uniform (o_n (build ts)) (build ts).
Proof.
  intros H. unfold build. cbn [o_n]. set (m := first_gt1 (map o_n ts)).
  apply uniform_node. split; [reflexivity|]. apply all_uniform_Forall.
  destruct (Nat.ltb 1 m) eqn:E.
  - apply Forall_forall. intros y Hy. apply in_map_iff in Hy. destruct Hy as [x [<- Hx]].
    apply set_n_uniform. apply H, Hx.
  - apply Nat.ltb_ge in E.
    assert (Hm : m = 1) by (pose proof (first_gt1_ge1 (map o_n ts)); subst m; lia).
    pose proof (first_gt1_one _ Hm) as Hle. rewrite Forall_forall in Hle.
    apply Forall_forall. intros x Hx. destruct (H x Hx) as [U G].
    assert (Ho : o_n x = m) by (assert (o_n x <= 1) by (apply Hle, in_map, Hx); lia).
    rewrite <- Ho. exact U.
Qed.

(* repaired constructor: whatever was composed, every object below works with the number the composition reports *)
Theorem built_uniform r : rwf r -> uniform (o_n (make build r)) (make build r).
Proof.
  induction r as [h n|rs IH] using recipe_rect'; intros W; [reflexivity|].
  apply rwf_node in W. cbn [make]. apply uniform_build.
  rewrite Forall_forall in IH, W.
  intros x Hx. apply in_map_iff in Hx. destruct Hx as [r [<- Hr]].
  split; [apply IH; [exact Hr | apply W, Hr] | apply make_ge1, W, Hr].
Qed.

(* ... and stays so under set_n_ids with any number *)
Corollary built_set_n_uniform r k : rwf r -> uniform k (set_n k (make build r)).
Proof. intros W. apply set_n_uniform, built_uniform, W. Qed.

(* the constructor before b4ba354: a composition can report k individuals, return early from set_n_ids k, and
   still contain an object that works with another number *)
Theorem build_old_refuted : exists r k,
  rwf r /\ o_n (make build_old r) = k /\ set_n k (make build_old r) = make build_old r /\
  ~ uniform k (make build_old r).
Proof.
  exists (RNode [RLeaf true 2; RNode [RLeaf false 1]]), 2.
  split; [cbn; lia|]. split; [reflexivity|]. split; [reflexivity|].
  cbn. intros [_ [_ [[H _] _]]]. discriminate H.
Qed.

(* ---------------- hierarchical sensitivities of nested compositions ---------------- *)
Section ReducedProofs.
Variable V : Type.
Notation dtree := (dtree V).

Section DInd.
Variable P : dtree -> Prop.
Hypothesis HL : forall w rows top, P (DLeaf V w rows top).
Hypothesis HN : forall ts, Forall P ts -> P (DNode V ts).
Fixpoint dtree_rect' (t : dtree) : P t :=
  match t with
  | DLeaf _ w rows top => HL w rows top
  | DNode _ ts => HN ts ((fix go (l : list dtree) : Forall P l :=
                         match l with [] => Forall_nil P | x :: r => Forall_cons x (dtree_rect' x) (go r) end) ts)
  end.
End DInd.

Lemma dwf_node n ts : dwf V n (DNode V ts) <-> Forall (dwf V n) ts.
Proof.
  cbn. induction ts as [|x t IH]; [split; auto|].
  rewrite IH. split; [intros [H1 H2]; constructor; assumption | intros H; inversion H; auto].
Qed.

(* a block: n rows of one width *)
Definition block (n w : nat) (b : list (list V)) : Prop := length b = n /\ forall r, In r b -> length r = w.

Lemma block_tl n w b : block (S n) w b -> block n w (tl b) /\ length (hd [] b) = w.
Proof.
  intros [L R]. destruct b as [|r b]; [discriminate|]. cbn in *. repeat split; [lia | | apply R; left; reflexivity].
  intros r' Hr. apply R. right. exact Hr.
Qed.

Lemma hcat_block : forall n blocks ws,
  Forall2 (block n) ws blocks -> block n (list_sum ws) (hcat V n blocks).
Proof.
  induction n as [|n IH]; intros blocks ws F.
  - split; [reflexivity | intros r []].
  - assert (T : Forall2 (block n) ws (map (fun b => tl b) blocks) /\
                length (flat_map (fun b => hd [] b) blocks) = list_sum ws).
    { induction F as [|w b ws' bs Hb _ IHF]; [split; [constructor | reflexivity]|].
      destruct IHF as [F1 F2]. destruct (block_tl _ _ _ Hb) as [Hb1 Hb2].
      split; [constructor; assumption|]. cbn [flat_map list_sum]. rewrite app_length, F2, Hb2. reflexivity. }
    destruct T as [T1 T2]. destruct (IH _ _ T1) as [L R].
    cbn [hcat]. split; [cbn; rewrite L; reflexivity|].
    intros r [<-|Hr]; [exact T2 | apply R, Hr].
Qed.

Lemma rows_shape n t : dwf V n t -> block n (d_hdim V t) (rows_spec V n t).
Proof.
  induction t as [w rows top|ts IH] using dtree_rect'; intros W.
  - destruct W as [L [R _]]. split; [exact L | exact R].
  - apply dwf_node in W. cbn [rows_spec d_hdim].
    replace (sum_of (d_hdim V) ts) with (list_sum (map (d_hdim V) ts))
      by (unfold sum_of; induction ts as [|x r IHr]; [reflexivity | cbn; f_equal; apply IHr;
          [inversion IH; assumption | inversion W; assumption]]).
    apply hcat_block. rewrite Forall_forall in IH, W.
    clear -IH W. induction ts as [|x r IHr]; [constructor|].
    cbn [map]. constructor.
    + apply IH; [left; reflexivity | apply W; left; reflexivity].
    + apply IHr; intros y Hy; [apply IH | apply W]; right; exact Hy.
Qed.

Lemma length_concat_block n w b : block n w b -> length (concat b) = n * w.
Proof.
  revert n. induction b as [|r b IH]; intros n [L R]; cbn in L; subst n; [reflexivity|].
  cbn [concat length]. rewrite app_length, (R r (or_introl eq_refl)).
  rewrite (IH (length b)); [reflexivity|]. split; [reflexivity | intros r' Hr; apply R; right; exact Hr].
Qed.

Lemma chunks_concat w b : (forall r, In r b -> length r = w) -> chunks V (length b) w (concat b) = b.
Proof.
  induction b as [|r b IH]; intros R; [reflexivity|].
  cbn [length concat chunks].
  assert (Lr : length r = w) by (apply R; left; reflexivity).
  subst w. rewrite firstn_app, Nat.sub_diag, firstn_all, firstn_O, app_nil_r.
  rewrite skipn_app, Nat.sub_diag, skipn_all, skipn_O. cbn [app].
  rewrite IH; [reflexivity | intros r' Hr; apply R; right; exact Hr].
Qed.

Lemma block_zero n b : block n 0 b -> b = repeat [] n.
Proof.
  revert n. induction b as [|r b IH]; intros n [L R]; cbn in L; subst n; [reflexivity|].
  cbn [length repeat]. f_equal.
  - apply length_zero_iff_nil, R. left; reflexivity.
  - apply IH. split; [reflexivity | intros r' Hr; apply R; right; exact Hr].
Qed.

Lemma sequence_map_Some {A B} (f : A -> option B) (g : A -> B) l :
  (forall x, In x l -> f x = Some (g x)) -> sequence (map f l) = Some (map g l).
Proof.
  induction l as [|x l IH]; intros H; [reflexivity|].
  cbn [map sequence]. rewrite (H x (or_introl eq_refl)), IH; [reflexivity | intros y Hy; apply H; right; exact Hy].
Qed.

(* the repaired assembly returns, for EVERY nesting, the bottom-level rows of the sub-models side by side
   (row by row) followed by their population-level entries in order *)
Theorem red_fixed n t : 0 < n -> dwf V n t ->
  red V (width_fixed V) n t = Some (concat (rows_spec V n t) ++ top_spec V t).
Proof.
  intros Hn. induction t as [w rows top|ts IH] using dtree_rect'; intros W; [reflexivity|].
  apply dwf_node in W. rewrite Forall_forall in IH, W.
  cbn [red].
  rewrite (sequence_map_Some _ (fun c => (rows_spec V n c, top_spec V c))).
  - assert (E1 : map fst (map (fun c => (rows_spec V n c, top_spec V c)) ts) = map (rows_spec V n) ts)
      by (rewrite map_map; apply map_ext; reflexivity).
    assert (E2 : flat_map snd (map (fun c => (rows_spec V n c, top_spec V c)) ts) = flat_map (top_spec V) ts)
      by (clear; induction ts as [|x r IHr]; [reflexivity | cbn [map flat_map snd]; rewrite IHr; reflexivity]).
    rewrite E1, E2. reflexivity.
  - intros c Hc. rewrite (IH c Hc (W c Hc)). unfold part.
    pose proof (rows_shape n c (W c Hc)) as B.
    pose proof (length_concat_block _ _ _ B) as LC.
    rewrite <- LC. rewrite firstn_app, Nat.sub_diag, firstn_O, app_nil_r, firstn_all.
    rewrite skipn_app, Nat.sub_diag, skipn_O, skipn_all. cbn [app]. rewrite LC.
    destruct (Nat.ltb 0 (n * d_hdim V c)) eqn:E.
    + unfold reshape, width_fixed. rewrite LC.
      rewrite (Nat.mul_comm n (d_hdim V c)), Nat.div_mul by lia.
      rewrite (Nat.mul_comm (d_hdim V c) n), Nat.eqb_refl.
      destruct B as [BL BR]. rewrite <- BL at 1. rewrite chunks_concat by exact BR. reflexivity.
    + apply Nat.ltb_ge in E. assert (Z : d_hdim V c = 0) by nia.
      rewrite Z in B. rewrite (block_zero _ _ B). reflexivity.
Qed.

(* the lengths agree with what the objects report *)
Corollary red_fixed_length n t ds : 0 < n -> dwf V n t -> red V (width_fixed V) n t = Some ds ->
  length ds = n * d_hdim V t + length (top_spec V t).
Proof.
  intros Hn W H. rewrite (red_fixed n t Hn W) in H. injection H as <-.
  rewrite app_length, (length_concat_block _ _ _ (rows_shape n t W)). reflexivity.
Qed.

(* nesting does not matter: a composition of compositions returns what the flat composition returns *)
Fixpoint dflat (t : dtree) : list dtree :=
  match t with DLeaf _ _ _ _ => [t] | DNode _ ts => flat_map dflat ts end.

Lemma top_spec_flat t : top_spec V t = flat_map (top_spec V) (dflat t).
Proof.
  induction t as [w rows top|ts IH] using dtree_rect'; [cbn; rewrite app_nil_r; reflexivity|].
  cbn [top_spec dflat]. induction IH as [|x r Hx _ IHr]; [reflexivity|].
  cbn [flat_map]. rewrite flat_map_app, <- Hx, IHr. reflexivity.
Qed.

(* row i of a side-by-side arrangement is the concatenation of the blocks' rows i *)
Lemma hcat_nth : forall n blocks,
  hcat V n blocks = map (fun i => flat_map (fun b => nth i b []) blocks) (seq 0 n).
Proof.
  induction n as [|n IH]; intros blocks; [reflexivity|].
  cbn [hcat seq map]. f_equal.
  - induction blocks as [|b r IHr]; [reflexivity|]. cbn [flat_map]. rewrite IHr. destruct b; reflexivity.
  - rewrite IH, <- seq_shift, map_map. apply map_ext. intros i.
    induction blocks as [|b r IHr]; [reflexivity|]. cbn [map flat_map]. rewrite IHr. destruct b; [destruct i|]; reflexivity.
Qed.

Lemma nth_map_seq {A} (f : nat -> A) n i d : i < n -> nth i (map f (seq 0 n)) d = f i.
Proof.
  intros Hi. rewrite (nth_indep _ d (f 0)) by (rewrite map_length, seq_length; exact Hi).
  rewrite (map_nth f), seq_nth by exact Hi. reflexivity.
Qed.

Lemma nth_hcat n blocks i : i < n -> nth i (hcat V n blocks) [] = flat_map (fun b => nth i b []) blocks.
Proof. intros Hi. rewrite hcat_nth. apply (nth_map_seq (fun i => flat_map (fun b => nth i b []) blocks)), Hi. Qed.

Theorem rows_spec_flat n t : dwf V n t -> rows_spec V n t = hcat V n (map (rows_spec V n) (dflat t)).
Proof.
  induction t as [w rows top|ts IH] using dtree_rect'; intros W.
  - destruct W as [L _]. cbn [dflat map rows_spec]. rewrite hcat_nth. cbn [flat_map]. subst n.
    clear. induction rows as [|r rows IHr]; [reflexivity|].
    cbn [length seq map nth]. rewrite app_nil_r. f_equal.
    rewrite <- seq_shift, map_map. rewrite IHr at 1. apply map_ext. intros i. reflexivity.
  - apply dwf_node in W. cbn [rows_spec dflat]. rewrite !hcat_nth. apply map_ext_in. intros i Hi.
    apply in_seq in Hi. destruct Hi as [_ Hi]. cbn in Hi.
    rewrite Forall_forall in IH, W. clear -IH W Hi.
    induction ts as [|x r IHr]; [reflexivity|].
    cbn [map flat_map]. rewrite map_app, flat_map_app.
    rewrite IHr; [| intros y Hy; apply IH; right; exact Hy | intros y Hy; apply W; right; exact Hy].
    f_equal. rewrite (IH x (or_introl eq_refl) (W x (or_introl eq_refl))).
    apply nth_hcat, Hi.
Qed.

Theorem nesting_is_flat n t : dwf V n t ->
  rows_spec V n t = hcat V n (map (rows_spec V n) (dflat t)) /\
  top_spec V t = flat_map (top_spec V) (dflat t).
Proof. intros W. split; [apply rows_spec_flat, W | apply top_spec_flat]. Qed.

(* before f4dfd54 the parent reserved n_dim columns for every sub-model: a nested composition with a pooled or
   heterogeneous dimension cannot be reshaped — an error where the repaired code (and the flat composition) returns
   the sensitivities *)
End ReducedProofs.

Theorem red_old_refuted : exists n (t : dtree nat),
  0 < n /\ dwf nat n t /\ red nat (width_old nat) n t = None /\ red nat (width_fixed nat) n t <> None.
Proof.
  exists 2, (DNode nat [DNode nat [DLeaf nat 1 [[]; []] [7]; DLeaf nat 1 [[1]; [2]] [8; 9]]]).
  split; [lia|]. split.
  - cbn. repeat split; try lia; intros r [<-|[<-|[]]]; reflexivity.
  - split; [reflexivity | discriminate].
Qed.

(* ... while for a flat composition of plain models (a sub-model has either no bottom-level entries or one per
   dimension) the old width was right, which is why nothing showed without nesting *)
Theorem red_old_flat_ok (V : Type) n ts : 0 < n ->
  Forall (fun c => match c with
                   | DLeaf _ w rows _ => length (hd [] rows) = w \/ length (hd [] rows) = 0
                   | DNode _ _ => False
                   end) ts ->
  red V (width_old V) n (DNode V ts) = red V (width_fixed V) n (DNode V ts).
Proof.
  intros Hn F. cbn [red].
  rewrite (map_ext_in _ (fun c => part V (width_fixed V) n c (red V (width_fixed V) n c))); [reflexivity|].
  intros c Hc. rewrite Forall_forall in F. specialize (F c Hc).
  destruct c as [w rows top|l]; [|destruct F]. cbn [red]. unfold part. cbn [d_hdim]. cbv zeta.
  destruct (Nat.ltb 0 (n * length (hd [] rows))) eqn:E; [|reflexivity].
  apply Nat.ltb_lt in E. unfold width_old, width_fixed. cbn [d_dim].
  destruct F as [F|F]; [|rewrite F in E; lia].
  rewrite F, (Nat.mul_comm n w), Nat.div_mul by lia. reflexivity.
Qed.
