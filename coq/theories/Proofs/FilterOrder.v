(* Proofs about Model/FilterOrder.v. Axiom-free. *)
From Coq Require Import List Arith Bool Lia Permutation.
From Chi Require Import Model.FilterOrder.
Import ListNotations.

Lemma list_sum_cons x l : list_sum (x :: l) = x + list_sum l.
Proof. reflexivity. Qed.

Lemma combine_app {A B} (a a' : list A) (b b' : list B) : length a = length b ->
  combine (a ++ a') (b ++ b') = combine a b ++ combine a' b'.
Proof.
  revert b. induction a as [|x a IH]; intros [|y b] L; cbn in L; try discriminate; [reflexivity|].
  cbn. f_equal. apply IH. lia.
Qed.

Lemma gather_length {A} (a0 : A) idx l : length (gather a0 idx l) = length idx.
Proof. apply map_length. Qed.

Lemma index_of_nth order : NoDup order -> forall j, j < length order -> index_of (nth j order 0) order = j.
Proof.
  induction order as [|x r IH]; intros ND j Hj; [cbn in Hj; lia|].
  inversion ND as [|? ? Hx ND']; subst. destruct j as [|j]; cbn [nth index_of].
  - rewrite Nat.eqb_refl. reflexivity.
  - destruct (Nat.eqb x (nth j r 0)) eqn:E.
    + apply Nat.eqb_eq in E. exfalso. apply Hx. rewrite E. apply nth_In. cbn in Hj. lia.
    + f_equal. apply IH; [exact ND' | cbn in Hj; lia].
Qed.

Lemma nth_index_of order k : In k order -> nth (index_of k order) order 0 = k /\ index_of k order < length order.
Proof.
  induction order as [|x r IH]; intros H; [destruct H|].
  cbn [index_of]. destruct (Nat.eqb x k) eqn:E.
  - apply Nat.eqb_eq in E. split; [exact E | cbn; lia].
  - destruct H as [H|H]; [subst; rewrite Nat.eqb_refl in E; discriminate|].
    destruct (IH H) as [A B]. split; [exact A | cbn; lia].
Qed.

Lemma perm_facts order n : Permutation order (seq 0 n) ->
  length order = n /\ NoDup order /\ (forall k, In k order <-> k < n).
Proof.
  intros P. split; [rewrite (Permutation_length P); apply seq_length|]. split.
  - apply (Permutation_NoDup (Permutation_sym P)), seq_NoDup.
  - intros k. split; intros H.
    + apply (Permutation_in _ P) in H. apply in_seq in H. lia.
    + apply (Permutation_in _ (Permutation_sym P)). apply in_seq. lia.
Qed.

Lemma nth_map_seq {A} (f : nat -> A) n i d : i < n -> nth i (map f (seq 0 n)) d = f i.
Proof.
  intros Hi. rewrite (nth_indep _ d (f 0)) by (rewrite map_length, seq_length; exact Hi).
  rewrite (map_nth f), seq_nth by exact Hi. reflexivity.
Qed.

(* argsort is the inverse permutation, on both sides *)
Theorem argsort_left_inverse order n j : Permutation order (seq 0 n) -> j < n ->
  nth (nth j order 0) (argsort order) 0 = j.
Proof.
  intros P Hj. destruct (perm_facts _ _ P) as [L [ND IN]].
  unfold argsort. rewrite L.
  assert (Hk : nth j order 0 < n) by (apply IN, nth_In; lia).
  rewrite (nth_map_seq (fun k => index_of k order)) by exact Hk.
  apply index_of_nth; [exact ND | lia].
Qed.
Theorem argsort_right_inverse order n k : Permutation order (seq 0 n) -> k < n ->
  nth (nth k (argsort order) 0) order 0 = k.
Proof.
  intros P Hk. destruct (perm_facts _ _ P) as [L [ND IN]].
  unfold argsort. rewrite L.
  rewrite (nth_map_seq (fun k => index_of k order)) by exact Hk.
  apply nth_index_of, IN, Hk.
Qed.

Theorem argsort_inverse order n j : Permutation order (seq 0 n) -> j < n ->
  nth (nth j order 0) (argsort order) 0 = j /\ nth (nth j (argsort order) 0) order 0 = j.
Proof. intros P Hj. split; [exact (argsort_left_inverse order n j P Hj) | exact (argsort_right_inverse order n j P Hj)]. Qed.

Lemma list_as_map_nth {A} (a0 : A) l : l = map (fun i => nth i l a0) (seq 0 (length l)).
Proof.
  induction l as [|x l IH]; [reflexivity|].
  cbn [length seq map nth]. f_equal. rewrite <- seq_shift, map_map. exact IH.
Qed.

Lemma combine_map_seq {A B} (f : nat -> A) (g : nat -> B) l :
  combine (map f l) (map g l) = map (fun i => (f i, g i)) l.
Proof. induction l as [|x l IH]; [reflexivity | cbn; f_equal; exact IH]. Qed.

(* the core: pairing the concatenated data with the re-sorted simulations is, up to the order of the pairs, pairing
   the re-ordered data with the simulations as given *)
Lemma reorder_core {S D} (s0 : S) (d0 : D) order (cat : list D) (sims : list S) :
  Permutation order (seq 0 (length cat)) -> length sims = length cat ->
  Permutation (combine cat (gather s0 (argsort order) sims)) (combine (gather d0 order cat) sims).
Proof.
  intros P L. set (n := length cat) in *.
  destruct (perm_facts _ _ P) as [Lo [ND IN]].
  pose (f := fun k => (nth k cat d0, nth (nth k (argsort order) 0) sims s0)).
  assert (Lt : length (argsort order) = n) by (unfold argsort; rewrite map_length, seq_length; exact Lo).
  assert (Gn : forall {A} (a0 : A) idx (l : list A) k, k < length idx ->
               nth k (gather a0 idx l) a0 = nth (nth k idx 0) l a0).
  { intros A a0 idx l k Hk. unfold gather.
    rewrite (nth_indep _ a0 ((fun i => nth i l a0) 0)) by (rewrite map_length; exact Hk).
    apply (map_nth (fun i => nth i l a0)). }
  assert (E1 : combine cat (gather s0 (argsort order) sims) = map f (seq 0 n)).
  { apply (nth_ext _ _ (d0, s0) (f 0)).
    - rewrite combine_length, gather_length, Lt, map_length, seq_length. fold n. lia.
    - intros k Hk. rewrite combine_length, gather_length, Lt in Hk. fold n in Hk.
      rewrite combine_nth by (rewrite gather_length, Lt; reflexivity).
      rewrite (nth_map_seq f) by lia. unfold f. f_equal. apply Gn. lia. }
  assert (E2 : combine (gather d0 order cat) sims = map f order).
  { apply (nth_ext _ _ (d0, s0) (f 0)).
    - rewrite combine_length, gather_length, map_length, Lo. lia.
    - intros j Hj. rewrite combine_length, gather_length, Lo in Hj.
      rewrite combine_nth by (rewrite gather_length, Lo; lia).
      rewrite (map_nth f). unfold f. f_equal; [apply Gn; lia|].
      rewrite (argsort_left_inverse order n); [reflexivity | exact P | lia]. }
  rewrite E1, E2. apply Permutation_map, Permutation_sym, P.
Qed.

Section OrderProofs.
Variables S D G : Type.
Variables (s0 : S) (d0 : D) (g0 : G).
Notation ftree := (ftree D).

Section FInd.
Variable P : ftree -> Prop.
Hypothesis HL : forall cols o, P (FLeaf D cols o).
Hypothesis HN : forall o ts, Forall P ts -> P (FNode D o ts).
Fixpoint ftree_rect' (t : ftree) : P t :=
  match t with
  | FLeaf _ cols o => HL cols o
  | FNode _ o ts => HN o ts ((fix go (l : list ftree) : Forall P l :=
                         match l with [] => Forall_nil P | x :: r => Forall_cons x (ftree_rect' x) (go r) end) ts)
  end.
End FInd.

Lemma fwf_node o ts : fwf D (FNode D o ts) <-> is_order o (list_sum (map (n_times D) ts)) /\ Forall (fwf D) ts.
Proof.
  cbn. split; intros [A B]; (split; [exact A|]); clear A.
  - induction ts as [|x r IH]; [constructor|]. destruct B as [B1 B2]. constructor; [exact B1 | apply IH, B2].
  - induction ts as [|x r IH]; [exact I|]. inversion B; subst. split; [assumption | apply IH; assumption].
Qed.

Lemma reorder_length {A} (a0 : A) o l n : is_order o n -> length l = n -> length (reorder a0 o l) = n.
Proof.
  destruct o as [order|]; cbn; intros P L; [|exact L].
  rewrite gather_length, (Permutation_length P). apply seq_length.
Qed.

Lemma presented_length t : fwf D t -> length (presented D d0 t) = n_times D t.
Proof.
  induction t as [cols o|o ts IH] using ftree_rect'; intros W.
  - cbn in *. apply reorder_length; [exact W | reflexivity].
  - apply fwf_node in W. destruct W as [Wo Wt]. cbn [presented n_times].
    apply reorder_length; [exact Wo|].
    rewrite Forall_forall in IH, Wt. clear Wo.
    induction ts as [|x r IHr]; [reflexivity|].
    cbn [flat_map map]. rewrite list_sum_cons, app_length, (IH x (or_introl eq_refl) (Wt x (or_introl eq_refl))).
    f_equal. apply IHr; intros y Hy; [apply IH | apply Wt]; right; exact Hy.
Qed.

(* every simulated time point j is scored against the data column the filter presents at position j — for every
   nesting of compositions, each with an order of its own *)
Theorem pairs_spec t : fwf D t -> forall sims, length sims = n_times D t ->
  Permutation (pairs S D s0 d0 t sims) (combine (presented D d0 t) sims).
Proof.
  induction t as [cols o|o ts IH] using ftree_rect'; intros W sims L; [reflexivity|].
  apply fwf_node in W. destruct W as [Wo Wt]. cbn [pairs presented].
  set (cat := flat_map (presented D d0) ts).
  assert (Lcat : length cat = list_sum (map (n_times D) ts)).
  { subst cat. rewrite Forall_forall in Wt. clear -Wt.
    induction ts as [|x r IHr]; [reflexivity|].
    cbn [flat_map map]. rewrite list_sum_cons, app_length, (presented_length x (Wt x (or_introl eq_refl))).
    f_equal. apply IHr. intros y Hy. apply Wt. right. exact Hy. }
  (* the loop over the sub-filters pairs the concatenated presented columns with the slices *)
  assert (Loop : forall rest, length rest = list_sum (map (n_times D) ts) ->
     Permutation ((fix go (l : list ftree) (rest : list S) : list (D * S) :=
         match l with
         | [] => []
         | x :: r => pairs S D s0 d0 x (firstn (n_times D x) rest) ++ go r (skipn (n_times D x) rest)
         end) ts rest) (combine cat rest)).
  { subst cat. rewrite Forall_forall in IH, Wt. clear -IH Wt.
    induction ts as [|x r IHr]; intros rest Lr; [reflexivity|].
    cbn [flat_map map] in *. rewrite list_sum_cons in Lr.
    assert (Lx : length (presented D d0 x) = n_times D x) by (apply presented_length, Wt; left; reflexivity).
    rewrite <- (firstn_skipn (n_times D x) rest) at 3.
    rewrite combine_app by (rewrite Lx, firstn_length; lia).
    apply Permutation_app.
    - apply IH; [left; reflexivity | apply Wt; left; reflexivity | rewrite firstn_length; lia].
    - apply IHr; [intros y Hy; apply IH; right; exact Hy | intros y Hy; apply Wt; right; exact Hy |
                  rewrite skipn_length; lia]. }
  destruct o as [order|]; cbn [reorder].
  - cbn in Wo. rewrite <- Lcat in Wo.
    eapply Permutation_trans; [apply Loop; rewrite gather_length; unfold argsort; rewrite map_length, seq_length;
                               rewrite (Permutation_length Wo), seq_length; exact Lcat|].
    apply reorder_core; [exact Wo | cbn [n_times] in L; rewrite L, Lcat; reflexivity].
  - apply Loop. exact L.
Qed.

(* the sensitivities come back in the ordering of the input: entry j belongs to the data column presented at j *)
Variable leaf_sens : D -> G.
Lemma gather_map {A B} (a0 : A) (b0 : B) (h : A -> B) idx l :
  (forall i, In i idx -> i < length l) -> gather b0 idx (map h l) = map h (gather a0 idx l).
Proof.
  intros H. unfold gather. rewrite map_map. apply map_ext_in. intros i Hi.
  rewrite (nth_indep _ b0 (h a0)) by (rewrite map_length; apply H, Hi). apply map_nth.
Qed.
Theorem sens_spec t : fwf D t -> sens D G d0 g0 leaf_sens t = map leaf_sens (presented D d0 t).
Proof.
  induction t as [cols o|o ts IH] using ftree_rect'; intros W; [reflexivity|].
  apply fwf_node in W. destruct W as [Wo Wt]. cbn [sens presented].
  assert (E : flat_map (sens D G d0 g0 leaf_sens) ts = map leaf_sens (flat_map (presented D d0) ts)).
  { rewrite Forall_forall in IH, Wt. clear -IH Wt. induction ts as [|x r IHr]; [reflexivity|].
    cbn [flat_map]. rewrite map_app, (IH x (or_introl eq_refl) (Wt x (or_introl eq_refl))). f_equal.
    apply IHr; intros y Hy; [apply IH | apply Wt]; right; exact Hy. }
  rewrite E. destruct o as [order|]; cbn [reorder]; [|reflexivity].
  apply gather_map. intros i Hi. cbn in Wo.
  apply (Permutation_in _ Wo) in Hi. apply in_seq in Hi.
  assert (Lcat : length (flat_map (presented D d0) ts) = list_sum (map (n_times D) ts)).
  { rewrite Forall_forall in Wt. clear -Wt. induction ts as [|x r IHr]; [reflexivity|].
    cbn [flat_map map]. rewrite list_sum_cons, app_length, (presented_length x (Wt x (or_introl eq_refl))).
    f_equal. apply IHr. intros y Hy. apply Wt. right. exact Hy. }
  rewrite Lcat. lia.
Qed.
End OrderProofs.

(* a composition that unpacks a nested composition and forgets its order scores other pairs *)
Theorem unpacking_refuted : exists (t : ftree nat) (flatten : ftree nat) (sims : list nat),
  fwf nat t /\ length sims = n_times nat t /\
  flatten = FNode nat None [FLeaf nat [10] None; FLeaf nat [11] None] /\
  ~ Permutation (pairs nat nat 0 0 flatten sims) (pairs nat nat 0 0 t sims).
Proof.
  exists (FNode nat None [FNode nat (Some [1; 0]) [FLeaf nat [10] None; FLeaf nat [11] None]]),
         (FNode nat None [FLeaf nat [10] None; FLeaf nat [11] None]), [0; 1].
  split; [cbn; repeat split; repeat constructor|]. split; [reflexivity|]. split; [reflexivity|].
  cbn. intros P. apply Permutation_length_2_inv in P. destruct P as [P|P]; discriminate P.
Qed.
