(* Proofs about Model/Inference.v. *)
From Coq Require Import List Bool String Arith Lia.
From Chi Require Import Model.Mechanistic Model.Inference Proofs.Mechanistic.
Import ListNotations.

Lemma mem_true n l : mem n l = true <-> In n l.
Proof.
  unfold mem. rewrite existsb_exists. split.
  - intros [x [I E]]. apply String.eqb_eq in E. now subst.
  - intros I. exists n. split; [exact I|apply String.eqb_refl].
Qed.
Lemma mem_false n l : mem n l = false <-> ~ In n l.
Proof. rewrite <- mem_true. destruct (mem n l); split; congruence. Qed.

(* ---------------- arithmetic of the flat layout ---------------- *)
Lemma length_concat_repeat {A} (block : list A) n :
  List.length (List.concat (repeat block n)) = n * List.length block.
Proof. induction n as [|n IH]; cbn; [reflexivity|]. rewrite app_length, IH. reflexivity. Qed.

Lemma nth_concat_repeat {A} (block : list A) n k j (a : A) :
  k < n -> j < List.length block ->
  nth (k * List.length block + j) (List.concat (repeat block n)) a = nth j block a.
Proof.
  revert k; induction n as [|n IH]; intros k Hk Hj; [lia|]. cbn [repeat List.concat].
  destruct k as [|k].
  - cbn. now rewrite app_nth1.
  - rewrite app_nth2 by (cbn; lia).
    replace (S k * List.length block + j - List.length block) with (k * List.length block + j) by (cbn; lia).
    apply IH; lia.
Qed.

Lemma seq_blocks nb n : seq 0 (n * nb) = flat_map (fun k => seq (k * nb) nb) (seq 0 n).
Proof.
  induction n as [|n IH]; [reflexivity|].
  replace (S n * nb) with (n * nb + nb) by lia. rewrite seq_app, IH. cbn [plus].
  rewrite seq_S, flat_map_app. cbn. now rewrite app_nil_r.
Qed.
Lemma filter_flat_map {A B} (f : B -> bool) (g : A -> list B) l :
  filter f (flat_map g l) = flat_map (fun x => filter f (g x)) l.
Proof. induction l as [|x t IH]; cbn; [reflexivity|]. now rewrite filter_app, IH. Qed.

(* positions of a value in a duplicate-free list *)
Lemma filter_index (l : list string) (x : string) off :
  NoDup l ->
  filter (fun q => String.eqb (nth (q - off) l EmptyString) x) (seq off (List.length l))
  = match index_of x l with Some j => [off + j] | None => [] end.
Proof.
  revert off; induction l as [|a t IH]; intros off ND; [reflexivity|].
  inversion ND as [|? ? Ha ND']; subst. cbn [List.length seq filter index_of].
  assert (E : filter (fun q => String.eqb (nth (q - off) (a :: t) EmptyString) x) (seq (S off) (List.length t))
              = filter (fun q => String.eqb (nth (q - S off) t EmptyString) x) (seq (S off) (List.length t))).
  { apply filter_ext_in. intros q Hq. apply in_seq in Hq.
    replace (q - off) with (S (q - S off)) by lia. reflexivity. }
  rewrite E, (IH (S off) ND'). rewrite Nat.sub_diag. cbn [nth].
  destruct (String.eqb a x) eqn:Eax.
  - apply String.eqb_eq in Eax. subst x. rewrite String.eqb_refl.
    rewrite (index_of_none a t Ha). f_equal. lia.
  - rewrite String.eqb_sym in Eax. rewrite Eax. destruct (index_of x t) as [j|]; cbn; [|reflexivity].
    f_equal. lia.
Qed.

Lemma filter_none {A} (f : A -> bool) l : (forall x, In x l -> f x = false) -> filter f l = [].
Proof.
  induction l as [|x t IH]; cbn; intros H; [reflexivity|].
  rewrite (H x (or_introl eq_refl)). apply IH. intros y I. apply H. now right.
Qed.
Lemma flat_map_ext_in {A B} (f g : A -> list B) l : (forall x, In x l -> f x = g x) -> flat_map f l = flat_map g l.
Proof.
  induction l as [|x t IH]; cbn; intros H; [reflexivity|].
  rewrite (H x (or_introl eq_refl)). f_equal. apply IH. intros y I. apply H. now right.
Qed.
Lemma flat_map_single {A B} (f : A -> B) l : flat_map (fun x => [f x]) l = map f l.
Proof. induction l as [|x t IH]; cbn; [reflexivity|]. now rewrite IH. Qed.

Lemma map_nth_seq (l : list string) : map (fun j => nth j l EmptyString) (seq 0 (List.length l)) = l.
Proof.
  induction l as [|a t IH]; cbn; [reflexivity|]. f_equal.
  rewrite <- seq_shift, map_map. exact IH.
Qed.

Lemma map_via_seq {B} (f : string -> B) (l : list string) :
  map f l = map (fun j => f (nth j l EmptyString)) (seq 0 (List.length l)).
Proof. rewrite <- (map_nth_seq l) at 1. now rewrite map_map. Qed.

Section InferenceProofs.
  Variable V : Type.
  Variable d : V.

  (* the positions named p in the layout: one per individual, at the same offset inside each block *)
  Theorem positions_bottom (block top : list string) n j :
    NoDup block -> j < List.length block -> ~ In (nth j block EmptyString) top ->
    positions (layout_names block top n) (nth j block EmptyString)
    = map (fun k => k * List.length block + j) (seq 0 n).
  Proof.
    intros ND Hj Ht. set (nb := List.length block). set (p := nth j block EmptyString).
    unfold positions, layout_names. rewrite app_length, length_concat_repeat. fold nb.
    rewrite seq_app, filter_app. cbn [plus].
    assert (Etop : filter (fun k => String.eqb (nth k (List.concat (repeat block n) ++ top) EmptyString) p)
                          (seq (n * nb) (List.length top)) = []).
    { apply filter_none. intros k Hk. apply in_seq in Hk.
      rewrite app_nth2 by (rewrite length_concat_repeat; fold nb; lia).
      rewrite length_concat_repeat. fold nb.
      apply String.eqb_neq. intros E. apply Ht. fold p. rewrite <- E. apply nth_In. lia. }
    rewrite Etop, app_nil_r. rewrite seq_blocks, filter_flat_map.
    rewrite <- flat_map_single. apply flat_map_ext_in. intros k Hk. apply in_seq in Hk.
    assert (E : filter (fun q => String.eqb (nth q (List.concat (repeat block n) ++ top) EmptyString) p) (seq (k * nb) nb)
                = filter (fun q => String.eqb (nth (q - k * nb) block EmptyString) p) (seq (k * nb) nb)).
    { apply filter_ext_in. intros q Hq. apply in_seq in Hq.
      rewrite app_nth1 by (rewrite length_concat_repeat; fold nb; nia).
      replace q with (k * nb + (q - k * nb)) at 1 by lia. unfold nb.
      rewrite nth_concat_repeat; [reflexivity|lia|fold nb; lia]. }
    rewrite E. unfold nb. rewrite (filter_index block p (k * List.length block) ND).
    unfold p. now rewrite (index_of_nth block j ND Hj).
  Qed.

  Lemma positions_not_in names p : ~ In p names -> positions names p = [].
  Proof.
    intros H. unfold positions. apply filter_none. intros k Hk. apply in_seq in Hk.
    apply String.eqb_neq. intros E. apply H. rewrite <- E. apply nth_In. lia.
  Qed.

  (* ---------------- the container ---------------- *)
  Lemma lookup_app p (a b : list (string * entry V)) :
    lookup V p (a ++ b) = match lookup V p b with Some e => Some e | None => lookup V p a end.
  Proof.
    induction a as [|[q e] t IH]; cbn; [now destruct (lookup V p b)|].
    rewrite IH. destruct (lookup V p b); [reflexivity|]. reflexivity.
  Qed.
  Lemma lookup_map_key p (f : string -> entry V) l :
    lookup V p (map (fun q => (q, f q)) l) = if mem p l then Some (f p) else None.
  Proof.
    unfold mem. induction l as [|q t IH]; cbn; [reflexivity|]. rewrite IH.
    destruct (String.eqb p q) eqn:E; cbn.
    - apply String.eqb_eq in E. subst q. now destruct (existsb (String.eqb p) t).
    - now destruct (existsb (String.eqb p) t).
  Qed.
  Lemma lookup_top_none p names top v k : ~ In p names -> lookup V p (top_entries V d names top v k) = None.
  Proof.
    revert k; induction names as [|q t IH]; intros k H; cbn; [reflexivity|].
    assert (Hq : p <> q) by (intros ->; apply H; now left).
    assert (Ht : ~ In p t) by (intros I; apply H; now right).
    destruct (mem q top); cbn; rewrite (IH _ Ht); [|reflexivity].
    apply String.eqb_neq in Hq. now rewrite Hq.
  Qed.
  Lemma lookup_top_last p pre post top v k :
    mem p top = true -> ~ In p post ->
    lookup V p (top_entries V d (pre ++ p :: post) top v k) = Some (Scalar (nth (k + List.length pre) v d)).
  Proof.
    intros Hm Hp. revert k; induction pre as [|q t IH]; intros k; cbn.
    - rewrite Hm. cbn. rewrite (lookup_top_none _ _ _ _ _ Hp). rewrite String.eqb_refl. now rewrite Nat.add_0_r.
    - destruct (mem q top); cbn; rewrite IH; f_equal; f_equal; f_equal; lia.
  Qed.

  Lemma first_appearances_In seen l x : In x (first_appearances seen l) <-> In x l /\ ~ In x seen.
  Proof.
    revert seen; induction l as [|y t IH]; intros seen; cbn.
    - split; [contradiction|intros [[] _]].
    - destruct (mem y seen) eqn:E.
      + rewrite IH. apply mem_true in E. split; [intros [I N]; split; [now right|exact N]|].
        intros [[->|I] N]; [contradiction|split; assumption].
      + apply mem_false in E. cbn. rewrite IH. split.
        * intros [->|[I N]]; [split; [now left|exact E]|split; [now right|intros I'; apply N; now right]].
        * intros [[->|I] N]; [now left|].
          destruct (String.eqb x y) eqn:Exy; [apply String.eqb_eq in Exy; now left|].
          right. split; [exact I|]. intros [->|I']; [now rewrite String.eqb_refl in Exy|contradiction].
  Qed.
  Lemma bottom_names_In names top p : In p (bottom_names names top) <-> In p names /\ ~ In p top.
  Proof.
    unfold bottom_names. rewrite first_appearances_In, filter_In. rewrite negb_true_iff, mem_false. tauto.
  Qed.

  (* a bottom-level parameter: one data variable holding, per individual, the vector entries named p *)
  Theorem format_bottom names top v p :
    In p names -> ~ In p top ->
    lookup V p (format_draw V d names top v) = Some (PerIndividual (column V d v (positions names p))).
  Proof.
    intros Hn Ht. unfold format_draw. rewrite lookup_app.
    rewrite (lookup_map_key p (fun q => PerIndividual (column V d v (positions names q)))).
    assert (M : mem p (bottom_names names top) = true) by (apply mem_true, bottom_names_In; now split).
    now rewrite M.
  Qed.
  (* a top-level parameter that occurs once: a scalar, the vector entry at its position *)
  Theorem format_top pre post top v p :
    In p top -> ~ In p post ->
    lookup V p (format_draw V d (pre ++ p :: post) top v) = Some (Scalar (nth (List.length pre) v d)).
  Proof.
    intros Ht Hp. unfold format_draw. rewrite lookup_app.
    rewrite (lookup_map_key p (fun q => PerIndividual (column V d v (positions (pre ++ p :: post) q)))).
    assert (M : mem p (bottom_names (pre ++ p :: post) top) = false).
    { apply mem_false. rewrite bottom_names_In. tauto. }
    rewrite M. apply mem_true in Ht. now rewrite (lookup_top_last p pre post top v 0 Ht Hp).
  Qed.

  (* ---------------- the layout of a hierarchical posterior ---------------- *)
  (* every data variable of the dataset, for the flat layout: individual k's entry of bottom parameter j is vector
     position k*nb + j; top parameter t is position n*nb + t *)
  Theorem dataset_bottom (block top : list string) n v j :
    NoDup (block ++ top) -> 0 < n -> j < List.length block ->
    lookup V (nth j block EmptyString) (format_draw V d (layout_names block top n) top v)
    = Some (PerIndividual (map (fun k => nth (k * List.length block + j) v d) (seq 0 n))).
  Proof.
    intros ND Hn Hj.
    assert (NDb : NoDup block) by (eapply NoDup_app_l; exact ND).
    assert (Nt : ~ In (nth j block EmptyString) top).
    { intros I. clear - ND I Hj. revert j Hj I. induction block as [|a t IH]; intros j Hj I; cbn in *; [lia|].
      inversion ND as [|? ? Ha ND']; subst. destruct j as [|j].
      - apply Ha. apply in_or_app. now right.
      - apply (IH ND' j); [lia|exact I]. }
    rewrite format_bottom; [|unfold layout_names; apply in_or_app; left|exact Nt].
    - f_equal. f_equal. rewrite (positions_bottom block top n j NDb Hj Nt). unfold column. now rewrite map_map.
    - destruct n as [|n]; [lia|]. cbn. apply in_or_app. left. now apply nth_In.
  Qed.
  Theorem dataset_top (block top : list string) n v t :
    NoDup (block ++ top) -> t < List.length top ->
    lookup V (nth t top EmptyString) (format_draw V d (layout_names block top n) top v)
    = Some (Scalar (nth (n * List.length block + t) v d)).
  Proof.
    intros ND Ht.
    assert (NDt : NoDup top) by (eapply NoDup_app_r; exact ND).
    set (p := nth t top EmptyString).
    assert (S : top = firstn t top ++ p :: skipn (S t) top).
    { unfold p. clear - Ht. revert t Ht. induction top as [|a l IH]; intros t Ht; cbn in *; [lia|].
      destruct t as [|t]; [reflexivity|]. cbn. f_equal. apply IH. lia. }
    unfold layout_names. rewrite S at 1. rewrite app_assoc.
    rewrite format_top.
    - f_equal. f_equal. rewrite app_length, length_concat_repeat, firstn_length. f_equal. lia.
    - unfold p. now apply nth_In.
    - rewrite S in NDt. apply NoDup_remove_2 in NDt. intros I. apply NDt. apply in_or_app. now right.
  Qed.

  (* reading the dataset back for individual k returns that individual's block followed by the top level: exactly
     the entries of the raw vector that belong to (name, individual) *)
  Theorem read_back_individual (block top : list string) n v k :
    NoDup (block ++ top) -> k < n ->
    read_back V (format_draw V d (layout_names block top n) top v) k (block ++ top)
    = map (fun j => Some (nth (k * List.length block + j) v d)) (seq 0 (List.length block))
      ++ map (fun t => Some (nth (n * List.length block + t) v d)) (seq 0 (List.length top)).
  Proof.
    intros ND Hk. unfold read_back. rewrite map_app. f_equal.
    - rewrite (map_via_seq _ block). apply map_ext_in. intros j Hj. apply in_seq in Hj.
      unfold read_value. rewrite dataset_bottom by (try assumption; lia).
      rewrite (nth_error_nth' _ (nth (k * List.length block + j) v d)) by (rewrite map_length, seq_length; exact Hk).
      f_equal. rewrite (map_nth (fun k0 => nth (k0 * List.length block + j) v d)). rewrite seq_nth by exact Hk.
      reflexivity.
    - rewrite (map_via_seq _ top). apply map_ext_in. intros t Ht. apply in_seq in Ht.
      unfold read_value. rewrite dataset_top by (try assumption; lia). reflexivity.
  Qed.
End InferenceProofs.

(* ---------------- flat blocks of equal length ---------------- *)
Lemma nth_flat_map_uniform {A B} (f : A -> list B) (l : list A) nb i r (a : A) (b : B) :
  (forall x, In x l -> List.length (f x) = nb) -> i < List.length l -> r < nb ->
  nth (i * nb + r) (flat_map f l) b = nth r (f (nth i l a)) b.
Proof.
  revert i; induction l as [|x t IH]; intros i H Hi Hr; cbn in *; [lia|].
  assert (Lx : List.length (f x) = nb) by (apply H; now left).
  destruct i as [|i].
  - cbn. rewrite app_nth1 by lia. reflexivity.
  - rewrite app_nth2 by (cbn; lia). replace (S i * nb + r - List.length (f x)) with (i * nb + r) by (cbn; lia).
    apply IH; [intros y I; apply H; now right|lia|exact Hr].
Qed.
Lemma length_flat_map_uniform {A B} (f : A -> list B) (l : list A) nb :
  (forall x, In x l -> List.length (f x) = nb) -> List.length (flat_map f l) = List.length l * nb.
Proof.
  induction l as [|x t IH]; intros H; cbn; [reflexivity|]. rewrite app_length, IH, (H x (or_introl eq_refl)); [lia|].
  intros y I. apply H. now right.
Qed.

(* IDs of the flat vector: the block of individual k carries its ID, the top level carries none *)
Theorem layout_ids_bottom ids nb ntop k j :
  k < List.length ids -> j < nb ->
  nth (k * nb + j) (layout_ids ids nb ntop) None = Some (nth k ids EmptyString).
Proof.
  intros Hk Hj. unfold layout_ids.
  assert (U : forall x, In x ids -> List.length (repeat (Some x) nb) = nb) by (intros; apply repeat_length).
  rewrite app_nth1 by (rewrite (length_flat_map_uniform _ ids nb U); nia).
  rewrite (nth_flat_map_uniform (fun i => repeat (Some i) nb) ids nb k j EmptyString None U Hk Hj).
  rewrite (nth_indep _ None (Some (nth k ids EmptyString))) by (rewrite repeat_length; exact Hj).
  apply nth_repeat.
Qed.
Theorem layout_ids_top ids nb ntop t :
  t < ntop -> nth (List.length ids * nb + t) (layout_ids ids nb ntop) (Some EmptyString) = None.
Proof.
  intros Ht. unfold layout_ids.
  assert (U : forall x, In x ids -> List.length (repeat (Some x) nb) = nb) by (intros; apply repeat_length).
  rewrite app_nth2 by (rewrite (length_flat_map_uniform _ ids nb U); lia).
  rewrite (length_flat_map_uniform _ ids nb U). replace (List.length ids * nb + t - List.length ids * nb) with t by lia.
  rewrite (nth_indep _ (Some EmptyString) None) by (rewrite repeat_length; exact Ht).
  apply nth_repeat.
Qed.

Section InitAndTable.
  Variable V : Type.
  Variable d : V.

  Fixpoint true_positions (keep : list bool) (c : nat) : list nat :=
    match keep with
    | [] => []
    | b :: t => if b then c :: true_positions t (S c) else true_positions t (S c)
    end.
  Lemma select_spec (keep : list bool) (row : list V) c pre :
    List.length pre = c -> List.length row = List.length keep ->
    select V keep row = map (fun q => nth q (pre ++ row) d) (true_positions keep c).
  Proof.
    revert row c pre; induction keep as [|b t IH]; intros row c pre Hp L; [reflexivity|].
    destruct row as [|x xs]; [discriminate|]. cbn in L.
    specialize (IH xs (S c) (pre ++ [x])). rewrite <- app_assoc in IH. cbn in IH.
    cbn [select true_positions]. destruct b; cbn [map].
    - rewrite IH by (try rewrite app_length; cbn; lia). f_equal.
      rewrite app_nth2 by lia. now rewrite Hp, Nat.sub_diag.
    - apply IH; try rewrite app_length; cbn; lia.
  Qed.
  Lemma select_length (keep : list bool) (row : list V) :
    List.length row = List.length keep -> List.length (select V keep row) = List.length (true_positions keep 0).
  Proof. intros L. rewrite (select_spec keep row 0 [] eq_refl L). apply map_length. Qed.

  (* (init-1) dimension: individuals x non-special dimensions + prior dimension *)
  Theorem init_vector_length keep (pop : list (list V)) prior :
    (forall row, In row pop -> List.length row = List.length keep) ->
    List.length (init_vector V keep pop prior)
    = List.length pop * List.length (true_positions keep 0) + List.length prior.
  Proof.
    intros H. unfold init_vector. rewrite app_length. f_equal.
    apply length_flat_map_uniform. intros row I. apply select_length. now apply H.
  Qed.
  (* (init-2) the entry at (individual i, r-th non-special dimension) is the population draw of individual i for
     that model dimension; the rest is the prior draw *)
  Theorem init_vector_bottom keep (pop : list (list V)) prior i r :
    (forall row, In row pop -> List.length row = List.length keep) ->
    i < List.length pop -> r < List.length (true_positions keep 0) ->
    nth (i * List.length (true_positions keep 0) + r) (init_vector V keep pop prior) d
    = nth (nth r (true_positions keep 0) 0) (nth i pop []) d.
  Proof.
    intros H Hi Hr. unfold init_vector. set (nb := List.length (true_positions keep 0)).
    assert (U : forall row, In row pop -> List.length (select V keep row) = nb)
      by (intros row I; apply select_length; now apply H).
    rewrite app_nth1 by (rewrite (length_flat_map_uniform _ pop nb U); nia).
    rewrite (nth_flat_map_uniform (select V keep) pop nb i r [] d U Hi Hr).
    assert (L : List.length (nth i pop []) = List.length keep) by (apply H; now apply nth_In).
    rewrite (select_spec keep (nth i pop []) 0 [] eq_refl L). cbn [app].
    rewrite (nth_indep _ d ((fun q => nth q (nth i pop []) d) 0)) by (rewrite map_length; exact Hr).
    now rewrite (map_nth (fun q => nth q (nth i pop []) d)).
  Qed.
  Theorem init_vector_top keep (pop : list (list V)) prior t :
    (forall row, In row pop -> List.length row = List.length keep) ->
    nth (List.length pop * List.length (true_positions keep 0) + t) (init_vector V keep pop prior) d = nth t prior d.
  Proof.
    intros H. unfold init_vector. set (nb := List.length (true_positions keep 0)).
    assert (U : forall row, In row pop -> List.length (select V keep row) = nb)
      by (intros row I; apply select_length; now apply H).
    rewrite app_nth2 by (rewrite (length_flat_map_uniform _ pop nb U); lia).
    rewrite (length_flat_map_uniform _ pop nb U). f_equal. lia.
  Qed.

  (* (table) row k pairs the k-th estimate with the k-th name and ID, the score and the run *)
  Theorem table_row {S R} (ids : list (option string)) names (est : list V) (s : S) (r : R) k :
    List.length ids = List.length names -> List.length est = List.length names -> k < List.length names ->
    nth k (table_rows V ids names est s r) (None, EmptyString, d, s, r)
    = (nth k ids None, nth k names EmptyString, nth k est d, s, r).
  Proof.
    intros Li Le Hk. unfold table_rows.
    rewrite (nth_indep _ _ ((fun t => (fst (fst t), snd (fst t), snd t, s, r)) (None, EmptyString, d)))
      by (rewrite map_length, !combine_length; lia).
    rewrite (map_nth (fun t => (fst (fst t), snd (fst t), snd t, s, r))).
    rewrite !combine_nth by (try rewrite combine_length; lia). reflexivity.
  Qed.
  Theorem table_length {S R} (ids : list (option string)) names (est : list V) (s : S) (r : R) :
    List.length ids = List.length names -> List.length est = List.length names ->
    List.length (table_rows V ids names est s r) = List.length names.
  Proof. intros Li Le. unfold table_rows. rewrite map_length, !combine_length. lia. Qed.
End InitAndTable.
