(* Proofs about Model/PopModels.v (C05, C07, and the chain rules used by C02/C03). *)
From Coq Require Import Reals Lra List ssreflect.
From Coquelicot Require Import Coquelicot.
From Chi Require Import Base.RSum Base.Score Base.GaussInt Base.Normal Base.Phi Model.PopModels.
Import ListNotations.
Open Scope R_scope.

Ltac psolve := repeat split; try lra; try (apply Rgt_not_eq; first [apply sqrt2pi_pos | lra | nra]); try nra.

Lemma two_pi_pos : 0 < 2 * PI. Proof. have := PI_RGT_0. lra. Qed.

Lemma ln_2pi_s2 sg : 0 < sg -> ln (2 * PI * sg^2) / 2 = ln (sqrt (2 * PI)) + ln sg.
Proof.
  move=> Hs. have H2 := two_pi_pos. have Hs2 : 0 < sg^2 by nra.
  rewrite ln_mult //.
  have -> : ln (sg^2) = 2 * ln sg.
  { have -> : sg^2 = sg * sg by ring. rewrite ln_mult //. lra. }
  have -> : ln (sqrt (2 * PI)) = ln (2 * PI) / 2.
  { have Hq := sqrt2pi_pos. have E : ln (2 * PI) = ln (sqrt (2*PI)) + ln (sqrt (2*PI)).
    { rewrite -ln_mult // sqrt_sqrt //. lra. } lra. }
  lra.
Qed.

(* ---------------- densities ---------------- *)
Theorem G_lp_density mu sg psi : 0 < sg -> exp (G_lp mu sg psi) = normal_pdf_s mu sg psi.
Proof.
  move=> Hs. rewrite /G_lp /normal_pdf_s. have Hq := sqrt2pi_pos.
  have -> : - ln (2 * PI * sg^2) / 2 - (psi - mu)^2 / (2 * sg^2)
            = - (ln (sqrt (2*PI)) + ln sg) + - (psi - mu)^2 / (2 * sg^2) by rewrite -ln_2pi_s2 //; field; lra.
  have Hm : 0 < sqrt (2 * PI) * sg by apply Rmult_lt_0_compat.
  have E : ln (sqrt (2*PI)) + ln sg = ln (sqrt (2*PI) * sg) by rewrite ln_mult.
  by rewrite E exp_plus exp_Ropp exp_ln.
Qed.

Theorem LN_lp_density mu sg psi : 0 < sg -> 0 < psi -> exp (LN_lp mu sg psi) = lognormal_pdf_s mu sg psi.
Proof.
  move=> Hs Hp. rewrite /LN_lp /lognormal_pdf_s. have Hq := sqrt2pi_pos.
  have -> : - ln (2 * PI * sg^2) / 2 - ln psi - (ln psi - mu)^2 / 2 / sg^2
            = - (ln (sqrt (2*PI)) + ln sg + ln psi) + - (ln psi - mu)^2 / (2 * sg^2)
    by rewrite -ln_2pi_s2 //; field; lra.
  have Hm : 0 < sqrt (2 * PI) * sg by apply Rmult_lt_0_compat.
  have Hm2 : 0 < sqrt (2 * PI) * sg * psi by apply Rmult_lt_0_compat.
  have E : ln (sqrt (2*PI)) + ln sg + ln psi = ln (sqrt (2*PI) * sg * psi) by rewrite !ln_mult.
  by rewrite E exp_plus exp_Ropp exp_ln.
Qed.

Theorem TG_lp_density mu sg psi : 0 < sg -> Phi (- mu / sg) < 1 ->
  exp (TG_lp mu sg psi) = truncnormal_pdf_s mu sg psi.
Proof.
  move=> Hs HP. rewrite /truncnormal_pdf_s -G_lp_density // /TG_lp /G_lp.
  have Hq : 0 < 1 - Phi (- mu / sg) by lra.
  set a := - ln (2 * PI * sg ^ 2) / 2 - (psi - mu) ^ 2 / (2 * sg ^ 2).
  rewrite /Rminus exp_plus exp_Ropp exp_ln //.
Qed.

Theorem NC_lp_density eta : exp (NC_lp eta) = phi eta.
Proof.
  rewrite /NC_lp /phi. have Hq := sqrt2pi_pos. have H2 := two_pi_pos.
  have -> : - ln (2 * PI) / 2 - eta^2 / 2 = - ln (sqrt (2*PI)) + - eta^2 / 2.
  { have E : ln (2 * PI) = ln (sqrt (2*PI)) + ln (sqrt (2*PI)) by rewrite -ln_mult // sqrt_sqrt //; lra. lra. }
  by rewrite exp_plus exp_Ropp exp_ln.
Qed.

(* ---------------- sensitivities are the derivatives ---------------- *)
Theorem G_dpsi_correct mu sg psi : 0 < sg -> is_derive (fun t => G_lp mu sg t) psi (G_dpsi mu sg psi).
Proof. move=> Hs. rewrite /G_lp /G_dpsi. auto_derive; [psolve | field; psolve]. Qed.
Theorem G_dmu_correct mu sg psi : 0 < sg -> is_derive (fun t => G_lp t sg psi) mu (G_dmu mu sg psi).
Proof. move=> Hs. rewrite /G_lp /G_dmu. auto_derive; [psolve | field; psolve]. Qed.
Theorem G_dsig_correct mu sg psi : 0 < sg -> is_derive (fun t => G_lp mu t psi) sg (G_dsig mu sg psi).
Proof.
  move=> Hs. rewrite /G_lp /G_dsig. have H2 := two_pi_pos.
  have Hs2 : 0 < sg * (sg * 1) by nra.
  have Hp : 0 < 2 * PI * (sg * (sg * 1)) by apply Rmult_lt_0_compat.
  auto_derive.
  - repeat split => //; apply Rgt_not_eq; lra.
  - field. repeat split; apply Rgt_not_eq; lra.
Qed.

Theorem LN_dpsi_correct mu sg psi : 0 < sg -> 0 < psi ->
  is_derive (fun t => LN_lp mu sg t) psi (LN_dpsi mu sg psi).
Proof. move=> Hs Hp. rewrite /LN_lp /LN_dpsi. auto_derive; [psolve | field; psolve]. Qed.
Theorem LN_dmu_correct mu sg psi : 0 < sg -> is_derive (fun t => LN_lp t sg psi) mu (LN_dmu mu sg psi).
Proof. move=> Hs. rewrite /LN_lp /LN_dmu. auto_derive; [psolve | field; psolve]. Qed.
Theorem LN_dsig_correct mu sg psi : 0 < sg -> is_derive (fun t => LN_lp mu t psi) sg (LN_dsig mu sg psi).
Proof.
  move=> Hs. rewrite /LN_lp /LN_dsig. have H2 := two_pi_pos.
  have Hs2 : 0 < sg * (sg * 1) by nra.
  have Hp : 0 < 2 * PI * (sg * (sg * 1)) by apply Rmult_lt_0_compat.
  auto_derive.
  - repeat split => //; apply Rgt_not_eq; lra.
  - field. repeat split; apply Rgt_not_eq; lra.
Qed.

Theorem NC_deta_correct eta : is_derive NC_lp eta (NC_deta eta).
Proof. rewrite /NC_lp /NC_deta. auto_derive; [by [] | field]. Qed.

(* ---------------- truncated Gaussian ---------------- *)
Theorem TG_dpsi_correct mu sg psi : 0 < sg -> is_derive (fun t => TG_lp mu sg t) psi (TG_dpsi mu sg psi).
Proof. move=> Hs. rewrite /TG_lp /TG_dpsi. auto_derive; [psolve | field; psolve]. Qed.

Theorem TG_dmu_correct mu sg psi : 0 < sg -> Phi (- mu / sg) < 1 ->
  is_derive (fun t => TG_lp t sg psi) mu (TG_dmu mu sg psi).
Proof.
  move=> Hs HP. rewrite /TG_lp /TG_dmu.
  have Hq : 0 < 1 + - Phi (- mu * / sg) by rewrite /Rdiv in HP; lra.
  auto_derive.
  - repeat split => //; try lra. apply ex_derive_Phi.
  - rewrite Derive_Phi.
    have -> : phi (- mu * / sg) = phi (mu / sg) by rewrite -phi_even; f_equal; field; lra.
    change (- mu * / sg) with (- mu / sg). set P := Phi (- mu / sg) in HP Hq |- *.
    field. repeat split; try lra.
Qed.

Theorem TG_dsig_correct mu sg psi : 0 < sg -> Phi (- mu / sg) < 1 ->
  is_derive (fun t => TG_lp mu t psi) sg (TG_dsig mu sg psi).
Proof.
  move=> Hs HP. rewrite /TG_lp /TG_dsig. have H2 := two_pi_pos.
  have Hs2 : 0 < sg * (sg * 1) by nra.
  have Hp : 0 < 2 * PI * (sg * (sg * 1)) by apply Rmult_lt_0_compat.
  have Hq : 0 < 1 + - Phi (- mu * / sg) by rewrite /Rdiv in HP; lra.
  have Hs0 : sg <> 0 by apply Rgt_not_eq.
  auto_derive.
  - repeat split => //; try (apply Rgt_not_eq; lra). apply ex_derive_Phi.
  - rewrite Derive_Phi.
    have -> : phi (- mu * / sg) = phi (mu / sg) by rewrite -phi_even; f_equal; field; lra.
    change (- mu * / sg) with (- mu / sg). set P := Phi (- mu / sg) in HP Hq |- *.
    field. repeat split; try lra; apply Rgt_not_eq; lra.
Qed.

Lemma scalR (a b : R) : scal a b = a * b.
Proof. by []. Qed.

(* ---------------- upstream sensitivities: the chain rule ---------------- *)
(* L = the part of the log-pdf that depends on the individual's parameter psi (its own log-likelihood),
   u its derivative at psi *)
Theorem up_centered_G (L : R -> R) mu sg psi u : 0 < sg -> is_derive L psi u ->
  is_derive (fun t => L t + G_lp mu sg t) psi (up_centered (G_dpsi mu sg psi) u).
Proof.
  move=> Hs HL. rewrite /up_centered Rplus_comm. apply: is_derive_plus => //. by apply G_dpsi_correct.
Qed.
Theorem up_centered_LN (L : R -> R) mu sg psi u : 0 < sg -> 0 < psi -> is_derive L psi u ->
  is_derive (fun t => L t + LN_lp mu sg t) psi (up_centered (LN_dpsi mu sg psi) u).
Proof.
  move=> Hs Hp HL. rewrite /up_centered Rplus_comm. apply: is_derive_plus => //. by apply LN_dpsi_correct.
Qed.

Lemma comp_R (f g : R -> R) x df dg :
  is_derive f (g x) df -> is_derive g x dg -> is_derive (fun t => f (g t)) x (df * dg).
Proof.
  move=> Hf Hg. evar_last; first by apply: (is_derive_comp f g x df dg Hf Hg).
  rewrite scalR. ring.
Qed.

(* non-centred Gaussian: psi = mu + sigma eta, eta scored as standard normal *)
Theorem Gnc_deta_correct (L : R -> R) mu sg eta u : is_derive L (Gnc_psi mu sg eta) u ->
  is_derive (fun e => L (Gnc_psi mu sg e) + NC_lp e) eta (Gnc_deta sg eta u).
Proof.
  move=> HL. rewrite /Gnc_deta. apply: is_derive_plus; last by apply NC_deta_correct.
  apply (comp_R L (fun e => Gnc_psi mu sg e)) => //. rewrite /Gnc_psi. auto_derive => //; ring.
Qed.
Theorem Gnc_dmu_correct (L : R -> R) mu sg eta u : is_derive L (Gnc_psi mu sg eta) u ->
  is_derive (fun m => L (Gnc_psi m sg eta)) mu (Gnc_dmu u).
Proof.
  move=> HL. rewrite /Gnc_dmu.
  apply (comp_R L (fun m => Gnc_psi m sg eta)) => //. rewrite /Gnc_psi. auto_derive => //; ring.
Qed.
Theorem Gnc_dsig_correct (L : R -> R) mu sg eta u : is_derive L (Gnc_psi mu sg eta) u ->
  is_derive (fun s => L (Gnc_psi mu s eta)) sg (Gnc_dsig eta u).
Proof.
  move=> HL. rewrite /Gnc_dsig.
  apply (comp_R L (fun s => Gnc_psi mu s eta)) => //. rewrite /Gnc_psi. auto_derive => //; ring.
Qed.

(* non-centred log-normal: psi = exp(mu + sigma eta) *)
Theorem LNnc_deta_correct (L : R -> R) mu sg eta u : is_derive L (LNnc_psi mu sg eta) u ->
  is_derive (fun e => L (LNnc_psi mu sg e) + NC_lp e) eta (LNnc_deta mu sg eta u).
Proof.
  move=> HL. rewrite /LNnc_deta. apply: is_derive_plus; last by apply NC_deta_correct.
  apply (comp_R L (fun e => LNnc_psi mu sg e)) => //. rewrite /LNnc_psi. auto_derive => //; ring.
Qed.
Theorem LNnc_dmu_correct (L : R -> R) mu sg eta u : is_derive L (LNnc_psi mu sg eta) u ->
  is_derive (fun m => L (LNnc_psi m sg eta)) mu (LNnc_dmu mu sg eta u).
Proof.
  move=> HL. rewrite /LNnc_dmu.
  apply (comp_R L (fun m => LNnc_psi m sg eta)) => //. rewrite /LNnc_psi. auto_derive => //; ring.
Qed.
Theorem LNnc_dsig_correct (L : R -> R) mu sg eta u : is_derive L (LNnc_psi mu sg eta) u ->
  is_derive (fun s => L (LNnc_psi mu s eta)) sg (LNnc_dsig mu sg eta u).
Proof.
  move=> HL. rewrite /LNnc_dsig.
  apply (comp_R L (fun s => LNnc_psi mu s eta)) => //. rewrite /LNnc_psi. auto_derive => //; ring.
Qed.

(* ---------------- score of a whole population = sum of the terms; gradient by linearity ---------------- *)
(* any term-wise derivative lifts to the sum over individuals/dimensions (Base/RSum.v is_derive_Rsum);
   here: the derivative of a centred Gaussian population score w.r.t. a shared mean / std *)
Theorem G_pop_dmu (terms : list (R * R)) mu : (forall t, In t terms -> 0 < fst t) ->
  is_derive (fun m => Rsum (map (fun t => G_lp m (fst t) (snd t)) terms)) mu
            (Rsum (map (fun t => G_dmu mu (fst t) (snd t)) terms)).
Proof.
  move=> H. apply (is_derive_Rsum terms (fun t m => G_lp m (fst t) (snd t))) => t Ht.
  apply G_dmu_correct. by apply H.
Qed.
Theorem G_pop_dsig (psis : list R) mu sg : 0 < sg ->
  is_derive (fun s => Rsum (map (fun p => G_lp mu s p) psis)) sg (Rsum (map (fun p => G_dsig mu sg p) psis)).
Proof.
  move=> H. apply (is_derive_Rsum psis (fun p s => G_lp mu s p)) => p _. by apply G_dsig_correct.
Qed.

(* ---------------- point masses ---------------- *)
Theorem delta_lp_spec theta psi : (psi = theta -> delta_lp theta psi = Fin 0) /\
                                  (psi <> theta -> delta_lp theta psi = NegInf).
Proof. rewrite /delta_lp. case: Req_EM_T => H; split => //. Qed.

(* ---------------- linear covariate model (C07) ---------------- *)
Theorem cov_shift_zero_beta theta chis n : cov_shift theta (repeat 0 n) chis = theta.
Proof.
  rewrite /cov_shift. suff -> : Rsum (map (fun bc => fst bc * snd bc) (combine (repeat 0 n) chis)) = 0 by lra.
  elim: n chis => [|n IH] [|c chis] //=. rewrite IH. lra.
Qed.
Theorem cov_shift_zero_chi theta betas n : cov_shift theta betas (repeat 0 n) = theta.
Proof.
  rewrite /cov_shift. suff -> : Rsum (map (fun bc => fst bc * snd bc) (combine betas (repeat 0 n))) = 0 by lra.
  elim: n betas => [|n IH] [|b betas] //=. rewrite IH. lra.
Qed.
(* derivative w.r.t. the un-shifted parameter is 1, w.r.t. the c-th coefficient the c-th covariate *)
Theorem cov_shift_dtheta theta betas chis : is_derive (fun t => cov_shift t betas chis) theta 1.
Proof. rewrite /cov_shift. auto_derive => //; ring. Qed.
Theorem cov_shift_dbeta theta pre b post pc c postc : length pre = length pc ->
  is_derive (fun t => cov_shift theta (pre ++ t :: post) (pc ++ c :: postc)) b c.
Proof.
  move=> Hl. rewrite /cov_shift.
  have E : forall t, Rsum (map (fun bc => fst bc * snd bc) (combine (pre ++ t :: post) (pc ++ c :: postc)))
                     = Rsum (map (fun bc => fst bc * snd bc) (combine pre pc)) + t * c
                       + Rsum (map (fun bc => fst bc * snd bc) (combine post postc)).
  { move=> t. clear -Hl. revert pc Hl. induction pre as [|a pre IH]; intros [|d pc] Hl; simpl in *;
      try discriminate; [ring|]. rewrite IH; [ring|]. now inversion Hl. }
  apply is_derive_ext with (fun t => theta + (Rsum (map (fun bc => fst bc * snd bc) (combine pre pc)) + t * c
                       + Rsum (map (fun bc => fst bc * snd bc) (combine post postc)))).
  { move=> t. by rewrite E. }
  auto_derive => //; ring.
Qed.
(* chain rule: a differentiable score of the shifted parameter has derivative (d/dvartheta) * chi_c w.r.t. beta_c *)
Theorem cov_chain_dbeta (f : R -> R) theta pre b post pc c postc d : length pre = length pc ->
  is_derive f (cov_shift theta (pre ++ b :: post) (pc ++ c :: postc)) d ->
  is_derive (fun t => f (cov_shift theta (pre ++ t :: post) (pc ++ c :: postc))) b (d * c).
Proof.
  move=> Hl Hf.
  apply (comp_R f (fun t => cov_shift theta (pre ++ t :: post) (pc ++ c :: postc))) => //.
  by apply cov_shift_dbeta.
Qed.
