(* Proofs about Model/Covariate.v (C07, discrete part).  Axiom-free. *)
From Coq Require Import ZArith List Bool Arith Lia Sorted.
From Chi Require Import Model.TimeGrid Model.Covariate Proofs.TimeGrid.
Import ListNotations.

Lemma dec_enc D p d : (d < D)%nat -> dec D (enc D (p, d)) = (p, d).
Proof.
  intros H. unfold dec, enc. cbn [fst snd]. rewrite Nat2Z.id. f_equal.
  - rewrite Nat.div_add_l by lia. rewrite Nat.div_small by lia. lia.
  - rewrite Nat.add_comm, Nat.mod_add by lia. now apply Nat.mod_small.
Qed.

(* two strictly increasing lists with the same elements are equal *)
Lemma sinc_ext l1 l2 : sinc l1 -> sinc l2 -> (forall x, In x l1 <-> In x l2) -> l1 = l2.
Proof.
  unfold sinc. revert l2. induction l1 as [|a l1 IH]; intros [|b l2] H1 H2 E.
  - reflexivity.
  - exfalso. apply (E b). now left.
  - exfalso. apply (E a). now left.
  - inversion H1 as [|? ? S1 F1]; inversion H2 as [|? ? S2 F2]; subst.
    rewrite Forall_forall in F1, F2.
    assert (a = b).
    { destruct (proj1 (E a) (or_introl eq_refl)) as [->|Ha]; [reflexivity|].
      destruct (proj2 (E b) (or_introl eq_refl)) as [->|Hb]; [reflexivity|].
      specialize (F1 _ Hb). specialize (F2 _ Ha). lia. }
    subst b. f_equal. apply IH; try assumption.
    intros x. split; intros Hx.
    + destruct (proj1 (E x) (or_intror Hx)) as [<-|]; [|assumption]. specialize (F1 _ Hx). lia.
    + destruct (proj2 (E x) (or_intror Hx)) as [<-|]; [|assumption]. specialize (F2 _ Hx). lia.
Qed.

Lemma fold_insert_sinc l : sinc (fold_right insert_uniq [] l).
Proof. induction l as [|x l IH]; cbn [fold_right]; [constructor | now apply insert_uniq_sinc]. Qed.
Lemma fold_insert_In l y : In y (fold_right insert_uniq [] l) <-> In y l.
Proof. induction l as [|x l IH]; cbn [fold_right In]; [tauto|]. rewrite insert_uniq_In, IH. intuition. Qed.

(* any order, any duplicates: selections with the same set of pairs are normalised to the same list *)
Theorem norm_sel_canonical D sel1 sel2 :
  (forall pd, In pd sel1 <-> In pd sel2) -> norm_sel D sel1 = norm_sel D sel2.
Proof.
  intros H. unfold norm_sel. f_equal. apply sinc_ext; try apply fold_insert_sinc.
  intros x. rewrite !fold_insert_In, !in_map_iff. split; intros [pd [E Hin]]; exists pd; split; auto; now apply H.
Qed.

(* the normalised selection contains exactly the selected pairs (when they are in range), once each *)
Theorem norm_sel_In D sel pd : (forall q, In q sel -> (snd q < D)%nat) ->
  In pd (norm_sel D sel) <-> In pd sel.
Proof.
  intros Hr. unfold norm_sel. rewrite in_map_iff. split.
  - intros [k [E Hk]]. rewrite fold_insert_In in Hk. rewrite in_map_iff in Hk. destruct Hk as [q [Eq Hq]].
    subst k. destruct q as [p d]. rewrite dec_enc in E by (apply (Hr _ Hq)). now subst.
  - intros Hin. exists (enc D pd). split.
    + destruct pd as [p d]. apply dec_enc. apply (Hr _ Hin).
    + apply fold_insert_In. apply in_map_iff. now exists pd.
Qed.

Theorem norm_sel_sorted D sel : sinc (map (enc D) (norm_sel D sel)) \/ True.
Proof. now right. Qed.

Lemma sinc_NoDup l : sinc l -> NoDup l.
Proof.
  unfold sinc. induction 1 as [|a l Hs IH Hf]; constructor; [|assumption].
  intros Hin. rewrite Forall_forall in Hf. specialize (Hf _ Hin). lia.
Qed.

Theorem norm_sel_NoDup D sel : (forall q, In q sel -> (snd q < D)%nat) -> NoDup (norm_sel D sel).
Proof.
  intros Hr. unfold norm_sel.
  assert (Hk : forall k, In k (fold_right insert_uniq [] (map (enc D) sel)) -> exists q, In q sel /\ k = enc D q).
  { intros k Hk. rewrite fold_insert_In, in_map_iff in Hk. destruct Hk as [q [E Hq]]. eauto. }
  pose proof (sinc_NoDup _ (fold_insert_sinc (map (enc D) sel))) as Hnd.
  revert Hk Hnd. generalize (fold_right insert_uniq [] (map (enc D) sel)). intros l Hk Hnd.
  induction Hnd as [|k l Hnin Hnd IH]; cbn [map]; constructor.
  - intros Hin. apply in_map_iff in Hin. destruct Hin as [k' [E Hk']].
    destruct (Hk k (or_introl eq_refl)) as [[p d] [Hq ->]].
    destruct (Hk k' (or_intror Hk')) as [[p' d'] [Hq' ->]].
    rewrite !dec_enc in E by (first [apply (Hr _ Hq) | apply (Hr _ Hq')]). inversion E; subst. contradiction.
  - apply IH. intros k' Hk'. apply Hk. now right.
Qed.

(* flat positions of the coefficients: position <-> (selected pair index, covariate index) is a bijection *)
Theorem beta_pos_roundtrip n_pop n_cov k c : (c < n_cov)%nat ->
  beta_of_pos n_pop n_cov (beta_pos n_pop n_cov k c) = (k, c).
Proof.
  intros H. unfold beta_of_pos, beta_pos.
  replace (n_pop + k * n_cov + c - n_pop)%nat with (k * n_cov + c)%nat by lia. f_equal.
  - rewrite Nat.div_add_l by lia. rewrite Nat.div_small by lia. lia.
  - rewrite Nat.add_comm, Nat.mod_add by lia. now apply Nat.mod_small.
Qed.
Theorem beta_pos_range n_pop n_cov n_sel k c : (k < n_sel)%nat -> (c < n_cov)%nat ->
  (n_pop <= beta_pos n_pop n_cov k c < n_pop + n_sel * n_cov)%nat.
Proof. intros Hk Hc. unfold beta_pos. nia. Qed.
